"""C19 — probability distributions and parameter spaces are self-consistent (partial).

Three streams (all randomness from ctx.rng):
  A  every distribution class x admissible parameters against the documented law (c19_dist.py) and
     SciPy-vs-OpenTURNS agreement                                  -> oracle only (no model needed)
  B  parameter-space histories, compared after every edit/query with the Lean model
     (Driver/C19.lean) and with an independent shadow carrying reference laws (c19_ps.py)
  C  empirical/parametric statistics as consistency relations on generated samples (c19_stats.py)
`pre_lean` regenerates Gen/C19Params.lean (GEMSEO's parameter mappings) from /repo by `ast`.
"""

from __future__ import annotations

import json
import math
from fractions import Fraction
from typing import Any

import numpy as np

from harness import c19_dist as D
from harness import c19_ps as P
from harness import c19_specs as S
from harness import common
from harness.common import F
from harness.common import Result
from harness.common import rat

PID = "C19"
Fr = Fraction
B30 = D.B30

TRUSTED_EXTRA = (
    "C19: SciPy/OpenTURNS numerics (cdf, ppf/computeQuantile, moments, samplers) are parameters of the model; "
    "they are exercised against closed forms/special functions up to 2^-30 (2^-24 for truncated laws), not proved",
    "C19: the SciPy loc/scale convention and the OpenTURNS positional parametrisations are transcribed by hand in "
    "Analysis/C19Laws.lean (validated by stream A); GEMSEO's own mappings are regenerated from /repo (Gen/C19Params.lean)",
    "C19: samples are tied to the laws by Dvoretzky-Kiefer-Wolfowitz bounds (failure probability < 1e-6 per check), not by proof",
)

def pre_lean(ctx) -> None:
    """Translator: regenerate Gen/C19Params.lean from the current sources of /repo."""
    from harness import c19_translate

    ctx.gen_changed = c19_translate.write()


# --------------------------------------------------------------------------- stream B runner


def rows_of(q) -> int:
    return int(q.get("rows", 0))


def vec_str(v) -> str:
    return ",".join(rat(float(c)) for c in v) if len(v) else "[]"


def arr_str(a) -> str:
    a = np.asarray(a, dtype=float)
    if a.ndim == 1:
        return P.flist(a)
    return ";".join(P.flist(r) for r in a) if a.shape[0] else "[]"


def out_mode(q) -> str:
    return q.get("out", "none")


def call_norm(ps, q, direction: str, arr, out=None):
    """The public entry point of the query; `out` is forwarded only when the query has one (the
    default call is made without the keyword, as most callers do)."""
    kw = {} if out is None else {"out": out}
    if q.get("api") == "transform" and q["use_dist"] and q["minus_lb"]:
        return ps.transform_vect(arr, **kw) if direction == "nrm" else ps.untransform_vect(arr, **kw)
    if direction == "nrm":
        return ps.normalize_vect(arr, minus_lb=q["minus_lb"], use_dist=q["use_dist"], **kw)
    return ps.unnormalize_vect(arr, minus_lb=q["minus_lb"], use_dist=q["use_dist"], **kw)


OUT_FILL = -7.0  # content of a distinct `out` buffer before the call


def vector_call(ps, sh, q, direction, vecs, lines, impl, bad, notes, tag):
    """One (un)normalisation call with the `out` mode of the query.

    Observed: the returned array, the content of `out` after the call (when given) and the content
    of the input array after the call.  Oracle (documented semantics): the returned array and `out`
    hold the component-wise map of the ORIGINAL input values; the input array is unchanged unless
    it is `out`.  `tag` None: second leg of a round trip (only aliasing facts are judged here, the
    values are judged by `check_roundtrip`).  Returns the returned array, None when skipped.
    """
    two_d = bool(rows_of(q))
    mode = out_mode(q)
    arr = np.array(vecs if two_d else vecs[0], dtype=float)
    original = arr.copy()
    inverse = direction == "unr"
    tbl = []
    if q["use_dist"]:
        for v in vecs:
            t = P.table_entries(sh, v, inverse)
            if t is None:
                notes.append("thirdparty-nonfinite")
                return None
            tbl += t
    buf = None if mode == "none" else arr if mode == "alias" else np.full(arr.shape, OUT_FILL)
    ret = call_norm(ps, q, direction, arr, buf)
    opn = direction + ("2" if two_d else "")
    xs = ";".join(vec_str(v) for v in vecs) if two_d else vec_str(vecs[0])
    tables = " ".join(dict.fromkeys(tbl))
    if mode == "none":
        lines.append(f"{opn} {int(q['minus_lb'])} {int(q['use_dist'])} {xs} {tables}")
        impl.append(arr_str(ret))
    else:
        lines.append(f"{opn} {mode} {int(q['minus_lb'])} {int(q['use_dist'])} {xs} {tables}")
        impl.append(f"ret={arr_str(ret)} out={arr_str(buf)} x={arr_str(arr)}")
    label = tag or ("unnormalize" if inverse else "normalize")
    if tag is not None:
        check_map(bad, sh, vecs, ret, direction, q, tag)
    if buf is not None:
        # `out`: "The array to store the (un)normalized vector."
        qq = dict(q, rows=len(vecs) if two_d else 0)
        n0 = len(bad)
        check_map(bad, sh, vecs, buf, direction, qq, f"{label}-out-buffer")
        if len(bad) > n0:
            k, m = bad[-1]
            bad[-1] = (k, m + f" [content of the array passed as out ({'the input array itself' if mode == 'alias' else 'a distinct buffer'}) after the call; input {original.tolist()}]")
    if mode != "alias":
        same = arr.shape == original.shape and all(
            (math.isnan(a) and math.isnan(b)) or a == b for a, b in zip(arr.ravel().tolist(), original.ravel().tolist())
        )
        if not same:
            bad.append((f"{label}-input-modified", f"the input array was {original.tolist()} before the call and is {arr.tolist()} after it (out: {mode}; minus_lb={q['minus_lb']}, use_dist={q['use_dist']})"))
    return ret


def check_map(bad, sh, vecs, out, direction, q, tag):
    """Oracle of one (un)normalisation call against the documented component-wise semantics."""
    out = np.asarray(out, dtype=float)
    want_shape = (len(vecs), sh.dim()) if rows_of(q) else (sh.dim(),)
    if out.shape != want_shape:
        bad.append((f"{tag}-shape", f"result shape {out.shape}, expected {want_shape}"))
        return
    out2 = out if rows_of(q) else out[None, :]
    for r, vec in enumerate(vecs):
        exp = P.expected_map(sh, vec, direction, q["minus_lb"], q["use_dist"])
        for j, (kind, val, scale) in enumerate(exp):
            got = out2[r, j]
            if kind == "skip" or val is None:
                continue
            if kind == "exact":
                if not (D.fin(got) and abs(F(got) - val) <= P.B40 * max(Fr(1), abs(val))):
                    bad.append((f"{tag}-deterministic", f"component {j}: got {float(got)!r}, the affine design-space map gives {float(val)!r} (minus_lb={q['minus_lb']}, use_dist={q['use_dist']})"))
                    return
            elif not D.close(got, val, B30 * 4, scale):
                bad.append((f"{tag}-random", f"component {j}: got {float(got)!r}, the law of this component gives {val!r}"))
                return


def run_case(case: dict, want_lines: bool = True) -> dict:
    """Run a history on the real code; collect protocol lines, implementation answers and oracle verdicts."""
    from gemseo.algos.parameter_space import ParameterSpace

    ps = ParameterSpace()
    sh = P.Shadow()
    lines: list[str] = ["new"]
    impl: list[str | None] = [None]  # None: not compared (setup line)
    bad: list[tuple[str, str]] = []
    notes: list[str] = []
    hist: list[str] = []
    modes: list[str] = []
    for op in case["ops"]:
        kind = op["op"]
        if kind != "q":
            before = P.Shadow()
            before.vars = list(sh.vars)
            if not sh.apply(op):
                continue  # not applicable (after shrinking): skipped on every side
            if kind == "addr":
                seen = set()
                try:
                    for sp in P.comp_specs(op):
                        k = S.lean_key(sp)
                        if k not in seen:
                            seen.add(k)
                            lines.append(P.env_line(sp))
                            impl.append(None)
                except Exception as e:  # noqa: BLE001
                    bad.append((f"construct-raises:{op['cls']}", f"{op['cls']} raised {type(e).__name__} for admissible parameters {op['params']}: {e!s}"[:300]))
                    break
            status = P.impl_edit(ps, op)
            hist.append(kind)
            lines.append(P.edit_line(op))
            try:
                view = P.impl_view(ps)
            except Exception as e:  # noqa: BLE001
                view = "view-raises:" + type(e).__name__
            impl.append(("ok " if status == "ok" else "E ") + view)
            if status != "ok":
                bad.append((f"edit-raises:{kind}", f"{kind} raised {status} on an admissible edit: {P.edit_line(op)}"))
                break
            try:
                bad += oracle_state(ps, sh, kind)
            except Exception as e:  # noqa: BLE001
                bad.append((f"state-after-{kind}:raises", f"reading the public views after {P.edit_line(op)} raised {type(e).__name__}: {e!s}"[:300]))
                break
            continue
        if not sh.vars:
            continue
        q = op
        qk = q["kind"]
        hist.append("q:" + qk)
        try:
            if qk in ("nrm", "unr", "rt"):
                direction = "unr" if qk == "unr" else "nrm"
                nrows = rows_of(q) or 1
                vecs = [P.make_vector(sh, q["seed"] + r, direction == "unr", q["use_dist"]) for r in range(nrows)]
                modes.append(f"out={out_mode(q)}:{'2-D' if rows_of(q) else '1-D'}:use_dist={int(q['use_dist'])}")
                out = vector_call(ps, sh, q, direction, vecs, lines, impl, bad, notes, "normalize" if direction == "nrm" else "unnormalize")
                if out is None:
                    continue
                if qk == "rt":
                    y = np.asarray(out, dtype=float)
                    if not np.all(np.isfinite(y)):
                        continue
                    yv = [list(map(float, r)) for r in (y if rows_of(q) else y[None, :])]
                    back = vector_call(ps, sh, q, "unr", yv, lines, impl, bad, notes, None)
                    if back is None:
                        continue
                    check_roundtrip(bad, sh, vecs, back, q)
            elif qk == "ecdf":
                inv = q["inverse"]
                vec = P.make_vector(sh, q["seed"], inv, True)
                value, toks, k = {}, [], 0
                for v in sh.vars:
                    value[v.name] = np.array(vec[k : k + v.size])
                    toks.append(f"{v.name}={vec_str(vec[k:k + v.size])}")
                    k += v.size
                tbl = P.table_entries(sh, vec, inv)
                if tbl is None:
                    notes.append("thirdparty-nonfinite")
                    continue
                res = ps.evaluate_cdf(value, inverse=inv)
                lines.append(f"ecdf {int(inv)} " + " ".join(toks) + " " + " ".join(dict.fromkeys(tbl)))
                impl.append(";".join(f"{n}={P.flist(a)}" for n, a in res.items()) or "[]")
                if list(res) != sh.unc():
                    bad.append(("evaluate-cdf-keys", f"evaluate_cdf returned {list(res)}, uncertain variables are {sh.unc()}"))
                else:
                    for v in sh.vars:
                        if v.rnd:
                            got = np.atleast_1d(np.asarray(res[v.name], dtype=float))
                            for i, law in enumerate(v.laws):
                                xin = float(value[v.name][i])
                                want = law.icdf(xin) if inv else law.cdf(xin)
                                if got.shape != (v.size,) or not D.close(got[i], want, B30 * 4, max(1.0, law.std)):
                                    bad.append(("evaluate-cdf-value", f"{v.name}[{i}]: got {got.tolist()}, the law gives {want!r}"))
                                    break
            elif qk == "samples":
                if not sh.unc():
                    continue
                n = q["n"]
                D.seed_libs(q["seed"])
                smp = np.asarray(ps.compute_samples(n), dtype=float)
                D.seed_libs(q["seed"])
                dicts = ps.compute_samples(n, as_dict=True)
                lines.append("ssup")
                cols = [d for name in ps.uncertain_variables for d in ps.distributions[name].marginals]
                impl.append(",".join(f"{P.onum(d.support[0])}:{P.onum(d.support[1])}" for d in cols))
                check_samples(bad, sh, smp, dicts, n)
                if smp.ndim == 2 and smp.shape[0] >= 1 and len(dicts) >= 1 and np.all(np.isfinite(smp[0])):
                    lines.append("sdict " + vec_str(smp[0]))
                    impl.append(";".join(f"{k}={P.flist(a)}" for k, a in dicts[0].items()) or "[]")
            elif qk == "exu":
                lines.append("exu")
                impl.append(P.impl_view(ps.extract_uncertain_space()))
                sub = ps.extract_uncertain_space()
                if list(sub.variable_names) != sh.unc() or list(sub.uncertain_variables) != sh.unc():
                    bad.append(("extract-uncertain", f"extract_uncertain_space has variables {list(sub.variable_names)}, uncertain variables are {sh.unc()}"))
            elif qk == "exd":
                lines.append("exd")
                sub = ps.extract_deterministic_space()
                impl.append(P.impl_view(sub, with_dist=False))
                det = [v.name for v in sh.vars if not v.rnd]
                if list(sub.variable_names) != det:
                    bad.append(("extract-deterministic", f"extract_deterministic_space has variables {list(sub.variable_names)}, deterministic variables are {det}"))
            elif qk == "tods":
                lines.append("tods")
                sub = ps.to_design_space()
                impl.append(P.impl_view(sub, with_dist=False))
                want = sorted(sh.names())
                if sorted(sub.variable_names) != want:
                    bad.append(("to-design-space", f"to_design_space has variables {list(sub.variable_names)}, expected {want}"))
        except Exception as e:  # noqa: BLE001
            bad.append((f"query-raises:{qk}", f"{qk} raised {type(e).__name__}: {e!s}"[:300] + f" on {json.dumps(q)}"))
            lines.append("view")
            impl.append(None)
    return {"lines": lines, "impl": impl, "bad": bad, "notes": notes, "hist": hist, "modes": modes, "dim": sh.dim(), "nvars": len(sh.vars), "nunc": len(sh.unc())}


def check_roundtrip(bad, sh, vecs, back, q):
    back = np.asarray(back, dtype=float)
    b2 = back if rows_of(q) else back[None, :]
    if b2.shape != (len(vecs), sh.dim()):
        bad.append(("roundtrip-shape", f"shape {back.shape}"))
        return
    for r, vec in enumerate(vecs):
        j = 0
        for v in sh.vars:
            for i in range(v.size):
                scale = max(1.0, v.laws[i].std) if v.rnd else 1.0
                degenerate = v.lb[i] is not None and v.ub[i] is not None and v.lb[i] == v.ub[i]
                if degenerate and not q["minus_lb"] and not (v.rnd and q["use_dist"]):
                    # coinciding bounds: the scaling x/(ub-lb) is not invertible (C02: gradient scaling is 0)
                    j += 1
                    continue
                if not D.close(b2[r, j], vec[j], B30 * 16, scale):
                    which = "random" if v.rnd else "deterministic"
                    bad.append((f"roundtrip-{which}", f"unnormalize(normalize(x)) component {j} ({v.name}[{i}]): {float(b2[r, j])!r} != {vec[j]!r} (minus_lb={q['minus_lb']}, use_dist={q['use_dist']})"))
                    return
                j += 1


def check_samples(bad, sh, smp, dicts, n):
    laws = [(v.name, i, law) for v in sh.vars if v.rnd for i, law in enumerate(v.laws)]
    if smp.shape != (n, len(laws)):
        bad.append(("samples-shape", f"compute_samples({n}) has shape {smp.shape}, expected {(n, len(laws))}"))
        return
    for j, (name, i, law) in enumerate(laws):
        col = smp[:, j]
        scale = max(1.0, law.std)
        ok = all(
            D.fin(s) and (law.lb is None or s >= float(law.lb) - 1e-12 * scale) and (law.ub is None or s <= float(law.ub) + 1e-12 * scale)
            for s in col
        )
        if not ok:
            bad.append(("samples-support", f"column {j} ({name}[{i}]) leaves the support [{law.lb}, {law.ub}]: min {col.min()!r} max {col.max()!r}"))
            return
        if n >= 64 and law.name != "dirac":
            for qv in (0.25, 0.5, 0.75):
                emp = float(np.mean(col <= law.icdf(qv)))
                if not abs(emp - qv) <= 0.35:
                    bad.append(("samples-law", f"column {j} ({name}[{i}]): empirical P[X <= Q({qv})] = {emp} over {n} samples"))
                    return
    if not isinstance(dicts, list) or len(dicts) != n:
        bad.append(("samples-dict", f"compute_samples(as_dict=True) is not a list of {n} dictionaries"))
        return
    unc = sh.unc()
    for r, dct in enumerate(dicts):
        if list(dct) != unc:
            bad.append(("samples-dict", f"sample {r} has keys {list(dct)}, uncertain variables are {unc}"))
            return
        flat = np.concatenate([np.atleast_1d(np.asarray(dct[k], dtype=float)) for k in unc])
        sizes = [np.atleast_1d(dct[k]).size for k in unc]
        if sizes != [sh.get(k).size for k in unc] or flat.shape != smp[r].shape or not all(D.fin(a) and D.fin(b) and F(a) == F(b) for a, b in zip(flat, smp[r])):
            bad.append(("samples-dict", f"sample {r} as a dictionary does not split the array sample in the order and sizes of the uncertain variables"))
            return


def oracle_state(ps, sh, kind) -> list[tuple[str, str]]:
    """Public views of the space after an edit against the shadow (documented semantics)."""
    bad = []
    tag = f"state-after-{kind}"
    names = list(ps.variable_names)
    if names != sh.names():
        return [(f"{tag}:names", f"variable names {names}, expected {sh.names()}")]
    if list(ps.uncertain_variables) != sh.unc():
        return [(f"{tag}:uncertain", f"uncertain variables {list(ps.uncertain_variables)}, expected {sh.unc()}")]
    det = [v.name for v in sh.vars if not v.rnd]
    if list(ps.deterministic_variables) != det:
        bad.append((f"{tag}:deterministic", f"deterministic variables {list(ps.deterministic_variables)}, expected {det}"))
    if [ps.variable_sizes[n] for n in names] != [v.size for v in sh.vars]:
        return [(f"{tag}:sizes", f"sizes {[ps.variable_sizes[n] for n in names]}, expected {[v.size for v in sh.vars]}")]
    for v in sh.vars:
        lbs = np.atleast_1d(ps.get_lower_bound(v.name)).astype(float)
        ubs = np.atleast_1d(ps.get_upper_bound(v.name)).astype(float)
        if v.rnd:
            if not ps.is_uncertain(v.name) or ps.is_deterministic(v.name):
                bad.append((f"{tag}:flags", f"{v.name} is not flagged uncertain"))
            margs = ps.distributions[v.name].marginals
            if len(margs) != v.size:
                bad.append((f"{tag}:marginals", f"{v.name} has {len(margs)} marginals for size {v.size}"))
                continue
            sup = np.asarray(ps.get_support(v.name), dtype=float)
            for i, law in enumerate(v.laws):
                derived = getattr(law, "derived", False)
                scale = max(1.0, law.std)
                m = margs[i]
                bm = (D.B20 if getattr(law, "composite", False) else D.B24) if getattr(law, "numeric_moments", False) else B30
                if getattr(law, "numeric_moments", False) and not getattr(law, "moment_error", 1.0) <= 1e-10:
                    continue
                if not D.close(m.mean, float(law.mean), bm, scale):
                    bad.append((f"{tag}:marginal-law", f"marginal {v.name}[{i}] has mean {float(m.mean)!r}, the requested law has mean {float(law.mean)!r}"))
                    break
                if not D.close(m.standard_deviation, law.std, bm, scale):
                    bad.append((f"{tag}:marginal-law", f"marginal {v.name}[{i}] has standard deviation {float(m.standard_deviation)!r}, the requested law has {law.std!r}"))
                    break
                for which, got, want, gsup in (("lower", lbs[i], law.lb, sup[i][0]), ("upper", ubs[i], law.ub, sup[i][1])):
                    if not ((math.isinf(got) and math.isinf(gsup) and got == gsup) or (D.fin(got) and D.fin(gsup) and F(got) == F(gsup))):
                        bad.append((f"{tag}:bounds", f"{which} bound {got!r} of {v.name}[{i}] is not the support bound {gsup!r}"))
                    elif not derived and not ((want is None and math.isinf(got)) or (want is not None and D.fin(got) and F(got) == Fr(want))):
                        bad.append((f"{tag}:bounds", f"{which} bound {got!r} of {v.name}[{i}] is not the mathematical support bound {want}"))
        else:
            if ps.is_uncertain(v.name) or not ps.is_deterministic(v.name):
                bad.append((f"{tag}:flags", f"{v.name} is not flagged deterministic"))
            for i in range(v.size):
                for got, want in ((lbs[i], v.lb[i]), (ubs[i], v.ub[i])):
                    if not ((want is None and math.isinf(got)) or (want is not None and D.fin(got) and F(got) == want)):
                        bad.append((f"{tag}:bounds", f"bound {got!r} of {v.name}[{i}], expected {want}"))
    if sh.unc():
        joint = ps.distribution
        laws = [law for v in sh.vars if v.rnd for law in v.laws]
        if joint is None or len(joint.marginals) != len(laws):
            bad.append((f"{tag}:joint", "the joint distribution does not have one marginal per uncertain component"))
        else:
            for j, (m, law) in enumerate(zip(joint.marginals, laws)):
                if getattr(law, "numeric_moments", False):
                    continue
                if not D.close(m.mean, float(law.mean), B30, max(1.0, law.std)):
                    bad.append((f"{tag}:joint", f"marginal {j} of the joint distribution has mean {float(m.mean)!r}, expected {float(law.mean)!r}"))
                    break
    return bad


# --------------------------------------------------------------------------- case checking


def classify(case) -> str:
    return case["lib"]


def shrink_case(case, key):
    def fails(ops):
        c = {"lib": case["lib"], "ops": ops}
        try:
            return any(k == key for k, _ in run_case(c, want_lines=False)["bad"])
        except Exception:  # noqa: BLE001
            return False

    ops = common.shrink_list(case["ops"], fails, budget=80)
    return {"lib": case["lib"], "ops": ops}


def neighbours(case):
    ops = case["ops"]
    for i in range(len(ops)):
        yield {"lib": case["lib"], "ops": ops[:i] + ops[i + 1 :]}
    for i, op in enumerate(ops):
        if op["op"] == "q" and op["kind"] in ("nrm", "unr", "rt"):
            for flip in ("minus_lb", "use_dist"):
                q = dict(op)
                q[flip] = not q[flip]
                q["api"] = "normalize"
                yield {"lib": case["lib"], "ops": ops[:i] + [q] + ops[i + 1 :]}
            q = dict(op)
            q["rows"] = 2 if not rows_of(op) else 0
            yield {"lib": case["lib"], "ops": ops[:i] + [q] + ops[i + 1 :]}
            for md in P.OUT_MODES:
                if md != out_mode(op):
                    q = dict(op)
                    q["out"] = md
                    yield {"lib": case["lib"], "ops": ops[:i] + [q] + ops[i + 1 :]}


def check_cases(res: Result, cases: list[dict], label: str) -> None:
    runs = []
    all_lines: list[str] = []
    for case in cases:
        r = run_case(case)
        runs.append(r)
        all_lines += r["lines"]
    model = common.run_lean_driver(PID, all_lines) if all_lines else []
    pos = 0
    for case, r in zip(cases, runs):
        n = len(r["lines"])
        mod = model[pos : pos + n]
        pos += n
        res.evaluations += 1
        res.count(f"{label}:lib={case['lib']}")
        res.count(f"{label}:nvars={min(r['nvars'], 6)}")
        res.count(f"{label}:dim={min(r['dim'], 9)}")
        for h in r["hist"]:
            res.count(f"{label}:op={h}")
        for nt in r["notes"]:
            res.count(f"{label}:{nt}")
        for md in r["modes"]:
            res.count(f"{label}:vector-call:{md}")
        if r["nvars"] >= 2 and r["nunc"] >= 1:
            res.nontrivial(json.dumps(case, sort_keys=True))
        res.sample({"case_ops": [o.get("kind", o["op"]) for o in case["ops"]], "last_line": r["lines"][-1][:200], "impl": (r["impl"][-1] or "")[:200], "model": mod[-1][:200]})
        for key, msg in r["bad"]:
            small = shrink_case(case, key)
            res.violate("oracle", key, msg, {"stream": "ps", "case": small})
        dis = [(ln, a, m) for ln, a, m in zip(r["lines"], r["impl"], mod) if a is not None and not P.same_answer(a, m)]
        if not dis:
            res.traces_validated += 1
            continue
        res.disagreements += 1
        if r["bad"]:
            continue
        found = False
        for nb in neighbours(case):
            rb = run_case(nb, want_lines=False)
            if rb["bad"]:
                key, msg = rb["bad"][0]
                res.violate("oracle", key, msg, {"stream": "ps", "case": shrink_case(nb, key)})
                found = True
                break
        if not found:
            ln, a, m = dis[0]
            res.violate(
                "correspondence",
                "ps-model-vs-impl",
                "implementation and Lean model of ParameterSpace disagree (no property-violating input found among the neighbours of the case)",
                {"stream": "ps", "case": case, "protocol_line": ln, "impl": a, "model": m, "correspondence": "Driver/C19.lean"},
            )


# --------------------------------------------------------------------------- run


def load_corpus() -> list[dict[str, Any]]:
    d = common.CORPUS_DIR / PID
    out = []
    if d.is_dir():
        for p in sorted(d.glob("*.json")):
            out.append(json.loads(p.read_text()))
    return out


def run_dist_stream(res: Result, rng, n: int, deadline: float) -> None:
    import time

    for i in range(n):
        if time.time() > deadline:
            res.notes.append("stream A stopped at the deadline")
            break
        lib = rng.pick(["SP", "OT"])
        spec = S.gen_spec(rng, lib)
        check_spec(res, spec, rng.randint(0, 10**9), [rng.randint(2, 62) / 64 + rng.random() / 128])


def check_spec(res: Result, spec, seed: int, extra_p=()) -> None:
    res.evaluations += 1
    fam = S.family_of(spec)
    lib = S.lib_of(spec)
    res.count(f"A:{lib}:{fam}")
    opts = [k for k, _ in spec["params"] if k in ("transformation", "lower_bound", "upper_bound")]
    if opts:
        res.count("A:option=" + "+".join(opts))
        zero = [k for k, v in spec["params"] if k in ("lower_bound", "upper_bound") and S.pval(v) == 0]
        if zero:
            res.count("A:truncation-bound-equal-to-0:" + "+".join(zero) + ("(one-sided)" if len([o for o in opts if o != "transformation"]) == 1 else ""))
    bad, obs = D.check_distribution(spec, seed, list(extra_p))
    if obs.get("thirdparty_nonfinite"):
        res.count("A:thirdparty-nonfinite(scipy itself)")
    if obs.get("moments_skipped"):
        res.count("A:reference-moments-not-converged")
    res.nontrivial(json.dumps(spec, sort_keys=True))
    res.sample({"spec": spec, "observed": {k: obs[k] for k in ("support", "range", "mean", "std") if k in obs}})
    for key, msg in bad:
        res.violate("oracle", key, msg, {"stream": "dist", "spec": spec, "seed": seed})
    a, b = S.twin(spec, "SP"), S.twin(spec, "OT")
    if a is not None:
        res.count("A:agreement")
        for key, msg in D.check_agreement(a, b):
            res.violate("oracle", key, msg, {"stream": "agree", "spec": a})


def run(ctx) -> Result:
    import time

    res = Result(PID)
    res.rule = (
        "A: one distribution object per generated (class, dyadic admissible parameters[, transformation, truncation]); distinct by specification. "
        "B: parameter-space histories (3-9 edits: random vectors of size 1-3 of either library, deterministic float/integer variables with "
        "finite/infinite bounds, removals, renamings) with 1-D/2-D (un)normalisation, round-trip, evaluate_cdf, sampling and derived-space "
        "queries; non-trivial = at least 2 variables one of which is uncertain; distinct by history. C: statistics toolboxes on generated samples."
    )
    res.assumptions = [
        "distribution parameters are dyadic rationals in moderate ranges (|location| <= 4, scales/shapes in [1/4, 5])",
        "probabilities on the grid k/64 (k=1..63) plus random interior points; values on the support at reference quantiles",
        "truncation bounds keep at least 30 % of the mass; transformations are affine (a*x+b, a != 0)",
        "triangular modes strictly inside (minimum, maximum)",
        "a non-finite answer that SciPy itself gives when called directly with the independently computed parametrisation "
        "(scipy 1.14.1: beta(5,5).ppf(0.5) is nan) is attributed to SciPy, counted and not judged",
    ]
    rng = ctx.rng
    t_end = ctx.deadline
    n_a = 4000 if ctx.thorough else 500
    n_b = 2500 if ctx.thorough else 260
    # corpus first
    corpus = load_corpus()
    ps_corpus = []
    for c in corpus:
        res.count("corpus")
        if c.get("stream") == "ps":
            ps_corpus.append(c["case"])
        elif c.get("stream") in ("dist", "agree"):
            check_spec(res, c["spec"], c.get("seed", 0))
        elif c.get("stream") == "stats":
            from harness import c19_stats

            c19_stats.check_case(res, c["case"])
    if ps_corpus:
        check_cases(res, ps_corpus, "B")
    # stream A
    run_dist_stream(res, rng, n_a, time.time() + (t_end - time.time()) * 0.35)
    # stream B
    batch: list[dict] = []
    for _ in range(n_b):
        batch.append(P.gen_case(rng, ctx.thorough))
    for i in range(0, len(batch), 130):
        if time.time() > t_end:
            res.notes.append("stream B stopped at the deadline")
            break
        check_cases(res, batch[i : i + 130], "B")
    # stream C
    try:
        from harness import c19_stats
    except ImportError:
        c19_stats = None
    if c19_stats is not None:
        c19_stats.run_stream(res, rng, 300 if ctx.thorough else 30, t_end)
    return res


def replay(path: str) -> int:
    data = json.loads(open(path).read())
    rp = data.get("replay", data)
    stream = rp.get("stream")
    if stream == "ps":
        r = run_case(rp["case"])
        model = common.run_lean_driver(PID, r["lines"])
        for ln, a, m in zip(r["lines"], r["impl"], model):
            if a is None:
                continue
            flag = "" if P.same_answer(a, m) else "   <-- DIFFERS"
            print(f"> {ln[:160]}\n  impl : {a[:300]}\n  model: {m[:300]}{flag}")
        for k, m in r["bad"]:
            print("ORACLE FAILS:", k, m)
        return 1 if r["bad"] else 0
    if stream in ("dist", "agree"):
        res = Result(PID)
        check_spec(res, rp["spec"], rp.get("seed", 0))
        for v in res.violations:
            print("ORACLE FAILS:", v.key, v.what)
        return 1 if res.violations else 0
    if stream == "stats":
        from harness import c19_stats

        res = Result(PID)
        c19_stats.check_case(res, rp["case"])
        for v in res.violations:
            print("ORACLE FAILS:", v.key, v.what)
        return 1 if res.violations else 0
    print(json.dumps(rp, indent=1)[:3000])
    return 1
