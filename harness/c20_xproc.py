"""Cross-interpreter round trips of the C20 check.

The property: "pickled and restored - as done implicitly by multiprocessing and explicitly by the save/load
helpers".  Both mean that the object is restored by *another interpreter*: a `spawn`/`forkserver` worker, a
later session calling `from_pickle`.  Another interpreter has another string-hash seed, hence another iteration
order of every `set`, other `id`s, freshly imported modules and empty module-level caches: whatever a
`__setstate__` (or a hook) re-creates there must be consistent with what was pickled by the writer.  A round
trip inside one process - all the other streams do - cannot see a re-created member that depends on the
process.

A job = {"kind": "xproc", "wseed": w, "rseeds": [r, ...], "via": "file" | "spawn", "items": [item, ...]}:

* a *writer* interpreter (`PYTHONHASHSEED=w`, a sub-process of /venv/bin/python) builds every item, gives it its
  life, serializes it (`pickle.dump` / `to_pickle` to a file), and only then records what the **original**
  answers (views, outputs and Jacobians at generated inputs that are not the cached ones, ...);
* for every reader seed a *reader* interpreter (`PYTHONHASHSEED=r`) restores the items and answers the same
  questions: `via="file"`: a new sub-process reading the files (`pickle.load` / `from_pickle`);
  `via="spawn"`: a `multiprocessing` process of the `spawn` context started by the writer with the objects as
  arguments (pickled implicitly by multiprocessing);
* the parent compares (the oracle: equal views, bytewise equal outputs/Jacobians, same exception classes).

Items: {"kind": "discipline", ...} (a case of c20_diff, any recipe of the catalogue, with edits),
{"kind": "ad", ...} (an `AnalyticDiscipline` made of integer polynomials, evaluated at dyadic inputs: the exact
stream, also compared with the Lean model `AD` through the `ad` protocol of the driver),
{"kind": "function" | "design_space" | "problem" | "scenario" | "grammar", ...} (builders and views of c20_diff2).

A time-out or a crash of a child is never a verdict (status "skipped").
"""

from __future__ import annotations

import json
import os
import pickle
import shutil
import subprocess
import sys
import tempfile
from fractions import Fraction
from pathlib import Path
from typing import Any

VERIF = Path(__file__).resolve().parent.parent
PYTHON = "/venv/bin/python"
CHILD_TIMEOUT = 900  # seconds; reaching it skips the job (exit 2 logic is the caller's: never a VIOLATION)

# --------------------------------------------------------------------------- the exact stream: polynomials

AD_SYMBOLS = ("a", "b", "c", "d", "e")


def gen_ad_item(rng, idx: int = 0) -> dict[str, Any]:
    """An AnalyticDiscipline whose expressions are integer polynomials with pairwise different coefficients
    (not symmetric in their symbols), inputs dyadic: every float operation is exact."""
    n_out = rng.randint(1, 3)
    exprs = []
    for k in range(n_out):
        syms = rng.sample(list(AD_SYMBOLS), rng.randint(2, 4))
        coefs = rng.sample([-5, -4, -3, -2, 2, 3, 4, 5, 6, 7], len(syms) + 1)
        monos = [[coefs[i], [s]] for i, s in enumerate(syms)]
        # one non-linear monomial: a product of two (possibly equal) symbols
        s1, s2 = rng.pick(syms), rng.pick(syms)
        monos.append([coefs[-1], sorted([s1, s2])])
        if rng.chance(0.3):
            monos.append([rng.pick([1, -1]), []])  # constant
        exprs.append([f"y{k}", monos])
    used = sorted({s for _, ms in exprs for _, ss in ms for s in ss})
    points = [{s: str(Fraction(rng.randint(-12, 12), rng.pick([1, 2, 4, 8]))) for s in used} for _ in range(2)]
    return {
        "kind": "ad",
        "exprs": exprs,
        "points": points,
        "moment": rng.pick(["fresh", "executed", "linearized"]),
        "serializer": rng.pick(["pickle", "gemseo", "pickle-highest"]),
        "cache": rng.pick(["SimpleCache", "none"]),
    }


def ad_expr_string(monos) -> str:
    terms = []
    for c, ss in monos:
        terms.append("*".join([f"({c})", *ss]))
    return " + ".join(terms) if terms else "0"


def ad_eval(monos, point: dict[str, Fraction]) -> Fraction:
    """The value of the polynomial, from its definition (the oracle of the exact stream)."""
    tot = Fraction(0)
    for c, ss in monos:
        t = Fraction(c)
        for s in ss:
            t *= point[s]
        tot += t
    return tot


def ad_diff(monos, x: str):
    out = []
    for c, ss in monos:
        k = ss.count(x)
        if k:
            rest = list(ss)
            rest.remove(x)
            out.append([c * k, rest])
    return out


def ad_symbols(monos) -> list[str]:
    return sorted({s for _, ss in monos for s in ss})


# --------------------------------------------------------------------------- building items, answering questions


def _setup_child() -> None:
    sys.path.insert(0, str(VERIF))
    pydeps = VERIF / ".pydeps"
    if pydeps.is_dir() and str(pydeps) not in sys.path:
        sys.path.append(str(pydeps))
    os.environ.setdefault("OMP_NUM_THREADS", "1")
    os.environ.setdefault("OPENBLAS_NUM_THREADS", "1")
    os.environ.setdefault("MPLBACKEND", "Agg")
    from harness import common

    common.quiet_gemseo()


def _dump(obj, serializer: str, path: Path) -> None:
    if serializer == "gemseo":
        from gemseo.utils.pickle import to_pickle

        to_pickle(obj, path)
    else:
        with path.open("wb") as f:
            pickle.dump(obj, f, protocol=pickle.HIGHEST_PROTOCOL if serializer == "pickle-highest" else None)


def _load(serializer: str, path: Path):
    if serializer == "gemseo":
        from gemseo.utils.pickle import from_pickle

        return from_pickle(path)
    with path.open("rb") as f:
        return pickle.load(f)


def _sympy_order(expr_string: str) -> list[str]:
    """The iteration order of the free symbols of the expression in *this* interpreter (the environment the
    model is parameterized with), observed through SymPy's public API."""
    from sympy.parsing.sympy_parser import parse_expr

    return [s.name for s in parse_expr(expr_string).free_symbols]


def build_item(item: dict[str, Any], tmp: Path):
    """(object, plan) in the writer: the object after its life, and what will be asked (JSON/pickle-able)."""
    import numpy as np

    from harness import c20_diff as D
    from harness import c20_diff2 as D2
    from harness import common

    kind = item["kind"]
    if kind == "discipline":
        # (a recipe that cannot be linearized / executed at the generated input is taken at an earlier moment:
        #  every recipe is restored by another interpreter in every run)
        moments = [item.get("moment", "fresh")] + [m for m in ("executed", "fresh") if m != item.get("moment", "fresh")]
        lived = None
        for moment in moments if item.get("moment", "fresh") != "fresh" else ["fresh"]:
            out = D.Outcome()
            rng = common.make_rng(int(item.get("seed", 0)), "c20-inputs")
            lived = D.live_discipline(dict(item, moment=moment), tmp, rng, out)
            if lived is None and out.status == "noinst" and item.get("grammar", "JSONGrammar") != "JSONGrammar":
                item["grammar"] = "JSONGrammar"  # (the class does not accept this grammar type)
                out = D.Outcome()
                rng = common.make_rng(int(item.get("seed", 0)), "c20-inputs")
                lived = D.live_discipline(dict(item, moment=moment), tmp, rng, out)
            if lived is not None or out.status == "noinst":
                item["moment"] = moment
                break
        if lived is None:
            return None, {"status": out.status, "detail": out.detail}
        disc, pre_inputs, done, seen = lived
        posts = [D.gen_inputs(disc, rng) for _ in range(int(item.get("n_post", 2)))]
        if item.get("moment", "fresh") != "fresh" and pre_inputs:
            posts.append(pre_inputs[-1])  # the cached input (cache-hit path of the copy)
        posts = D.near_inputs(disc, done, seen) + posts
        return disc, {"status": "ok", "inputs": posts, "class": type(disc).__name__, "edits_done": [k for k, _, _ in done], "moment": item["moment"]}
    if kind == "ad":
        from gemseo.disciplines.analytic import AnalyticDiscipline

        exprs = {o: ad_expr_string(ms) for o, ms in item["exprs"]}
        disc = AnalyticDiscipline(exprs, name="ad")
        D.set_cache(disc, item.get("cache", "SimpleCache"), tmp, "ad")
        pts = [{s: np.array([float(Fraction(v))]) for s, v in p.items()} for p in item["points"]]
        if item.get("moment", "fresh") != "fresh":
            disc.execute(D._fresh(pts[0]))
        if item.get("moment") == "linearized":
            disc.linearize(D._fresh(pts[0]), compute_all_jacobians=True)
        # (the first point is the cached one for a used discipline: the second one is recomputed)
        return disc, {"status": "ok", "inputs": pts, "class": "AnalyticDiscipline"}
    rng = common.make_rng(int(item.get("seed", 0)), "c20-x-" + kind)
    if kind == "function":
        f = D2.build_function(item, rng)
        dim_in = 1 if item.get("shape") == "lin-restrict" else 2
        pts = [[rng.randint(-8, 8) / 4.0 for _ in range(dim_in)] for _ in range(3)]
        if item.get("moment") == "used":
            D2.function_view(f, pts[:1])
        return f, {"status": "ok", "pts": pts, "class": type(f).__name__}
    if kind == "design_space":
        ds = D2.build_design_space(item, rng)
        if item.get("moment") == "used":
            D2._ds_probe(ds, [[0.25] * ds.dimension])
            n0 = ds.variable_names[0]
            ds.set_lower_bound(n0, np.full(ds.get_size(n0), -3.0))
        pts = [[rng.randint(-8, 16) / 4.0 for _ in range(ds.dimension)] for _ in range(3)]
        return ds, {"status": "ok", "pts": pts, "class": "DesignSpace"}
    if kind == "problem":
        p = D2.build_problem(item, rng)
        lb, ub = p.design_space.get_lower_bounds(), p.design_space.get_upper_bounds()
        pts = [[float(lb[i] + (ub[i] - lb[i]) * rng.randint(0, 16) / 16.0) for i in range(p.design_space.dimension)] for _ in range(3)]
        if item.get("moment") == "evaluated":
            D2._eval_problem(p, pts[:1])
        elif item.get("moment") == "solved":
            r = D2._run_algo(p, item)
            if isinstance(r, tuple) and r and r[0] == "exc":
                return None, {"status": "skipped", "detail": "original cannot be solved: " + r[2]}
        return p, {"status": "ok", "pts": pts[1:], "class": type(p).__name__}
    if kind == "scenario":
        from gemseo.core.execution_statistics import ExecutionStatistics

        ExecutionStatistics.is_enabled = True
        sc = D2.build_scenario(item)
        if item.get("moment") == "executed":
            st, r = D._call(sc.execute)
            if st == "exc":
                return None, {"status": "skipped", "detail": "original cannot execute: " + r}
        return sc, {"status": "ok", "class": type(sc).__name__}
    if kind == "grammar":
        g = D2.build_grammar(item, rng)
        if isinstance(g, tuple):
            g = g[0]
        return g, {"status": "ok", "class": type(g).__name__, "seed": int(item.get("seed", 0))}
    raise ValueError(kind)


def static_view(item: dict[str, Any], obj) -> Any:
    """The public face, asked to the original at the moment of `dumps` and to the copy right after `loads`."""
    from harness import c20_diff2 as D2
    from harness import c20_observe as OBS

    kind = item["kind"]
    if kind in ("discipline", "ad"):
        return OBS.discipline_view(obj)
    if kind == "function":
        return {k: v for k, v in D2.function_view(obj, []).items() if k != "evals"}
    if kind == "design_space":
        return D2.design_space_view(obj)
    if kind == "problem":
        return D2.problem_view(obj)
    if kind == "scenario":
        return D2.scenario_view(obj)
    if kind == "grammar":
        return OBS.grammar_view(obj)
    raise ValueError(kind)


def behaviour(item: dict[str, Any], obj, plan: dict[str, Any]) -> Any:
    """What the object answers to the questions of the plan (same questions, same order, for original and copy)."""
    import numpy as np

    from harness import c20_diff as D
    from harness import c20_diff2 as D2
    from harness import c20_observe as OBS
    from harness import common

    kind = item["kind"]
    if kind in ("discipline", "ad"):
        res = []
        for x in plan["inputs"]:
            e, em = D._exec_view(obj, x)
            j, jm = D._lin_view(obj, x) if item.get("post_linearize", True) else (None, "")
            res.append({"execute": e, "linearize": j, "msg": (em or jm)[:200]})
        v = D._strip_runtime(OBS.discipline_view(obj))
        out: dict[str, Any] = {"answers": res, "view_after_use": v}
        if kind == "ad":
            exact = []
            for x in plan["inputs"]:
                st, r = D._call(obj.execute, D._fresh(x))
                o = {k: str(common.F(float(np.asarray(r[k]).ravel()[0]))) for k, _ in item["exprs"]} if st == "ok" else {"exc": r}
                st, r = D._call(obj.linearize, D._fresh(x), compute_all_jacobians=True)
                jj = (
                    {k: {n: str(common.F(float(np.asarray(m).ravel()[0]))) for n, m in sorted(r[k].items())} for k, _ in item["exprs"]}
                    if st == "ok"
                    else {"exc": r}
                )
                exact.append({"out": o, "jac": jj})
            out["exact"] = exact
            out["env"] = {o: _sympy_order(ad_expr_string(ms)) for o, ms in item["exprs"]}
        return out
    if kind == "function":
        return D2.function_view(obj, plan["pts"])["evals"]
    if kind == "design_space":
        return D2._ds_probe(obj, plan["pts"])
    if kind == "problem":
        ev = D2._eval_problem(obj, plan["pts"])
        r = D2._run_algo(obj, item) if item.get("solve_after", True) else None
        if isinstance(r, tuple) and r and r[0] == "exc":
            r = r[:2]
        return {"evaluations": ev, "result": r, "view_after_use": D2.problem_view(obj)}
    if kind == "scenario":
        st, r = D._call(obj.execute)
        return {"execute": st if st == "ok" else ("exc", r.split(":")[0]), "view_after_use": D2._no_duration(D2.scenario_view(obj))}
    if kind == "grammar":
        rng = common.make_rng(int(plan.get("seed", 0)), "c20-x-grammar-data")
        return tuple(OBS.validate_outcome(obj, d) for d in OBS.grammar_probe_data(obj, rng))
    raise ValueError(kind)


def _serializer(item) -> str:
    return item.get("serializer", "pickle")


# --------------------------------------------------------------------------- writer / reader (children)


def answer_copy(item, copy, plan) -> dict[str, Any]:
    """Everything the restored object is asked, in the reader."""
    rec: dict[str, Any] = {}
    try:
        rec["view"] = static_view(item, copy)
    except Exception as e:  # noqa: BLE001
        rec["error"] = ("copy-broken", f"viewing the restored object raises {type(e).__name__}: {str(e)[:200]}")
        return rec
    try:
        rec["behaviour"] = behaviour(item, copy, plan)
    except Exception as e:  # noqa: BLE001
        rec["error"] = ("copy-broken", f"using the restored object raises {type(e).__name__}: {str(e)[:200]}")
        return rec
    # second generation, in the reader: the restored object is itself serializable and its copy equal
    try:
        again = pickle.loads(pickle.dumps(copy))
        a, b = static_view(item, copy), static_view(item, again)
        rec["second"] = (a, b)
    except Exception as e:  # noqa: BLE001
        rec["second_error"] = f"{type(e).__name__}: {str(e)[:200]}"
    return rec


def _spawn_reader(objs, items, plans, path: str) -> None:
    """Target of the `spawn` process: the objects arrive as arguments (pickled by multiprocessing)."""
    _setup_child()
    from gemseo.core.execution_statistics import ExecutionStatistics

    ExecutionStatistics.is_enabled = True
    recs = []
    for obj, item, plan in zip(objs, items, plans):
        if obj is None or plan.get("status") != "ok":
            recs.append(None)
            continue
        recs.append(answer_copy(item, obj, plan))
    with open(path, "wb") as f:
        pickle.dump({"hashseed": os.environ.get("PYTHONHASHSEED"), "records": recs}, f)


def writer_main(directory: Path) -> None:
    _setup_child()
    from gemseo.core.execution_statistics import ExecutionStatistics

    ExecutionStatistics.is_enabled = True
    job = json.loads((directory / "job.json").read_text())
    items = job["items"]
    objs, plans, wrec = [], [], []
    scratch = directory / "scratch"
    scratch.mkdir(exist_ok=True)
    for i, item in enumerate(items):
        rec: dict[str, Any] = {}
        try:
            obj, plan = build_item(item, scratch)
        except Exception as e:  # noqa: BLE001
            obj, plan = None, {"status": "noinst", "detail": f"{type(e).__name__}: {str(e)[:160]}"}
        if obj is not None:
            blind = bool(item.get("blind"))
            try:
                if not blind:
                    rec["view"] = static_view(item, obj)
                if job.get("via") == "file":
                    _dump(obj, _serializer(item), directory / f"obj{i}.pkl")
                else:
                    pickle.dumps(obj)  # (a failure to serialize is recorded per item, the spawn start would hide it)
                if blind:
                    rec["view"] = static_view(item, obj)
            except Exception as e:  # noqa: BLE001
                rec["serialize_error"] = f"{type(e).__name__}: {str(e)[:200]}"
                plan = dict(plan, status="unserializable")
        objs.append(obj)
        plans.append(plan)
        wrec.append(rec)
    with (directory / "plans.pkl").open("wb") as f:
        pickle.dump(plans, f)
    if job.get("via") == "spawn":
        # implicit pickling by multiprocessing: the reader is a `spawn` process with another hash seed
        import multiprocessing

        ctx = multiprocessing.get_context("spawn")
        for r in job["rseeds"]:
            os.environ["PYTHONHASHSEED"] = str(r)
            send = [o if p.get("status") == "ok" else None for o, p in zip(objs, plans)]
            proc = ctx.Process(target=_spawn_reader, args=(send, items, plans, str(directory / f"obs_{r}.pkl")))
            proc.start()
            proc.join(CHILD_TIMEOUT)
            if proc.is_alive():
                proc.kill()
        os.environ["PYTHONHASHSEED"] = str(job["wseed"])
    # only now the original answers (after `dumps`: its own answers cannot leak into the pickled state)
    for item, obj, plan, rec in zip(items, objs, plans, wrec):
        if obj is None or plan.get("status") != "ok":
            continue
        try:
            rec["view_after_dumps"] = static_view(item, obj)
            rec["behaviour"] = behaviour(item, obj, plan)
        except Exception as e:  # noqa: BLE001
            rec["error"] = f"{type(e).__name__}: {str(e)[:200]}"
    with (directory / "expected.pkl").open("wb") as f:
        pickle.dump({"hashseed": os.environ.get("PYTHONHASHSEED"), "records": wrec, "plans": [{k: v for k, v in p.items() if k not in ("inputs",)} for p in plans]}, f)


def reader_main(directory: Path, seed: str) -> None:
    _setup_child()
    from gemseo.core.execution_statistics import ExecutionStatistics

    ExecutionStatistics.is_enabled = True
    job = json.loads((directory / "job.json").read_text())
    with (directory / "plans.pkl").open("rb") as f:
        plans = pickle.load(f)
    recs = []
    for i, (item, plan) in enumerate(zip(job["items"], plans)):
        if plan.get("status") != "ok":
            recs.append(None)
            continue
        try:
            copy = _load(_serializer(item), directory / f"obj{i}.pkl")
        except Exception as e:  # noqa: BLE001
            recs.append({"error": ("restore-raises", f"restoring in another interpreter raises {type(e).__name__}: {str(e)[:200]}")})
            continue
        recs.append(answer_copy(item, copy, plan))
    with (directory / f"obs_{seed}.pkl").open("wb") as f:
        pickle.dump({"hashseed": os.environ.get("PYTHONHASHSEED"), "records": recs}, f)


def twin_main(directory: Path, seed: str) -> None:
    """The items listed in twin_<seed>.json, built and used by *this* interpreter without any serialization,
    on the inputs of the writer's plan."""
    _setup_child()
    job = json.loads((directory / "job.json").read_text())
    idx = json.loads((directory / f"twin_{seed}.json").read_text())
    with (directory / "plans.pkl").open("rb") as f:
        plans = pickle.load(f)
    scratch = directory / f"scratch_twin_{seed}"
    scratch.mkdir(exist_ok=True)
    recs: dict[int, Any] = {}
    for i in idx:
        item = dict(job["items"][i])
        if "moment" in plans[i]:
            item["moment"] = plans[i]["moment"]
        try:
            obj, plan = build_item(item, scratch)
            if obj is None:
                recs[i] = {"error": plan.get("detail", "not built")}
                continue
            recs[i] = {"view": static_view(item, obj), "behaviour": behaviour(item, obj, plans[i])}
        except Exception as e:  # noqa: BLE001
            recs[i] = {"error": f"{type(e).__name__}: {str(e)[:200]}"}
    with (directory / f"twin_{seed}.pkl").open("wb") as f:
        pickle.dump(recs, f)


# --------------------------------------------------------------------------- parent side


def _child(args: list[str], seed: int) -> tuple[int, str]:
    env = dict(os.environ)
    env["PYTHONHASHSEED"] = str(seed)
    try:
        p = subprocess.run([PYTHON, "-m", "harness.c20_xproc", *args], cwd=str(VERIF), env=env, capture_output=True, text=True, timeout=CHILD_TIMEOUT, check=False)
    except subprocess.TimeoutExpired:
        return 124, "time-out"
    return p.returncode, (p.stderr or "")[-600:]


def subject(item: dict[str, Any], plan: dict[str, Any] | None = None) -> str:
    k = item["kind"]
    if k == "discipline":
        return item["recipe"] if "[" in item["recipe"] else (plan or {}).get("class") or item["recipe"]
    if k == "ad":
        return "AnalyticDiscipline"
    return {"function": f"MDOFunction[{item.get('shape')}]", "design_space": "DesignSpace", "problem": f"OptimizationProblem[{item.get('problem')}]",
            "scenario": f"{item.get('scenario', 'MDO')}Scenario", "grammar": item.get("grammar", "JSONGrammar")}[k]


def _strip_durations(v: Any) -> Any:
    """Wall-clock durations legitimately differ between two objects that did the same work."""
    if isinstance(v, dict):
        return {k: _strip_durations(x) for k, x in v.items() if k != "duration"}
    return v


def differences(OBS, ref: dict[str, Any], cop: dict[str, Any], strip_durations: bool = False) -> dict[str, str]:
    """{failure kind: text}: every way in which `cop` (view at restoration + behaviour) differs from `ref`."""
    out: dict[str, str] = {}
    va, vb = ref["view"], cop["view"]
    if strip_durations:
        va, vb = _strip_durations(va), _strip_durations(vb)
    if isinstance(va, dict) and isinstance(vb, dict):
        for k in sorted(set(va) | set(vb), key=str):
            d = OBS.diff_views({k: va.get(k)}, {k: vb.get(k)}) if (k in va and k in vb) else [f"/{k}: only in {'original' if k in va else 'copy'}"]
            if d:
                out[f"view-differs:{k}"] = "restored object differs from the original: " + "; ".join(d[:3])
    elif va != vb:
        out["view-differs"] = f"restored object differs from the original: original={OBS.show(va)} copy={OBS.show(vb)}"
    a, b = ref["behaviour"], cop["behaviour"]
    if isinstance(a, dict) and "answers" in a:
        for what in ("execute", "linearize"):
            for k, (x, y) in enumerate(zip(a["answers"], b["answers"])):
                if x[what] != y[what]:
                    if x[what] is None or y[what] is None or x[what][0] == "exc" or y[what][0] == "exc":
                        d = f"original -> {x['msg'] or x[what][0]}; copy -> {y['msg'] or (y[what][0] if y[what] else None)}"
                    else:
                        d = "; ".join(OBS.diff_views(x[what][1], y[what][1])[:3])
                    out[f"{what}-differs"] = f"{what}(input #{k}): {d}"
                    break
        xa, xb = a["view_after_use"], b["view_after_use"]
        for k in sorted(set(xa) | set(xb), key=str):
            d = OBS.diff_views({k: xa.get(k)}, {k: xb.get(k)})
            if d:
                out[f"view-differs-after-use:{k}"] = "after the same usage: " + "; ".join(d[:3])
    elif isinstance(a, dict) and isinstance(b, dict):
        if strip_durations:
            a, b = _strip_durations(a), _strip_durations(b)
        for k in sorted(set(a) | set(b), key=str):
            x, y = a.get(k), b.get(k)
            d = OBS.diff_views(x, y) if isinstance(x, dict) and isinstance(y, dict) else ([] if x == y else [f"original={OBS.show(x)} copy={OBS.show(y)}"])
            if d:
                out[f"behaviour-differs:{k}"] = f"{k}: " + "; ".join(d[:3])
    elif a != b:
        out["behaviour-differs"] = f"original={OBS.show(a)} copy={OBS.show(b)}"
    return out


def ad_exact_failures(item, plan_inputs_points, exact, who: str) -> list[tuple[str, str]]:
    """The exact stream: outputs and Jacobian entries against the polynomial evaluated with fractions."""
    bad = []
    for p, rec in zip(item["points"], exact):
        pt = {s: Fraction(v) for s, v in p.items()}
        for o, monos in item["exprs"]:
            want = ad_eval(monos, pt)
            got = rec["out"].get(o)
            if not (got is not None and Fraction(got) == want):
                bad.append(("execute-wrong", f"{who}: {o} = {ad_expr_string(monos)} at {p}: expected {want}, observed {got if got is not None else rec['out']}"))
            for n in ad_symbols(monos):
                wantj = ad_eval(ad_diff(monos, n), pt)
                gotj = (rec["jac"].get(o) or {}).get(n) if "exc" not in rec["jac"] else None
                if not (gotj is not None and Fraction(gotj) == wantj):
                    bad.append(("linearize-wrong", f"{who}: d{o}/d{n} of {ad_expr_string(monos)} at {p}: expected {wantj}, observed {gotj if gotj is not None else rec['jac']}"))
    return bad


def run_job(job: dict[str, Any], tmp: Path):
    """Run the writer and the readers; returns an Outcome whose info["items"] holds one record per item:
    {"status", "failures": [(kind, what, reader seed)], "ad": {...}}."""
    from harness import c20_observe as OBS
    from harness.c20_diff import Outcome

    out = Outcome()
    d = Path(tempfile.mkdtemp(prefix="xp-", dir=str(tmp)))
    try:
        (d / "job.json").write_text(json.dumps(job))
        rc, err = _child(["writer", str(d)], int(job["wseed"]))
        if rc != 0 or not (d / "expected.pkl").exists():
            out.status = "skipped"
            out.detail = f"writer interpreter failed (exit {rc}): {err}"
            return out
        with (d / "expected.pkl").open("rb") as f:
            exp = pickle.load(f)
        observed = {}
        for r in job["rseeds"]:
            if job.get("via") == "file":
                rc, err = _child(["reader", str(d), str(r)], int(r))
                if rc != 0:
                    out.info.setdefault("reader_failures", []).append(f"reader {r}: exit {rc}: {err}")
            p = d / f"obs_{r}.pkl"
            if p.exists():
                with p.open("rb") as f:
                    observed[r] = pickle.load(f)
        if not observed:
            out.status = "skipped"
            out.detail = "no reader interpreter answered: " + "; ".join(out.info.get("reader_failures", []))[:400]
            return out
        items_out = []
        pending: dict[Any, set[int]] = {}
        for i, item in enumerate(job["items"]):
            plan = exp["plans"][i]
            w = exp["records"][i]
            rec: dict[str, Any] = {"status": plan.get("status", "ok"), "failures": [], "subject": subject(item, plan), "detail": plan.get("detail", ""), "edits_done": plan.get("edits_done")}
            items_out.append(rec)
            if "serialize_error" in w:
                rec["status"] = "ok"
                rec["failures"].append(("serialize-raises", w["serialize_error"], None))
                continue
            if plan.get("status") != "ok":
                continue
            if "error" in w:
                rec["status"] = "skipped"
                rec["detail"] = "the original could not answer: " + w["error"]
                continue
            dd = OBS.diff_views(w["view"], w["view_after_dumps"]) if item["kind"] not in ("scenario",) else []
            if dd:
                rec["failures"].append(("original-altered", "serializing altered the original: " + "; ".join(dd[:3]), None))
            if item["kind"] == "ad":
                rec["ad"] = {"wenv": w["behaviour"]["env"], "exact_w": w["behaviour"]["exact"], "readers": {}}
                for k, wh in ad_exact_failures(item, None, w["behaviour"]["exact"], "original"):
                    rec["failures"].append((k, wh, None))
            for r, ob in observed.items():
                o = ob["records"][i]
                if o is None:
                    continue
                tagp = f"[restored by another interpreter: PYTHONHASHSEED {job['wseed']} -> {r}, via {job.get('via')}] "
                if "error" in o:
                    rec["failures"].append((o["error"][0], tagp + o["error"][1], r))
                    continue
                for k, wh in differences(OBS, w, o).items():
                    rec["failures"].append((k, tagp + wh, r))
                    pending.setdefault(r, set()).add(i)
                if "second_error" in o:
                    rec["failures"].append(("second-generation-raises", tagp + o["second_error"], r))
                elif "second" in o:
                    dd = OBS.diff_views(*o["second"])
                    if dd:
                        rec["failures"].append(("second-generation-differs", tagp + "; ".join(dd[:3]), r))
                if item["kind"] == "ad":
                    rec["ad"]["readers"][str(r)] = {"renv": o["behaviour"]["env"], "exact": o["behaviour"]["exact"]}
                    for k, wh in ad_exact_failures(item, None, o["behaviour"]["exact"], "copy"):
                        rec["failures"].append((k, tagp + wh, r))
        # A difference between the copy (reader) and the original (writer) is attributed to the serialization
        # only if a *twin* - the same item built and used by the reader's interpreter, never serialized - does not
        # differ from the writer's original in the same respect: some classes behave differently under another
        # hash seed by themselves (the order in which an MDA differentiates its inputs comes from a set: the state
        # left by a finite-difference linearization depends on it), which is not what this property is about.
        for r, idx in pending.items():
            (d / f"twin_{r}.json").write_text(json.dumps(sorted(idx)))
            rc, err = _child(["twin", str(d), str(r)], int(r))
            tp = d / f"twin_{r}.pkl"
            if rc != 0 or not tp.exists():
                out.info.setdefault("reader_failures", []).append(f"twin {r}: exit {rc}: {err}")
                continue
            with tp.open("rb") as f:
                twins = pickle.load(f)
            for i in sorted(idx):
                t = twins.get(i)
                o = observed[r]["records"][i]
                rec = items_out[i]
                if not t or "error" in t:
                    continue
                # in which respects does this class depend on the interpreter *without* any serialization?
                # (the twin of the reader against the original of the writer; e.g. the residual history of an
                #  MDA: the copy carries the writer's history and continues it in the reader's order)
                w = exp["records"][i]
                by_itself = differences(OBS, w, t, strip_durations=True)
                kept = []
                for k, wh, rr in rec["failures"]:
                    if rr == r and (k.startswith(("view-differs", "execute-differs", "linearize-differs", "behaviour-differs"))) and k in by_itself:
                        rec.setdefault("interpreter_dependent", []).append(k)
                        continue
                    kept.append((k, wh, rr))
                rec["failures"] = kept
        out.info["items"] = items_out
        out.info["via"] = job.get("via")
        for rec in items_out:
            for k, wh, _ in rec["failures"]:
                out.fail(f"{rec['subject']}:{k}", wh)
        return out
    finally:
        shutil.rmtree(d, ignore_errors=True)


if __name__ == "__main__":
    if len(sys.argv) >= 3 and sys.argv[1] == "writer":
        writer_main(Path(sys.argv[2]))
    elif len(sys.argv) >= 4 and sys.argv[1] == "reader":
        reader_main(Path(sys.argv[2]), sys.argv[3])
    elif len(sys.argv) >= 4 and sys.argv[1] == "twin":
        twin_main(Path(sys.argv[2]), sys.argv[3])
    else:
        sys.exit("usage: python -m harness.c20_xproc writer <dir> | reader <dir> <seed>")
