"""C19 — stream B: parameter spaces (mixed random/deterministic variables, sizes 1-3, both libraries).

A case is a history of edits (`addv`, `addr`, `rm`, `mv`) interleaved with queries (`q`).  The same
history is run on a real `ParameterSpace`, on the Lean model (Driver/C19.lean; the marginals' CDF /
inverse-CDF / support / mean values fed to the model come from *stand-alone* distribution objects
built by the harness, never from the parameter space under test) and on an independent shadow
written from the API documentation, which carries the reference law of every component (oracle).
"""

from __future__ import annotations

import math
import re
from fractions import Fraction
from typing import Any

import numpy as np

from harness import c19_dist as D
from harness import c19_specs as S
from harness import common
from harness.common import F
from harness.common import rat

Fr = Fraction
B30 = D.B30
B40 = Fraction(1, 2**40)
NAMES = ["x", "y", "z", "u", "ab", "x_1", "xy", "w", "v2"]
OUT_MODES = ("none", "new", "alias")
OUT_MODES_WEIGHTED = ["none", "none", "new", "new", "alias", "alias", "alias"]

# --------------------------------------------------------------------------- stand-alone marginals

_CACHE: dict[str, Any] = {}


def standalone(spec):
    k = S.lean_key(spec)
    if k not in _CACHE:
        _CACHE[k] = S.build(spec)
    return _CACHE[k]


def onum(x) -> str:
    x = float(x)
    if math.isinf(x):
        return "_"
    if math.isnan(x):
        return "nan"
    return rat(x)


def flist(a) -> str:
    a = np.atleast_1d(np.asarray(a, dtype=float))
    return ",".join(onum(c) for c in a) if a.size else "[]"


def env_line(spec) -> str:
    d = standalone(spec)
    sup = d.support
    return f"env {S.lean_key(spec)} {onum(sup[0])} {onum(sup[1])} {onum(d.mean)}"


# --------------------------------------------------------------------------- shadow (oracle side)


class SVar:
    def __init__(self, name, rnd, is_int, lb, ub, val, specs=None):
        self.name, self.rnd, self.is_int = name, rnd, is_int
        self.lb, self.ub, self.val = list(lb), list(ub), (None if val is None else list(val))
        self.specs = specs or []
        self.laws = [S.law_of(s) for s in self.specs]

    @property
    def size(self):
        return len(self.lb)


def comp_specs(op) -> list[dict]:
    """Documented semantics of `add_random_vector`: a one-element list holds for every component,
    otherwise one value per component; size 0 = the longest list."""
    params = op["params"]
    size = op["size"] or max([len(v) for _, v in params] or [1])
    out = []
    for i in range(size):
        out.append({"cls": op["cls"], "params": [[k, (v[0] if len(v) == 1 else v[i])] for k, v in params]})
    return out


class Shadow:
    def __init__(self):
        self.vars: list[SVar] = []

    def names(self):
        return [v.name for v in self.vars]

    def get(self, n):
        return next((v for v in self.vars if v.name == n), None)

    def unc(self):
        return [v.name for v in self.vars if v.rnd]

    def dim(self):
        return sum(v.size for v in self.vars)

    def apply(self, op) -> bool:
        """Apply an edit; False when the edit is not applicable (then it is skipped everywhere)."""
        kind = op["op"]
        if kind == "addv":
            if self.get(op["name"]):
                return False
            lb = [None if c == "_" else Fr(c) for c in op["lb"]]
            ub = [None if c == "_" else Fr(c) for c in op["ub"]]
            val = None if op["val"] is None else [Fr(c) for c in op["val"]]
            self.vars.append(SVar(op["name"], False, op["int"], lb, ub, val))
            return True
        if kind == "addr":
            if self.get(op["name"]):
                return False
            specs = comp_specs(op)
            laws = [S.law_of(s) for s in specs]
            v = SVar(op["name"], True, False, [l.lb for l in laws], [l.ub for l in laws], [l.mean for l in laws], specs)
            self.vars.append(v)
            return True
        if kind == "rm":
            v = self.get(op["name"])
            if not v:
                return False
            self.vars.remove(v)
            return True
        if kind == "mv":
            v = self.get(op["name"])
            if not v or self.get(op["new"]) or op["new"] == op["name"]:
                return False
            v.name = op["new"]
            return True
        return True


# --------------------------------------------------------------------------- generation


def gen_addv(rng, name) -> dict:
    size = rng.pick([1, 1, 2, 3])
    is_int = rng.chance(0.2)
    lb, ub, val = [], [], []
    for _ in range(size):
        if is_int:
            l = rng.randint(-3, 2)
            u = l + rng.pick([1, 2, 4])
            lo, hi = (None if rng.chance(0.15) else Fr(l)), (None if rng.chance(0.15) else Fr(u))
            v = Fr(rng.randint(l, u))
        else:
            l = rng.dyadic(-4, 4, 2)
            u = l + rng.pick([Fr(1, 4), Fr(1, 2), Fr(1), Fr(2), Fr(4), Fr(3), Fr(5)])
            lo, hi = (None if rng.chance(0.12) else l), (None if rng.chance(0.12) else u)
            v = l + (u - l) * rng.pick([Fr(0), Fr(1, 4), Fr(1, 2), Fr(1)])
        lb.append("_" if lo is None else rat(lo))
        ub.append("_" if hi is None else rat(hi))
        val.append(rat(v))
    return {"op": "addv", "name": name, "int": is_int, "lb": lb, "ub": ub, "val": val if rng.chance(0.8) else None}


def gen_addr(rng, name, lib) -> dict:
    """A random vector of size 1-3 whose components follow laws of one family with possibly
    different parameters (lists of length 1 = shared, of length size = per component)."""
    size = rng.pick([1, 1, 2, 2, 3])
    via = rng.pick(["vector", "vector", "variable"])
    base = S.gen_spec(rng, lib, options=True, numeric_only=True)
    cls = base["cls"]
    fam = S.family_of(base)
    keys = [k for k, _ in base["params"]]
    if via == "variable":
        return {"op": "addr", "name": name, "via": via, "size": size, "cls": cls, "params": [[k, [v]] for k, v in base["params"]]}
    opt_keys = [k for k in keys if k in ("lower_bound", "upper_bound")]
    comps = [base]
    tries = 0
    while len(comps) < size and tries < 50 and not opt_keys:
        tries += 1
        if fam.startswith("Generic:"):
            cand = {"cls": cls, "params": S.gen_generic_params(rng, lib, fam.split(":", 1)[1])}
        else:
            cand = {"cls": cls, "params": S.gen_family_params(rng, fam, with_defaults=False)}
        cp = dict((k, v) for k, v in cand["params"])
        if not all(k in cp for k in keys):
            continue
        # keep the keyword set of the base (the other arguments take their documented defaults)
        cand["params"] = [[k, cp[k]] for k in keys]
        if not fam.startswith("Generic:") and not S.admissible(fam, cand["params"]):
            continue
        comps.append(cand)
    if len(comps) < size:
        # truncation bounds were computed for the base law only (or no admissible variant was drawn):
        # every component follows the base law
        comps = [base] * size
    params = []
    for k in keys:
        vals = [dict((a, b) for a, b in c["params"])[k] for c in comps]
        if all(v == vals[0] for v in vals) and rng.chance(0.7):
            vals = [vals[0]]
        params.append([k, vals])
    declared = size if rng.chance(0.5) or all(len(v) == 1 for _, v in params) else 0
    return {"op": "addr", "name": name, "via": via, "size": declared, "cls": cls, "params": params}


def gen_case(rng: common.Rng, thorough: bool = False) -> dict:
    lib = rng.pick(["SP", "OT"])
    sh = Shadow()
    ops: list[dict] = []
    n_ops = rng.randint(3, 9)
    free = list(NAMES)
    rng.shuffle(free)
    for _ in range(n_ops):
        r = rng.random()
        if (r < 0.35 or not sh.vars) and free:
            op = gen_addr(rng, free.pop(), lib)
        elif r < 0.6 and free:
            op = gen_addv(rng, free.pop())
        elif r < 0.72 and sh.vars:
            op = {"op": "rm", "name": rng.pick(sh.names())}
        elif r < 0.85 and sh.vars and free:
            op = {"op": "mv", "name": rng.pick(sh.names()), "new": free.pop()}
        else:
            op = gen_query(rng)
        if sh.apply(op):
            ops.append(op)
            if op["op"] != "q" and rng.chance(0.45):
                ops.append(gen_query(rng))
    for _ in range(rng.randint(2, 4)):
        ops.append(gen_query(rng))
    return {"lib": lib, "ops": ops}


def gen_query(rng) -> dict:
    kind = rng.pick(["nrm", "nrm", "unr", "unr", "rt", "rt", "ecdf", "samples", "exu", "exd", "tods"])
    q = {"op": "q", "kind": kind, "seed": rng.randint(0, 10**9)}
    if kind in ("nrm", "unr", "rt"):
        q["minus_lb"] = rng.chance(0.7)
        q["use_dist"] = rng.chance(0.7)
        q["rows"] = rng.pick([0, 0, 1, 2, 3])  # 0 = 1-D input
        q["api"] = rng.pick(["normalize", "transform"]) if (q["use_dist"] and q["minus_lb"]) else "normalize"
        # the `out` argument: absent, a distinct buffer, or the input array itself (in-place call)
        q["out"] = rng.pick(OUT_MODES_WEIGHTED)
    if kind == "ecdf":
        q["inverse"] = rng.chance(0.5)
    if kind == "samples":
        q["n"] = rng.pick([1, 2, 64])
    return q


# --------------------------------------------------------------------------- query realisation


def _x_for(rng, v: SVar, i: int, normalized: bool, use_dist: bool):
    """One component of a query input: a physical value (normalized False) or a unit value."""
    if v.rnd:
        law = v.laws[i]
        if normalized and use_dist:
            return float(Fr(rng.randint(1, 63), 64))
        bounded = law.lb is not None and law.ub is not None
        if normalized and bounded:
            return float(Fr(rng.randint(0, 16), 16))
        return float(law.icdf(float(Fr(rng.randint(2, 62), 64))))
    lb, ub = v.lb[i], v.ub[i]
    if v.is_int:
        lo = int(lb) if lb is not None else (int(ub) - 4 if ub is not None else -3)
        hi = int(ub) if ub is not None else lo + 4
        return float(rng.randint(lo, hi))
    if lb is not None and ub is not None:
        t = Fr(rng.randint(0, 16), 16)
        return float(t) if normalized else float(lb + (ub - lb) * t)
    base = lb if lb is not None else (ub - 4 if ub is not None else Fr(-2))
    return float(base + Fr(rng.randint(0, 16), 4))


def make_vector(sh: Shadow, seed: int, normalized: bool, use_dist: bool) -> list[float]:
    rng = common.make_rng(seed, "q")
    return [_x_for(rng, v, i, normalized, use_dist) for v in sh.vars for i in range(v.size)]


def table_entries(sh: Shadow, vec: list[float], inverse: bool) -> list[str] | None:
    """Table entries (stand-alone marginals) for the uncertain components of a vector."""
    out = []
    k = 0
    for v in sh.vars:
        for i in range(v.size):
            if v.rnd:
                d = standalone(v.specs[i])
                y = d.compute_inverse_cdf(vec[k]) if inverse else d.compute_cdf(vec[k])
                if not D.fin(y):
                    return None
                out.append(f"{S.lean_key(v.specs[i])}@{'i' if inverse else 'c'}@{rat(vec[k])}@{rat(float(y))}")
            k += 1
    return out


def expected_map(sh: Shadow, vec: list[float], direction: str, minus_lb: bool, use_dist: bool):
    """Oracle: per component (kind, expected value) from the documented semantics.

    kind 'exact' (deterministic affine map, exact Fraction) or 'law' (reference CDF / inverse CDF).
    """
    out = []
    k = 0
    for v in sh.vars:
        for i in range(v.size):
            x = F(vec[k])
            k += 1
            lb, ub = (v.lb[i], v.ub[i])
            if v.rnd and use_dist:
                law = v.laws[i]
                val = law.cdf(float(x)) if direction == "nrm" else law.icdf(float(x))
                out.append(("law", val, max(1.0, law.std)))
                continue
            if v.rnd:
                lbf = None if lb is None else Fr(lb) if isinstance(lb, (Fraction, int)) else F(float(lb))
                ubf = None if ub is None else Fr(ub) if isinstance(ub, (Fraction, int)) else F(float(ub))
                derived = getattr(v.laws[i], "derived", False)
                if derived:
                    out.append(("skip", None, 1.0))  # bounds of truncated laws are library-reported
                    continue
                lb, ub = lbf, ubf
            normalisable = lb is not None and ub is not None and not v.is_int
            if not normalisable:
                val = x
                if v.is_int and direction == "unr" and minus_lb:
                    val = Fr(round(x))
                out.append(("exact", val, 1.0))
            elif direction == "nrm":
                out.append(("exact", ((x - lb) if minus_lb else x) / (ub - lb) if ub != lb else None, 1.0))
            else:
                out.append(("exact", x * (ub - lb) + (lb if minus_lb else 0), 1.0))
    return out


# --------------------------------------------------------------------------- implementation side


def impl_view(ps, with_dist: bool = True) -> str:
    names = list(ps.variable_names)
    sizes = [ps.variable_sizes[n] for n in names]
    types = ["i" if str(ps.variable_types[n]) == "integer" else "f" for n in names]
    lb = flist(ps.get_lower_bounds()) if names else "[]"
    ub = flist(ps.get_upper_bounds()) if names else "[]"
    cur_d = ps.get_current_value(as_dict=True) if names else {}
    cur = ";".join(f"{n}=" + ("_" if cur_d.get(n) is None else flist(cur_d[n])) for n in names) or "[]"
    s = (
        f"names={','.join(names) or '[]'} sizes={','.join(map(str, sizes)) or '[]'} types={','.join(types) or '[]'} "
        f"lb={lb} ub={ub} cur={cur}"
    )
    if not with_dist:
        return s

    def m(d):
        return f"{onum(d.support[0])}:{onum(d.support[1])}:{onum(d.mean)}"

    unc = list(ps.uncertain_variables)
    marg = ";".join(n + "=" + ",".join(m(d) for d in ps.distributions[n].marginals) for n in unc) or "[]"
    joint = ",".join(m(d) for d in ps.distribution.marginals) if ps.distribution is not None else "[]"
    return s + f" unc={','.join(unc) or '[]'} det={','.join(ps.deterministic_variables) or '[]'} marg={marg} joint={joint or '[]'}"


def to_np_bound(b, lower):
    return np.array([(-math.inf if lower else math.inf) if c == "_" else float(Fr(c)) for c in b])


def impl_edit(ps, op) -> str:
    from gemseo.algos.design_space import DesignSpace

    kind = op["op"]
    try:
        if kind == "addv":
            ps.add_variable(
                op["name"],
                size=len(op["lb"]),
                type_=DesignSpace.DesignVariableType.INTEGER if op["int"] else DesignSpace.DesignVariableType.FLOAT,
                lower_bound=to_np_bound(op["lb"], True),
                upper_bound=to_np_bound(op["ub"], False),
                value=None if op["val"] is None else np.array([float(Fr(c)) for c in op["val"]]),
            )
        elif kind == "addr":
            cls = op["cls"]
            kwargs: dict[str, Any] = {}
            pos: dict[int, Any] = {}
            named: dict[str, Any] = {}
            scalar = op["via"] == "variable"
            for k, vals in op["params"]:
                pv = [S.pval(v) for v in vals]
                pv = [v if isinstance(v, (bool, str)) else float(v) for v in pv]
                val = pv[0] if scalar else pv
                if k.startswith("#"):
                    pos[int(k[1:])] = val
                elif k.startswith("$"):
                    named[k[1:]] = val
                else:
                    kwargs[k] = val
            if "/" in cls:
                cls, interfaced = cls.split("/", 1)
                kwargs["interfaced_distribution"] = interfaced
                if pos:
                    kwargs["interfaced_distribution_parameters"] = tuple(pos[i] for i in sorted(pos))
                elif named:
                    kwargs["interfaced_distribution_parameters"] = named
            if scalar:
                ps.add_random_variable(op["name"], cls, op["size"], **kwargs)
            else:
                ps.add_random_vector(op["name"], cls, op["size"], **kwargs)
        elif kind == "rm":
            ps.remove_variable(op["name"])
        elif kind == "mv":
            ps.rename_variable(op["name"], op["new"])
        return "ok"
    except Exception as e:  # noqa: BLE001
        return "E:" + type(e).__name__


def edit_line(op) -> str:
    kind = op["op"]
    if kind == "addv":
        val = "_" if op["val"] is None else ",".join(op["val"])
        return f"addv {op['name']}:{'i' if op['int'] else 'f'}:{','.join(op['lb'])}:{','.join(op['ub'])}:{val}"
    if kind == "addr":
        ps = []
        for k, vals in op["params"]:
            vs = []
            for v in vals:
                v = S.pval(v)
                vs.append(rat(Fr(int(v)) if isinstance(v, bool) else v))
            ps.append(f"{k}={','.join(vs)}")
        return f"addr {op['name']} {op['cls']} {op['cls'][:2]} {op['size']} " + " ".join(ps)
    if kind == "rm":
        return f"rm {op['name']}"
    return f"mv {op['name']} {op['new']}"


NUM = re.compile(r"-?\d+(?:/\d+)?")


def same_answer(a: str, b: str, bound: Fraction = B40) -> bool:
    """Equal up to `bound` (relative to max(1,|.|)) on every number, identical elsewhere."""
    if a == b:
        return True
    ta, tb = NUM.split(a), NUM.split(b)
    if ta != tb:
        return False
    na, nb = NUM.findall(a), NUM.findall(b)
    if len(na) != len(nb):
        return False
    for x, y in zip(na, nb):
        if x == y:
            continue
        fx, fy = Fraction(x), Fraction(y)
        if not abs(fx - fy) <= bound * max(Fraction(1), abs(fy)):
            return False
    return True
