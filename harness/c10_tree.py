"""C10 helper module: expression trees over MDOFunctions.

Three independent things live here, each working on the same JSON-able tree description:

* ``Oracle``  - exact dual-number arithmetic over ``fractions.Fraction`` written from the
  mathematical definitions (value + exact derivative of every node), together with a running
  *majorant* (the same expression evaluated with absolute values) that scales the rounding
  bound of the rounded stream, and a bound on the denominators that tells when the float
  computation of the real code has to be bit-exact.
* ``Impl``    - builds the real GEMSEO objects (MDOFunction, MDOLinearFunction,
  MDOQuadraticFunction, FunctionRestriction, LinearCompositeFunction, Concatenate, Taylor
  polynomials, ConvexLinearApprox, aggregation functions) from the tree, with guarded leaves
  that detect every in-place modification of an array they handed out.
* ``protocol_line`` - the prefix encoding read by ``lean/Driver/C10.lean``.

Tree nodes (dicts; all numbers are strings ``p/q``):
  {"op":"poly","style":"s"|"a","polys":[[[c,[e0,..]],..],..]}      leaf, user function
  {"op":"poly","style":"w","view":"self"|[start,stop,step],"polys":..} leaf, user function returning its input array
                                                                     itself / the view x[start:stop:step] of it
                                                                     (polys = the selected coordinates: same mathematics)
  any function node may carry "share": key - all the nodes of a tree with the same key have the same description
  and are ONE function object in the implementation (built once, used at every occurrence); the oracle, the
  protocol line and the model see a plain tree: using one object several times is not observable
  {"op":"lin","A":[[..]],"b":[..]}                                   MDOLinearFunction
  {"op":"quad","Q":[[..]],"b":[..]|None,"c":c}                       MDOQuadraticFunction
  {"op":"add|sub|mul|div","a":node,"b":node|{"op":"num","v":c}|{"op":"arr","v":[..]}}
  {"op":"neg","a":node}   {"op":"offn","a":node,"v":c}   {"op":"offa","a":node,"v":[..]}
  {"op":"res","a":node,"N":N,"frozen":[i..],"values":[..]}           FunctionRestriction
  {"op":"lres","a":linear node,"frozen":[..],"values":[..]}          MDOLinearFunction.restrict
  {"op":"lc","a":node,"A":[[..]]}                                    LinearCompositeFunction
  {"op":"cat","args":[node..]}                                       Concatenate
  {"op":"nrm","a":linear node,"lb":[..],"ub":[..],"mask":[0/1..]}    MDOLinearFunction.normalize
  {"op":"t1","a":node,"at":[..]}                                     compute_linear_approximation
  {"op":"t2","a":node,"at":[..],"H":[[..]]}                          compute_quadratic_approximation
  {"op":"cl","a":node,"at":[..],"mask":[0/1..]|None}                 ConvexLinearApprox
  {"op":"agg","kind":K,"a":node,"idx":[..]|None,"scale":c|[..],"rho":c}   aggregate_*
"""

from __future__ import annotations

import math
from fractions import Fraction
from typing import Any

import numpy as np

from harness.common import F
from harness.common import rat

ZERO = Fraction(0)
ONE = Fraction(1)
INF_BITS = 10**9

BINOPS = ("add", "sub", "mul", "div")
EXACT_AGG = ("sumsq", "possumsq", "max")
SMOOTH_AGG = ("uks", "lks", "iks")
SIGN_THRESHOLD = Fraction(1, 10**9)  # default `sign_threshold` of ConvexLinearApprox


class Undefined(Exception):
    """The mathematical combination is not defined/differentiable at this point (out of scope)."""


class IllShaped(Exception):
    """The tree is not well-shaped (out of the property's quantifier)."""


# --------------------------------------------------------------------------- exact numbers with majorants


def _den_bits(fr: Fraction) -> int:
    d = fr.denominator
    if d & (d - 1):
        return INF_BITS
    return d.bit_length() - 1


class Q:
    """Exact value ``v`` + majorant ``m`` (|partial results| <= m) + denominator-bit bound ``d``."""

    __slots__ = ("v", "m", "d")

    def __init__(self, v: Fraction, m: Fraction | None = None, d: int | None = None):
        self.v = v
        self.m = abs(v) if m is None else m
        self.d = _den_bits(v) if d is None else d

    def __add__(self, o: "Q") -> "Q":
        if isinstance(o, SQ):
            return SQ(_sym(self) + o.v)
        return Q(self.v + o.v, self.m + o.m, max(self.d, o.d))

    def __sub__(self, o: "Q") -> "Q":
        if isinstance(o, SQ):
            return SQ(_sym(self) - o.v)
        return Q(self.v - o.v, self.m + o.m, max(self.d, o.d))

    def __mul__(self, o: "Q") -> "Q":
        if isinstance(o, SQ):
            return SQ(_sym(self) * o.v)
        return Q(self.v * o.v, self.m * o.m, min(INF_BITS, self.d + o.d))

    def __neg__(self) -> "Q":
        return Q(-self.v, self.m, self.d)

    def __truediv__(self, o: "Q") -> "Q":
        if isinstance(o, SQ):
            return SQ(_sym(self) / o.v)
        if o.v == 0:
            raise Undefined("division by zero")
        b = abs(o.v)
        m = self.m / b + abs(self.v) * o.m / (b * b)
        # a division is exact in floating point when the divisor is a power of two
        nn, dd = abs(o.v.numerator), o.v.denominator
        if (nn & (nn - 1)) == 0 and (dd & (dd - 1)) == 0:
            d = min(INF_BITS, self.d + nn.bit_length() - 1)
        else:
            d = INF_BITS
        return Q(self.v / o.v, m, d)

    def exact_expected(self) -> bool:
        """Every partial result of the float computation is exactly representable."""
        return self.d < INF_BITS and self.m * (1 << self.d) < (1 << 52)


def _sym(q):
    """Exact sympy value of a Q / SQ."""
    import sympy

    return q.v if isinstance(q, SQ) else sympy.Rational(q.v.numerator, q.v.denominator)


class SQ:
    """Symbolic twin of Q (sympy expression in the input symbols): the symbolic stream evaluates the
    oracle once for all points."""

    __slots__ = ("v", "m", "d")

    def __init__(self, v) -> None:
        self.v = v
        self.m = ZERO
        self.d = 0

    def __add__(self, o):
        return SQ(self.v + _sym(o))

    def __sub__(self, o):
        return SQ(self.v - _sym(o))

    def __mul__(self, o):
        return SQ(self.v * _sym(o))

    def __truediv__(self, o):
        return SQ(self.v / _sym(o))

    def __neg__(self):
        return SQ(-self.v)


def qc(x: Any) -> Q:
    return Q(Fraction(x))


QZ = Q(ZERO)


class Dual:
    """One output component: value and gradient (list of Q of the input dimension)."""

    __slots__ = ("v", "g")

    def __init__(self, v: Q, g: list[Q]):
        self.v = v
        self.g = g


def d_const(c: Q, n: int) -> Dual:
    return Dual(c, [QZ] * n)


def d_add(a: Dual, b: Dual) -> Dual:
    return Dual(a.v + b.v, [x + y for x, y in zip(a.g, b.g)])


def d_sub(a: Dual, b: Dual) -> Dual:
    return Dual(a.v - b.v, [x - y for x, y in zip(a.g, b.g)])


def d_mul(a: Dual, b: Dual) -> Dual:
    # (fg)' = f'g + fg'
    return Dual(a.v * b.v, [x * b.v + a.v * y for x, y in zip(a.g, b.g)])


def d_div(a: Dual, b: Dual) -> Dual:
    # (f/g)' = (f'g - fg')/g^2
    den = b.v * b.v
    return Dual(a.v / b.v, [(x * b.v - a.v * y) / den for x, y in zip(a.g, b.g)])


def d_neg(a: Dual) -> Dual:
    return Dual(-a.v, [-x for x in a.g])


def d_scale(c: Q, a: Dual) -> Dual:
    return Dual(c * a.v, [c * x for x in a.g])


def qsum(xs) -> Q:
    tot = QZ
    for x in xs:
        tot = tot + x
    return tot


def fr(s: Any) -> Fraction:
    return Fraction(s)


def frl(l) -> list[Fraction]:
    return [Fraction(t) for t in l]


def frm(rows) -> list[list[Fraction]]:
    return [frl(r) for r in rows]


# --------------------------------------------------------------------------- shapes


def view_indices(n: int, view) -> list[int]:
    if view is None:
        raise IllShaped("view leaf without a view")
    return list(range(n)) if view == "self" else list(range(n))[slice(*view)]


def view_polys(n: int, view) -> list:
    """The polynomials of the user function x -> x (view "self") / x -> x[start:stop:step]."""
    return [[["1", [int(j == i) for j in range(n)]]] for i in view_indices(n, view)]


def out_dim(node: dict, n: int) -> int:
    """Output dimension of a node whose input dimension is n (raises IllShaped)."""
    op = node["op"]
    if op == "poly":
        for p in node["polys"]:
            for _, e in p:
                if len(e) != n:
                    raise IllShaped("poly arity")
        if node.get("style") == "w" and node["polys"] != view_polys(n, node.get("view")):
            raise IllShaped("the polynomials of a view leaf are the coordinates its view selects")
        return len(node["polys"])
    if op == "lin":
        if any(len(r) != n for r in node["A"]) or len(node["b"]) != len(node["A"]):
            raise IllShaped("lin shape")
        return len(node["A"])
    if op == "quad":
        if len(node["Q"]) != n or any(len(r) != n for r in node["Q"]):
            raise IllShaped("quad shape")
        if node["b"] is not None and len(node["b"]) != n:
            raise IllShaped("quad shape")
        return 1
    if op == "num":
        return 1
    if op == "arr":
        return len(node["v"])
    if op in BINOPS:
        a, b = out_dim(node["a"], n), out_dim(node["b"], n)
        if a != b and 1 not in (a, b):
            raise IllShaped("operands do not broadcast")
        return max(a, b)
    if op == "neg":
        return out_dim(node["a"], n)
    if op == "offn":
        return out_dim(node["a"], n)
    if op == "offa":
        a = out_dim(node["a"], n)
        if len(node["v"]) not in (a, 1) and a != 1:
            raise IllShaped("offset shape")
        return max(a, len(node["v"]))
    if op == "res":
        if node["N"] != n + len(node["frozen"]) or len(set(node["frozen"])) != len(node["frozen"]):
            raise IllShaped("restriction")
        if len(node["values"]) != len(node["frozen"]) or any(not 0 <= i < node["N"] for i in node["frozen"]):
            raise IllShaped("restriction")
        return out_dim(node["a"], node["N"])
    if op == "lres":
        k = len(node["frozen"])
        if len(node["values"]) != k or len(set(node["frozen"])) != k:
            raise IllShaped("restriction")
        return out_dim(node["a"], n + k)
    if op == "lc":
        if any(len(r) != n for r in node["A"]):
            raise IllShaped("lc shape")
        return out_dim(node["a"], len(node["A"]))
    if op == "cat":
        return sum(out_dim(a, n) for a in node["args"])
    if op == "nrm":
        if not (len(node["lb"]) == len(node["ub"]) == len(node["mask"]) == n):
            raise IllShaped("normalize")
        return out_dim(node["a"], n)
    if op in ("t1", "cl"):
        if len(node["at"]) != n or (op == "cl" and node["mask"] is not None and len(node["mask"]) != n):
            raise IllShaped("expansion point")
        return out_dim(node["a"], n)
    if op == "t2":
        if len(node["at"]) != n or len(node["H"]) != n or any(len(r) != n for r in node["H"]):
            raise IllShaped("t2")
        if out_dim(node["a"], n) != 1:
            raise IllShaped("t2 needs a scalar function")
        return 1
    if op == "agg":
        m = out_dim(node["a"], n)
        idx = node["idx"]
        if idx is not None and (not idx or any(not 0 <= i < m for i in idx) or len(set(idx)) != len(idx)):
            raise IllShaped("agg indices")
        k = m if idx is None else len(idx)
        if isinstance(node["scale"], list) and len(node["scale"]) != k:
            raise IllShaped("agg scale")
        return 1
    raise IllShaped(f"unknown op {op}")


def is_linear_object(node: dict) -> bool:
    """Whether the real object built for the node is an MDOLinearFunction."""
    op = node["op"]
    if op in ("lin", "t1"):
        return True
    if op in ("neg", "offn", "offa", "lres", "nrm"):
        return is_linear_object(node["a"])
    return False


def children(node: dict) -> list[dict]:
    op = node["op"]
    if op in BINOPS:
        return [node["a"], node["b"]]
    if op == "cat":
        return list(node["args"])
    if "a" in node:
        return [node["a"]]
    return []


def share_classes(tree: dict) -> dict[int, list[int]]:
    """id(node) -> ids of all the nodes of the tree that are the same function object in the implementation
    (nodes with the same "share" key, and the nodes at the same position below them)."""
    parent: dict[int, int] = {}

    def find(a: int) -> int:
        parent.setdefault(a, a)
        while parent[a] != a:
            parent[a] = parent[parent[a]]
            a = parent[a]
        return a

    def par(a: dict, b: dict) -> None:
        ra, rb = find(id(a)), find(id(b))
        if ra != rb:
            parent[ra] = rb
        for ca, cb in zip(children(a), children(b)):
            par(ca, cb)

    firsts: dict[Any, dict] = {}

    def visit(node: dict) -> None:
        find(id(node))
        sk = node.get("share")
        if sk is not None:
            if sk in firsts:
                par(firsts[sk], node)
            else:
                firsts[sk] = node
        for c in children(node):
            visit(c)

    visit(tree)
    classes: dict[int, list[int]] = {}
    for a in list(parent):
        classes.setdefault(find(a), []).append(a)
    return {a: classes[find(a)] for a in parent}


def shared_nodes(tree: dict) -> list[dict]:
    """All the nodes lying in a shared sub-tree (the node carrying the key included)."""
    out: list[dict] = []

    def visit(node: dict, inside: bool) -> None:
        inside = inside or node.get("share") is not None
        if inside:
            out.append(node)
        for c in children(node):
            visit(c, inside)

    visit(tree, False)
    return out


def share_consistent(tree: dict) -> bool:
    """All the nodes with one share key have the same description."""
    import json as _json

    seen: dict[Any, str] = {}

    def visit(node: dict) -> bool:
        sk = node.get("share")
        if sk is not None:
            d = _json.dumps(node, sort_keys=True)
            if seen.setdefault(sk, d) != d:
                return False
        return all(visit(c) for c in children(node))

    return visit(tree)


def tree_ops(node: dict) -> list[str]:
    out = [node["op"] if node["op"] != "agg" else "agg-" + node["kind"]]
    for c in children(node):
        out += tree_ops(c)
    return out


def tree_depth(node: dict) -> int:
    return 1 + max([tree_depth(c) for c in children(node)], default=0)


# --------------------------------------------------------------------------- oracle


class Oracle:
    """Exact evaluation of a tree (value + Jacobian) from the mathematical definitions.

    ``trace`` maps id(node) -> list of (point, [values]) for every evaluation of the node, used to
    check ``last_eval`` of the operands.
    """

    def __init__(self) -> None:
        self.trace: dict[int, list[tuple[tuple[Fraction, ...], list[Fraction]]]] = {}
        self.min_divisor: Fraction | None = None
        self.nondiff = False  # a max with a tie / a cl point on the singular set was met

    # -- leaves
    def _poly(self, node, x: list[Q]) -> list[Dual]:
        n = len(x)
        out = []
        for p in node["polys"]:
            val = QZ
            grad = [QZ] * n
            for c, e in p:
                cq = qc(c)
                term = cq
                for j, ej in enumerate(e):
                    for _ in range(ej):
                        term = term * x[j]
                val = val + term
                for j, ej in enumerate(e):
                    if ej == 0:
                        continue
                    t = cq * qc(ej)
                    for k, ek in enumerate(e):
                        for _ in range(ek - (1 if k == j else 0)):
                            t = t * x[k]
                    grad[j] = grad[j] + t
            out.append(Dual(val, grad))
        return out

    def _lin(self, A, b, x: list[Q]) -> list[Dual]:
        return [Dual(qsum(qc(a) * xj for a, xj in zip(row, x)) + qc(bi), [qc(a) for a in row]) for row, bi in zip(A, b)]

    def _quad(self, node, x: list[Q]) -> list[Dual]:
        Qm = frm(node["Q"])
        n = len(x)
        b = frl(node["b"]) if node["b"] is not None else [ZERO] * n
        val = qc(node["c"])
        for i in range(n):
            val = val + qc(b[i]) * x[i]
            for j in range(n):
                val = val + qc(Qm[i][j]) * x[i] * x[j]
        grad = []
        for i in range(n):
            g = qc(b[i])
            for j in range(n):
                g = g + qc(Qm[i][j] + Qm[j][i]) * x[j]
            grad.append(g)
        return [Dual(val, grad)]

    # -- generic
    def ev(self, node: dict, x: list[Q]) -> list[Dual]:
        res = self._ev(node, x)
        self.trace.setdefault(id(node), []).append((tuple(q.v for q in x), [d.v.v for d in res]))
        return res

    def _bcast(self, a: list[Dual], b: list[Dual]) -> tuple[list[Dual], list[Dual]]:
        if len(a) == len(b):
            return a, b
        if len(a) == 1:
            return a * len(b), b
        if len(b) == 1:
            return a, b * len(a)
        raise IllShaped("operands do not broadcast")

    def _ev(self, node: dict, x: list[Q]) -> list[Dual]:
        op = node["op"]
        n = len(x)
        if op == "poly":
            return self._poly(node, x)
        if op == "lin":
            return self._lin(frm(node["A"]), frl(node["b"]), x)
        if op == "quad":
            return self._quad(node, x)
        if op == "num":
            return [d_const(qc(node["v"]), n)]
        if op == "arr":
            return [d_const(qc(c), n) for c in node["v"]]
        if op in BINOPS:
            a, b = self._bcast(self.ev(node["a"], x), self.ev(node["b"], x))
            if op == "div":
                for d in b:
                    if isinstance(d.v, SQ):
                        continue
                    if self.min_divisor is None or abs(d.v.v) < self.min_divisor:
                        self.min_divisor = abs(d.v.v)
            f = {"add": d_add, "sub": d_sub, "mul": d_mul, "div": d_div}[op]
            return [f(p, q) for p, q in zip(a, b)]
        if op == "neg":
            return [d_neg(d) for d in self.ev(node["a"], x)]
        if op == "offn":
            c = d_const(qc(node["v"]), n)
            return [d_add(d, c) for d in self.ev(node["a"], x)]
        if op == "offa":
            a, b = self._bcast(self.ev(node["a"], x), [d_const(qc(c), n) for c in node["v"]])
            return [d_add(p, q) for p, q in zip(a, b)]
        if op in ("res", "lres"):
            frozen = node["frozen"]
            N = n + len(frozen)
            vals = dict(zip(frozen, frl(node["values"])))
            active = [i for i in range(N) if i not in vals]
            full: list[Q] = [QZ] * N
            for k, i in enumerate(active):
                full[i] = x[k]
            for i, v in vals.items():
                full[i] = qc(v)
            inner = self.ev(node["a"], full)
            return [Dual(d.v, [d.g[i] for i in active]) for d in inner]
        if op == "lc":
            A = frm(node["A"])
            y = [qsum(qc(a) * xj for a, xj in zip(row, x)) for row in A]
            inner = self.ev(node["a"], y)
            # chain rule: J(f o A) = Jf(Ax) . A
            return [Dual(d.v, [qsum(d.g[k] * qc(A[k][j]) for k in range(len(A))) for j in range(n)]) for d in inner]
        if op == "cat":
            out: list[Dual] = []
            for a in node["args"]:
                out += self.ev(a, x)
            return out
        if op == "nrm":
            lb, ub, mask = frl(node["lb"]), frl(node["ub"]), node["mask"]
            fac = [qc(u - l) if k else qc(1) for l, u, k in zip(lb, ub, mask)]
            sh = [qc(l) if k else QZ for l, k in zip(lb, mask)]
            y = [s + f * xi for s, f, xi in zip(sh, fac, x)]
            self.ev(node["a"], sh)  # `normalize` evaluates the function at the shift (value at zero)
            inner = self.ev(node["a"], y)
            return [Dual(d.v, [g * f for g, f in zip(d.g, fac)]) for d in inner]
        if op == "t1":
            at = [qc(c) for c in node["at"]]
            base = self.ev(node["a"], at)
            return [Dual(d.v + qsum(g * (xi - ai) for g, xi, ai in zip(d.g, x, at)), list(d.g)) for d in base]
        if op == "t2":
            at = [qc(c) for c in node["at"]]
            H = frm(node["H"])
            base = self.ev(node["a"], at)[0]
            st = [xi - ai for xi, ai in zip(x, at)]
            val = base.v + qsum(g * s for g, s in zip(base.g, st))
            half = qc(Fraction(1, 2))
            for i in range(n):
                for j in range(n):
                    val = val + half * qc(H[i][j]) * st[i] * st[j]
            grad = [base.g[i] + qsum(half * qc(H[i][j] + H[j][i]) * st[j] for j in range(n)) for i in range(n)]
            return [Dual(val, grad)]
        if op == "cl":
            return self._convex_linear(node, x)
        if op == "agg":
            return self._agg(node, x)
        raise IllShaped(op)

    def _convex_linear(self, node, x: list[Q]) -> list[Dual]:
        """Convex linearisation as documented (tests/core/test_function.py::test_convex_linearization):

        f(x) ~ f(x_hat on the approximated inputs, x elsewhere)
               + sum_{d_i f > 0} d_i f . (x_i - x_hat_i) + sum_{d_i f < 0} (-d_i f . x_hat_i^2) / (x_i - x_hat_i)
        the derivative signs being taken at x_hat (threshold 1e-9).
        """
        n = len(x)
        at = [qc(c) for c in node["at"]]
        mask = node["mask"] if node["mask"] is not None else [1] * n
        base = self.ev(node["a"], at)
        merged = [at[i] if mask[i] else x[i] for i in range(n)]
        inner = self.ev(node["a"], merged)
        out = []
        for d0, d in zip(base, inner):
            val = d.v
            grad = list(d.g)
            for i in range(n):
                if not mask[i]:
                    continue
                c = d0.g[i]
                step = x[i] - at[i]
                if c.v > SIGN_THRESHOLD:
                    val = val + c * step
                    grad[i] = c
                elif -c.v > SIGN_THRESHOLD:
                    if abs(step.v) <= SIGN_THRESHOLD:
                        self.nondiff = True
                        raise Undefined("convex linearisation is singular at x_i = x_hat_i")
                    rc = -c * at[i] * at[i]
                    val = val + rc / step
                    grad[i] = -(rc / (step * step))
                else:
                    if c.v != 0:
                        raise Undefined("derivative below the sign threshold")
                    grad[i] = QZ
            out.append(Dual(val, grad))
        return out

    def _agg(self, node, x: list[Q]) -> list[Dual]:
        inner = self.ev(node["a"], x)
        idx = node["idx"] if node["idx"] is not None else list(range(len(inner)))
        sel = [inner[i] for i in idx]
        sc = node["scale"]
        scl = [qc(c) for c in sc] if isinstance(sc, list) else [qc(sc)] * len(sel)
        kind = node["kind"]
        n = len(x)
        if kind in ("sumsq", "possumsq"):
            tot = d_const(QZ, n)
            for s, d in zip(scl, sel):
                if kind == "possumsq" and d.v.v <= 0:
                    # v^2.H(v) is C^1 with value and derivative 0 for v <= 0 (an exact 0 factor in floats too)
                    continue
                tot = d_add(tot, d_scale(s, d_mul(d, d)))
            return [tot]
        if kind == "max":
            scaled = [d_scale(s, d) for s, d in zip(scl, sel)]
            best = max(range(len(scaled)), key=lambda i: scaled[i].v.v)
            ties = [i for i in range(len(scaled)) if scaled[i].v.v == scaled[best].v.v]
            if len(ties) > 1:
                self.nondiff = True
                raise Undefined("max is not differentiable where the maximiser is not unique")
            return [scaled[best]]
        raise Undefined(f"smooth aggregation {kind} is evaluated by the rounded oracle")


def oracle_eval(node: dict, x: list[Fraction]) -> tuple[list[Q], list[list[Q]] | None, Oracle]:
    o = Oracle()
    res = o.ev(node, [Q(v) for v in x])
    vals = [d.v for d in res]
    if any(d.g is None for d in res):
        return vals, None, o
    return vals, [d.g for d in res], o


# --------------------------------------------------------------------------- smooth aggregations (rounded oracle)


def smooth_agg_reference(kind: str, vals: list[Fraction], jac: list[list[Fraction]], idx, scale, rho: Fraction):
    """KS / lower-bound KS / IKS from their definitions, 60-digit arithmetic (mpmath).

    KS_rho(g)  = (1/rho) log sum_i exp(rho g_i)          (upper bound of max g_i)
    lKS_rho(g) = KS_rho(g) - log(k)/rho                  (lower bound; k aggregated constraints)
    IKS_rho(g) = sum_i g_i exp(rho g_i) / sum_i exp(rho g_i)   (lower bound)
    with g = scale * selected constraint values. Returns (value, gradient, max g, k) as mpf.
    """
    import mpmath as mp

    mp.mp.dps = 60
    idx = list(range(len(vals))) if idx is None else idx
    sc = [Fraction(c) for c in scale] if isinstance(scale, list) else [Fraction(scale)] * len(idx)
    g = [vals[i] * s for i, s in zip(idx, sc)]
    gj = [[c * s for c in jac[i]] for i, s in zip(idx, sc)]
    k = len(g)
    gm = max(g)
    r = mp.mpf(rho.numerator) / rho.denominator
    tomp = lambda q: mp.mpf(q.numerator) / q.denominator  # noqa: E731
    e = [mp.exp(r * tomp(gi - gm)) for gi in g]
    S = mp.fsum(e)
    w = [ei / S for ei in e]
    n = len(jac[0]) if jac else 0
    if kind in ("uks", "lks"):
        val = tomp(gm) + mp.log(S) / r
        if kind == "lks":
            val -= mp.log(k) / r
        grad = [mp.fsum(w[i] * tomp(gj[i][j]) for i in range(k)) for j in range(n)]
    elif kind == "iks":
        val = mp.fsum(w[i] * tomp(g[i]) for i in range(k))
        # d/dg_i of sum_l w_l g_l with w_l = softmax(rho g)_l : w_i (1 + rho (g_i - IKS))
        dg = [w[i] * (1 + r * (tomp(g[i]) - val)) for i in range(k)]
        grad = [mp.fsum(dg[i] * tomp(gj[i][j]) for i in range(k)) for j in range(n)]
    else:
        raise ValueError(kind)
    return val, grad, tomp(gm), k


# --------------------------------------------------------------------------- implementation


class Guard:
    """Remembers every array handed out by a leaf, with a pristine copy."""

    def __init__(self) -> None:
        self.items: list[tuple[str, np.ndarray, np.ndarray]] = []

    def give(self, label: str, arr: np.ndarray) -> np.ndarray:
        self.items.append((label, arr, arr.copy()))
        return arr

    def modified(self) -> list[str]:
        bad = []
        for label, arr, ref in self.items:
            if arr.shape != ref.shape or not np.array_equal(arr, ref, equal_nan=True):
                bad.append(label)
        return bad

    def reset(self) -> None:
        self.items = []


class PolyLeaf:
    """A user function given by polynomials; exact rational evaluation rounded once to float."""

    def __init__(self, node: dict, label: str, guard: Guard) -> None:
        self.polys = [[(Fraction(c), list(e)) for c, e in p] for p in node["polys"]]
        self.style = node["style"]
        self.view = node.get("view")
        if self.style == "w" and self.view is None:
            raise IllShaped("view leaf without a view")
        self.label = label
        self.guard = guard

    def _eval(self, x) -> tuple[list[Fraction], list[list[Fraction]]]:
        if getattr(x, "dtype", None) == object:
            import sympy

            xs = list(np.asarray(x).ravel())
            conv = lambda c: sympy.Rational(c.numerator, c.denominator)  # noqa: E731
        else:
            xs = [F(t) for t in np.asarray(x, dtype=float).ravel()]
            conv = lambda c: c  # noqa: E731
        return self._eval_generic(xs, conv)

    def _eval_generic(self, xs, conv):
        vals, jac = [], []
        for p in self.polys:
            v = ZERO
            g = [ZERO] * len(xs)
            for c, e in p:
                t = conv(c)
                for j, ej in enumerate(e):
                    t = t * xs[j] ** ej
                v = v + t
                for j, ej in enumerate(e):
                    if ej:
                        t = conv(c) * ej
                        for k, ek in enumerate(e):
                            t = t * xs[k] ** (ek - (1 if k == j else 0))
                        g[j] = g[j] + t
            vals.append(v)
            jac.append(g)
        return vals, jac

    def func(self, x):
        if self.style == "w":
            # a user function that selects components of its input: it returns the array it receives or a view of
            # it (no copy) - legitimate, and whoever calls it must not reuse the storage of that argument
            return x if self.view == "self" else x[slice(*self.view)]
        vals, _ = self._eval(x)
        if getattr(x, "dtype", None) == object:
            return vals[0] if self.style == "s" else np.array(vals, dtype=object)
        if self.style == "s":
            return float(vals[0])
        return self.guard.give(f"value returned by leaf {self.label}", np.array([float(v) for v in vals]))

    def jac(self, x):
        _, jac = self._eval(x)
        if getattr(x, "dtype", None) == object:
            return np.array(jac[0], dtype=object) if self.style == "s" else np.array(jac, dtype=object)
        if self.style == "s":
            return self.guard.give(f"gradient returned by leaf {self.label}", np.array([float(c) for c in jac[0]]))
        return self.guard.give(f"Jacobian returned by leaf {self.label}", np.array([[float(c) for c in r] for r in jac]))


def fl(s: Any) -> float:
    return float(Fraction(s))


def fla(l) -> np.ndarray:
    return np.array([fl(t) for t in l], dtype=float)


def flm(rows) -> np.ndarray:
    return np.array([[fl(t) for t in r] for r in rows], dtype=float)


class Impl:
    """Builds the real objects of a tree and observes them."""

    def __init__(self, tree: dict, n: int, reuse: "Impl | None" = None) -> None:
        """`reuse`: a previous Impl of the same tree description whose *leaf objects* (user, linear and
        quadratic functions) are kept: only the operations above them are built again (a tree built
        after the parameters of a leaf were edited)."""
        self.guard = Guard() if reuse is None else reuse.guard
        self.leaf_objs: dict[int, Any] = {} if reuse is None else reuse.leaf_objs  # id(leaf node) -> object
        self.objects: list[tuple[dict, Any]] = []  # (node, MDOFunction)
        self.snapshots: list[tuple[str, Any, np.ndarray]] = []  # (label, getter, pristine copy)
        self.shared: dict[Any, tuple[dict, Any]] = {}  # share key -> (first node, the ONE object of all its occurrences)
        self.by_node: dict[int, Any] = {}  # id(node) -> object (every occurrence of a shared node included)
        self.shared_uses = 0
        self._count = 0
        self.root = self.build(tree, n)

    def _alias(self, node: dict, first: dict) -> None:
        if id(first) in self.by_node:
            self.by_node[id(node)] = self.by_node[id(first)]
        for c, f in zip(children(node), children(first)):
            self._alias(c, f)

    def object_of(self, node: dict):
        return self.by_node[id(node)]

    def resnap(self) -> None:
        """Take the pristine copies again (after a deliberate edit of a public parameter)."""
        self.snapshots = [(label, getter, np.array(getter(), dtype=float, copy=True)) for label, getter, _ in self.snapshots]
        self.guard.reset()

    def _snap(self, label: str, getter) -> None:
        self.snapshots.append((label, getter, np.array(getter(), dtype=float, copy=True)))

    def _given(self, label: str, arr: np.ndarray) -> np.ndarray:
        """An array argument handed to GEMSEO: it must still hold the same numbers afterwards."""
        self._snap(label, lambda a=arr: a)
        return arr

    def build(self, node: dict, n: int):
        from gemseo.algos.aggregation import aggregation_func as agf
        from gemseo.algos.design_space import DesignSpace
        from gemseo.core.mdo_functions.concatenate import Concatenate
        from gemseo.core.mdo_functions.convex_linear_approx import ConvexLinearApprox
        from gemseo.core.mdo_functions.function_restriction import FunctionRestriction
        from gemseo.core.mdo_functions.linear_composite_function import LinearCompositeFunction
        from gemseo.core.mdo_functions.mdo_function import MDOFunction
        from gemseo.core.mdo_functions.mdo_linear_function import MDOLinearFunction
        from gemseo.core.mdo_functions.mdo_quadratic_function import MDOQuadraticFunction
        from gemseo.core.mdo_functions.taylor_polynomials import compute_linear_approximation
        from gemseo.core.mdo_functions.taylor_polynomials import compute_quadratic_approximation

        op = node["op"]
        sk = node.get("share")
        if sk is not None and sk in self.shared:
            first, obj = self.shared[sk]
            self._alias(node, first)
            self.shared_uses += 1
            return obj
        self._count += 1
        tag = f"{op}#{self._count}"
        if op == "num":
            return fl(node["v"])
        if op == "arr":
            return self._given(f"array operand {tag}", fla(node["v"]))
        if op in ("poly", "lin", "quad") and id(node) in self.leaf_objs:
            obj = self.leaf_objs[id(node)]
        elif op == "poly":
            leaf = PolyLeaf(node, tag, self.guard)
            obj = MDOFunction(leaf.func, f"p{self._count}", jac=leaf.jac)
        elif op == "lin":
            obj = MDOLinearFunction(flm(node["A"]), f"l{self._count}", value_at_zero=fla(node["b"]))
        elif op == "quad":
            obj = MDOQuadraticFunction(
                flm(node["Q"]),
                f"q{self._count}",
                linear_coeffs=None if node["b"] is None else fla(node["b"]),
                value_at_zero=fl(node["c"]),
            )
        elif op in BINOPS:
            a = self.build(node["a"], n)
            b = self.build(node["b"], n)
            obj = {"add": lambda: a + b, "sub": lambda: a - b, "mul": lambda: a * b, "div": lambda: a / b}[op]()
        elif op == "neg":
            obj = -self.build(node["a"], n)
        elif op == "offn":
            obj = self.build(node["a"], n).offset(fl(node["v"]))
        elif op == "offa":
            obj = self.build(node["a"], n).offset(self._given(f"offset array {tag}", fla(node["v"])))
        elif op == "res":
            a = self.build(node["a"], node["N"])
            obj = FunctionRestriction(
                self._given(f"frozen indexes {tag}", np.array(node["frozen"], dtype=int)),
                self._given(f"frozen values {tag}", fla(node["values"])),
                node["N"],
                a,
                name=f"r{self._count}",
            )
        elif op == "lres":
            a = self.build(node["a"], n + len(node["frozen"]))
            obj = a.restrict(
                self._given(f"frozen indexes {tag}", np.array(node["frozen"], dtype=int)),
                self._given(f"frozen values {tag}", fla(node["values"])),
            )
        elif op == "lc":
            a = self.build(node["a"], len(node["A"]))
            obj = LinearCompositeFunction(a, self._given(f"matrix of the linear map {tag}", flm(node["A"])))
        elif op == "cat":
            obj = Concatenate([self.build(a, n) for a in node["args"]], f"c{self._count}")
        elif op == "nrm":
            a = self.build(node["a"], n)
            ds = DesignSpace()
            for i in range(n):
                ds.add_variable(f"v{i}", lower_bound=fl(node["lb"][i]), upper_bound=fl(node["ub"][i]))
                ds.normalize[f"v{i}"] = np.array([bool(node["mask"][i])])
            obj = a.normalize(ds)
        elif op == "t1":
            a = self.build(node["a"], n)
            obj = compute_linear_approximation(a, self._given(f"expansion point {tag}", fla(node["at"])))
        elif op == "t2":
            a = self.build(node["a"], n)
            obj = compute_quadratic_approximation(
                a,
                self._given(f"expansion point {tag}", fla(node["at"])),
                self._given(f"Hessian approximation {tag}", flm(node["H"])),
            )
        elif op == "cl":
            a = self.build(node["a"], n)
            mask = None if node["mask"] is None else np.array([bool(k) for k in node["mask"]])
            obj = ConvexLinearApprox(self._given(f"expansion point {tag}", fla(node["at"])), a, mask)
        elif op == "agg":
            a = self.build(node["a"], n)
            kind = node["kind"]
            a.f_type = "eq" if kind == "sumsq" else "ineq"
            sc = node["scale"]
            scale = self._given(f"scale array {tag}", fla(sc)) if isinstance(sc, list) else fl(sc)
            idx = None if node["idx"] is None else list(node["idx"])
            if kind == "sumsq":
                obj = agf.aggregate_sum_square(a, indices=idx, scale=scale)
            elif kind == "possumsq":
                obj = agf.aggregate_positive_sum_square(a, indices=idx, scale=scale)
            elif kind == "max":
                obj = agf.aggregate_max(a, indices=idx, scale=scale)
            elif kind == "uks":
                obj = agf.aggregate_upper_bound_ks(a, indices=idx, rho=fl(node["rho"]), scale=scale)
            elif kind == "lks":
                obj = agf.aggregate_lower_bound_ks(a, indices=idx, rho=fl(node["rho"]), scale=scale)
            elif kind == "iks":
                obj = agf.aggregate_iks(a, indices=idx, rho=fl(node["rho"]), scale=scale)
            else:
                raise IllShaped(kind)
        else:
            raise IllShaped(op)
        if op in ("poly", "lin", "quad"):
            self.leaf_objs[id(node)] = obj
        self.objects.append((node, obj))
        self.by_node[id(node)] = obj
        if sk is not None:
            self.shared[sk] = (node, obj)
        # public coefficient arrays of linear / quadratic objects are operand values too
        if isinstance(obj, MDOLinearFunction):
            self._snap(f"coefficients of the linear function {tag}", lambda o=obj: o.coefficients)
            self._snap(f"value_at_zero of the linear function {tag}", lambda o=obj: o.value_at_zero)
        elif isinstance(obj, MDOQuadraticFunction):
            self._snap(f"quad_coeffs of the quadratic function {tag}", lambda o=obj: o.quad_coeffs)
            self._snap(f"linear_coeffs of the quadratic function {tag}", lambda o=obj: o.linear_coeffs)
        return obj

    def modified_operands(self) -> list[str]:
        bad = self.guard.modified()
        for label, getter, ref in self.snapshots:
            cur = np.asarray(getter(), dtype=float)
            if cur.shape != ref.shape or not np.array_equal(cur, ref, equal_nan=True):
                bad.append(label)
        return bad


def canon_value(v) -> list[float]:
    return [float(t) for t in np.atleast_1d(np.asarray(v)).ravel()]


def canon_jac(j) -> list[list[float]]:
    j = np.asarray(j.todense()) if hasattr(j, "todense") else np.asarray(j)
    if j.ndim > 2:
        raise ValueError(f"Jacobian with {j.ndim} dimensions")
    j = np.atleast_2d(j)
    return [[float(t) for t in row] for row in j]


# --------------------------------------------------------------------------- protocol line for the Lean driver


def _rl(l) -> str:
    return ",".join(rat(Fraction(t)) for t in l) if len(l) else "[]"


def _poly_tok(p) -> str:
    if not p:
        return "0"
    return ";".join(rat(Fraction(c)) + ":" + ".".join(str(k) for k in e) for c, e in p)


def tree_tokens(node: dict, n: int) -> list[str]:
    op = node["op"]
    if "uref" in node:  # a leaf registered as an object of a session (Driver/C10.lean `U <id>`)
        return ["U", str(node["uref"])]
    if op == "poly":
        return ["P", str(len(node["polys"])), *[_poly_tok(p) for p in node["polys"]]]
    if op == "lin":
        return ["L", str(len(node["A"])), *[_rl(r) for r in node["A"]], _rl(node["b"])]
    if op == "quad":
        return ["Q", *[_rl(r) for r in node["Q"]], "_" if node["b"] is None else _rl(node["b"]), rat(Fraction(node["c"]))]
    if op == "num":
        return ["N", rat(Fraction(node["v"]))]
    if op == "arr":
        return ["A", _rl(node["v"])]
    if op in BINOPS:
        return [op, *tree_tokens(node["a"], n), *tree_tokens(node["b"], n)]
    if op == "neg":
        return ["neg", *tree_tokens(node["a"], n)]
    if op == "offn":
        return ["offn", rat(Fraction(node["v"])), *tree_tokens(node["a"], n)]
    if op == "offa":
        return ["offa", _rl(node["v"]), *tree_tokens(node["a"], n)]
    if op == "res":
        return ["res", str(node["N"]), ",".join(map(str, node["frozen"])), _rl(node["values"]), *tree_tokens(node["a"], node["N"])]
    if op == "lres":
        return ["lres", ",".join(map(str, node["frozen"])), _rl(node["values"]), *tree_tokens(node["a"], n + len(node["frozen"]))]
    if op == "lc":
        return ["lc", str(len(node["A"])), *[_rl(r) for r in node["A"]], *tree_tokens(node["a"], len(node["A"]))]
    if op == "cat":
        out = ["cat", str(len(node["args"]))]
        for a in node["args"]:
            out += tree_tokens(a, n)
        return out
    if op == "nrm":
        return ["nrm", _rl(node["lb"]), _rl(node["ub"]), "".join(str(int(k)) for k in node["mask"]), *tree_tokens(node["a"], n)]
    if op == "t1":
        return ["t1", _rl(node["at"]), *tree_tokens(node["a"], n)]
    if op == "t2":
        return ["t2", _rl(node["at"]), *[_rl(r) for r in node["H"]], *tree_tokens(node["a"], n)]
    if op == "cl":
        mask = "_" if node["mask"] is None else "".join(str(int(k)) for k in node["mask"])
        return ["cl", _rl(node["at"]), mask, *tree_tokens(node["a"], n)]
    if op == "agg":
        idx = "_" if node["idx"] is None else ",".join(map(str, node["idx"]))
        sc = ("a" + _rl(node["scale"])) if isinstance(node["scale"], list) else ("n" + rat(Fraction(node["scale"])))
        return ["agg", node["kind"], idx, sc, *tree_tokens(node["a"], n)]
    raise IllShaped(op)


def protocol_line(tree: dict, n: int, x: list[Fraction]) -> str:
    return " ".join(["eval", str(n), _rl(x), *tree_tokens(tree, n)])


def finite(x: float) -> bool:
    return isinstance(x, float) and math.isfinite(x)
