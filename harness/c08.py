"""C08 — execution sequences respect data dependencies and composition is exact.

Correspondence: for generated sets of disciplines (inputs/outputs name lists, every listing
order), `CouplingStructure(disciplines)` is built with the real code and its public views
(`sequence`, `strong_couplings`, `weak_couplings`, `all_couplings`,
`strongly_coupled_disciplines`, `weakly_coupled_disciplines`,
`get_strongly_coupled_disciplines(...)`) are compared line by line with the Lean model
(Driver/C08.lean).  `MDOChain` / `MDAChain` (sequential, parallel tasks, initialization chain)
are executed on affine disciplines with dyadic coefficients and compared with the model's
sequential data propagation (exact) and with an exact `Fraction` monolithic solve (oracle).

Oracle: written from the property text only — an independent Tarjan SCC + schedule-validity
check, graph-implied coupling sets, Gaussian elimination over `Fraction`.
"""

from __future__ import annotations

import itertools
import json
from fractions import Fraction
from typing import Any

from harness import common
from harness.common import F
from harness.common import Result
from harness.common import rat

PID = "C08"

TRUSTED_EXTRA = (
    "C08: networkx.strongly_connected_components/condensation are modelled by their specification "
    "(classes of mutual reachability; edges between different classes) — validated exhaustively on all "
    "name-generated graphs with <= 3 (quick) / <= 4 (thorough) disciplines x all listing orders, not proved",
    "C08: inner MDA solvers (MDAJacobi/MDAGaussSeidel) are an abstract per-group solver in the theorems; their "
    "results are compared with the exact solution on the rounded stream (relative bound 2^-30 after tolerance 1e-14)",
)

ROUND_BOUND = Fraction(1, 2**30)

# --------------------------------------------------------------------------- cases
# A graph case is {"discs": [{"name": str, "in": [names], "out": [names]}, ...]} (listing order = list order).
# A chain case additionally has "lin": [{out: [const, {in: coef}]}, ...] (one per discipline, rationals as strings),
# "ext": {name: value} for the external inputs and "mode": one of CHAIN_MODES.

NAME_OK = "abcdefghijklmnopqrstuvwxyz"


def disc_token(d: dict[str, Any]) -> str:
    st = d.get("states") or []
    return f"{d['name']}:{','.join(d['in']) or '-'}>{','.join(d['out']) or '-'}" + (f"~{','.join(st)}" if st else "")


def graph_line(case: dict[str, Any]) -> str:
    return "seq " + " ".join(disc_token(d) for d in case["discs"]) if case["discs"] else "seq"


def edges_of(discs) -> set[tuple[int, int]]:
    """The data-dependency graph of the property text: i -> j iff i != j and an output of i is an input of j."""
    e = set()
    for i, di in enumerate(discs):
        for j, dj in enumerate(discs):
            if i != j and set(di["out"]) & set(dj["in"]):
                e.add((i, j))
    return e


# --------------------------------------------------------------------------- implementation (graph part)


def build_discs(case):
    from gemseo.utils.discipline import DummyDiscipline

    out = []
    for d in case["discs"]:
        disc = DummyDiscipline(d["name"], d["in"], d["out"])
        if d.get("states"):
            # state variables: solved by the discipline itself from residuals, not a self-coupling
            disc.io.residual_to_state_variable = {f"r_{v}": v for v in d["states"]}
        out.append(disc)
    return out


def _idx(discs, d) -> int:
    for i, x in enumerate(discs):
        if x is d:
            return i
    raise AssertionError("the implementation returned a discipline that was not passed to it")


def canon_seq(seq_idx) -> str:
    """stages (order kept) -> groups sorted by their smallest member -> members in the order given."""
    if not seq_idx:
        return "[]"
    return "|".join(";".join(",".join(map(str, g)) for g in sorted(st, key=lambda g: (min(g) if g else -1, g))) for st in seq_idx)


def names(l) -> str:
    return ",".join(l) if l else "[]"


def idxs(l) -> str:
    return ",".join(map(str, l)) if l else "[]"


def impl_observe_graph(case, discs=None) -> dict[str, Any]:
    """All public views of CouplingStructure / DependencyGraph on the case.

    The queries are issued in an order drawn from the case's `qseed` (the properties are lazily cached:
    the answers must not depend on what was asked before), then all of them a second time on the same
    object; a fresh DependencyGraph on the same discipline objects is queried as well."""
    import random

    from gemseo.core.coupling_structure import CouplingStructure
    from gemseo.core.dependency_graph import DependencyGraph

    discs = discs if discs is not None else build_discs(case)
    cs = CouplingStructure(discs)
    ix = lambda d: _idx(discs, d)  # noqa: E731
    all_out = sorted({v for d in case["discs"] for v in d["out"]})

    def q_find():
        out = []
        for v in all_out:
            out.append(ix(cs.find_discipline(v)))
        try:
            cs.find_discipline("no_such_output_name")
            out.append(-1)
        except ValueError:
            pass
        return out

    queries = {
        "seq": lambda: [[tuple(ix(d) for d in grp) for grp in stage] for stage in cs.sequence],
        "seq_again": lambda: [[tuple(ix(d) for d in grp) for grp in stage] for stage in cs.graph.get_execution_sequence()],
        "seq_fresh": lambda: [[tuple(ix(d) for d in grp) for grp in stage] for stage in DependencyGraph(discs).get_execution_sequence()],
        "nodes": lambda: [ix(d) for d in cs.graph.disciplines],
        "strong": lambda: list(cs.strong_couplings),
        "weak": lambda: list(cs.weak_couplings),
        "all": lambda: list(cs.all_couplings),
        "scd": lambda: [ix(d) for d in cs.strongly_coupled_disciplines],
        "scd_call": lambda: [ix(d) for d in cs.get_strongly_coupled_disciplines()],
        "wcd": lambda: [ix(d) for d in cs.weakly_coupled_disciplines],
        "scd_noself": lambda: [ix(d) for d in cs.get_strongly_coupled_disciplines(add_self_coupled=False)],
        "scd_groups": lambda: [tuple(ix(d) for d in g) for g in cs.get_strongly_coupled_disciplines(by_group=True)],
        "scd_groups_noself": lambda: [
            tuple(ix(d) for d in g) for g in cs.get_strongly_coupled_disciplines(add_self_coupled=False, by_group=True)
        ],
        "selfc": lambda: [i for i, d in enumerate(discs) if cs.is_self_coupled(d)],
        "incoup": lambda: [list(cs.get_input_couplings(d)) for d in discs],
        "outcoup": lambda: [list(cs.get_output_couplings(d)) for d in discs],
        "incoup_all": lambda: [list(cs.get_input_couplings(d, strong=False)) for d in discs],
        "outcoup_all": lambda: [list(cs.get_output_couplings(d, strong=False)) for d in discs],
        "edges": lambda: sorted((ix(a), ix(b), list(v)) for a, b, v in cs.graph.get_disciplines_couplings()),
        "edges_fresh": lambda: sorted((ix(a), ix(b), list(v)) for a, b, v in DependencyGraph(discs).get_disciplines_couplings()),
        "find": q_find,
    }
    rnd = random.Random(case.get("qseed", 0))
    order = sorted(queries)
    rnd.shuffle(order)
    obs: dict[str, Any] = {}
    for k in order:
        obs[k] = queries[k]()
    order2 = sorted(queries)
    rnd.shuffle(order2)
    unstable = []
    for k in order2:
        again = queries[k]()
        if k.startswith("seq"):
            if canon_seq(again) != canon_seq(obs[k]):
                unstable.append(k)
        elif again != obs[k]:
            unstable.append(k)
    # the different routes to the same information must agree (compared as the model prints them)
    for k, ref in (("seq_again", "seq"), ("seq_fresh", "seq"), ("edges_fresh", "edges"), ("scd_call", "scd")):
        same = canon_seq(obs[k]) == canon_seq(obs[ref]) if k.startswith("seq") else obs[k] == obs[ref]
        if not same:
            unstable.append(f"{k}!={ref}")
    if obs["nodes"] != list(range(len(discs))):
        unstable.append("nodes")
    obs["unstable"] = sorted(unstable)
    seq = obs["seq"]
    sg = lambda gs: ";".join(",".join(map(str, g)) for g in sorted(gs, key=lambda g: (min(g), g))) or "[]"  # noqa: E731
    edges_s = ";".join(f"{a}>{b}:{','.join(v)}" for a, b, v in obs["edges"]) or "[]"
    obs["line"] = (
        f"seq={canon_seq(seq)} strong={names(obs['strong'])} weak={names(obs['weak'])} all={names(obs['all'])} "
        f"scd={idxs(sorted(obs['scd']))} wcd={idxs(sorted(obs['wcd']))} scd0={idxs(sorted(obs['scd_noself']))} "
        f"grp={sg(obs['scd_groups'])} grp0={sg(obs['scd_groups_noself'])} self={idxs(obs['selfc'])} "
        f"ic={'/'.join(names(x) for x in obs['incoup']) or '[]'} oc={'/'.join(names(x) for x in obs['outcoup']) or '[]'} "
        f"ica={'/'.join(names(x) for x in obs['incoup_all']) or '[]'} oca={'/'.join(names(x) for x in obs['outcoup_all']) or '[]'} "
        f"edges={edges_s} find={idxs(obs['find'])} unstable={names(obs['unstable'])}"
    )
    return obs


# --------------------------------------------------------------------------- oracle (property text)


def tarjan(n: int, edges: set[tuple[int, int]]) -> list[frozenset[int]]:
    """Iterative Tarjan SCC, written for this oracle (no NetworkX)."""
    succ = [[] for _ in range(n)]
    for a, b in sorted(edges):
        succ[a].append(b)
    index = [None] * n
    low = [0] * n
    on = [False] * n
    stack: list[int] = []
    out: list[frozenset[int]] = []
    counter = 0
    for root in range(n):
        if index[root] is not None:
            continue
        work = [(root, 0)]
        index[root] = low[root] = counter
        counter += 1
        stack.append(root)
        on[root] = True
        while work:
            v, k = work.pop()
            if k < len(succ[v]):
                work.append((v, k + 1))
                w = succ[v][k]
                if index[w] is None:
                    index[w] = low[w] = counter
                    counter += 1
                    stack.append(w)
                    on[w] = True
                    work.append((w, 0))
                elif on[w]:
                    low[v] = min(low[v], index[w])
            else:
                if low[v] == index[v]:
                    comp = []
                    while True:
                        w = stack.pop()
                        on[w] = False
                        comp.append(w)
                        if w == v:
                            break
                    out.append(frozenset(comp))
                if work:
                    u = work[-1][0]
                    low[u] = min(low[u], low[v])
    return out


def oracle_graph(case, obs) -> list[tuple[str, str]]:
    """Clauses of the property violated by the implementation's answers (key, message)."""
    bad: list[tuple[str, str]] = []
    discs = case["discs"]
    n = len(discs)
    edges = edges_of(discs)
    sccs = tarjan(n, edges)
    scc_of = {}
    for c in sccs:
        for v in c:
            scc_of[v] = c
    seq = obs["seq"]
    flat = [m for st in seq for g in st for m in g]
    # 1. every discipline exactly once
    if sorted(flat) != list(range(n)):
        bad.append(("not-each-once", f"the flattened sequence {flat} is not a permutation of the {n} disciplines"))
        return bad
    if any(len(st) == 0 for st in seq) or any(len(g) == 0 for st in seq for g in st):
        bad.append(("empty-stage", "the sequence contains an empty stage or group"))
    # 2. groups are exactly the classes of mutual dependency
    groups = {frozenset(g) for st in seq for g in st}
    if groups != set(sccs):
        extra = sorted(sorted(g) for g in groups - set(sccs))
        bad.append(("groups-not-sccs", f"groups {extra} are not classes of mutually dependent disciplines (expected {sorted(sorted(c) for c in sccs)})"))
        return bad
    # 3. a group is scheduled strictly after every group producing one of its inputs
    stage_of = {}
    for k, st in enumerate(seq):
        for g in st:
            for m in g:
                stage_of[m] = k
    for a, b in sorted(edges):
        if scc_of[a] != scc_of[b] and not (stage_of[a] < stage_of[b]):
            bad.append(("producer-not-before", f"discipline {a} produces an input of {b} but is scheduled at stage {stage_of[a]} >= {stage_of[b]}"))
            break
    # 0. the dependency graph itself: edge i -> j labelled with the outputs of i that are inputs of j
    want_edges = sorted((a, b, sorted(set(discs[a]["out"]) & set(discs[b]["in"]))) for a, b in edges)
    if obs["edges"] != want_edges:
        bad.append(("edge-labels", f"get_disciplines_couplings() = {obs['edges']}, the names imply {want_edges}"))
    # 4. coupling sets implied by the graph
    # a discipline is on a cycle when it is mutually dependent with another one or feeds itself
    # (a state variable, solved by the discipline itself, is not a feedback)
    on_cycle = [
        len(scc_of[i]) > 1 or bool((set(discs[i]["in"]) & set(discs[i]["out"])) - set(discs[i].get("states") or []))
        for i in range(n)
    ]
    strong = set()
    allc = set()
    for i in range(n):
        for j in range(n):
            lab = set(discs[i]["out"]) & set(discs[j]["in"])
            allc |= lab
            if scc_of[i] == scc_of[j] and on_cycle[i]:
                strong |= lab
    weak = set()
    for i in range(n):
        if not on_cycle[i]:
            weak |= set(discs[i]["out"])
    for key, got, want in (("strong", obs["strong"], strong), ("weak", obs["weak"], weak), ("all", obs["all"], allc)):
        if list(got) != sorted(want):
            bad.append((f"{key}-couplings", f"{key}_couplings = {list(got)}, the graph implies {sorted(want)}"))
    if obs["unstable"]:
        bad.append(("query-order-dependent", f"the answers of {obs['unstable']} changed when asked again / differ between equivalent accessors"))
    all_out = sorted({v for d in discs for v in d["out"]})
    if len(obs["find"]) != len(all_out) or any(v not in discs[i]["out"] for v, i in zip(all_out, obs["find"]) if 0 <= i < n) or any(
        not (0 <= i < n) for i in obs["find"]
    ):
        bad.append(("find-discipline", f"find_discipline over {all_out} returned {obs['find']} (must produce the output; unknown output must raise)"))
    if sorted(obs["scd"]) != [i for i in range(n) if on_cycle[i]] or len(set(obs["scd"])) != len(obs["scd"]):
        bad.append(("strongly-coupled-disciplines", f"strongly_coupled_disciplines = {obs['scd']}, on a cycle: {[i for i in range(n) if on_cycle[i]]}"))
    if sorted(obs["wcd"]) != [i for i in range(n) if not on_cycle[i]] or len(set(obs["wcd"])) != len(obs["wcd"]):
        bad.append(("weakly-coupled-disciplines", f"weakly_coupled_disciplines = {obs['wcd']}, not on a cycle: {[i for i in range(n) if not on_cycle[i]]}"))
    return bad


# --------------------------------------------------------------------------- chains: cases, implementation, oracle

CHAIN_MODES = ("mdo", "seqchain", "mda", "mdapar", "mdags", "mdainit")
RESIDUAL_NAME = "MDA residuals norm"


def lin_token(d, l) -> str:
    outs = []
    for o in d["out"]:
        c, co = l[o]
        outs.append(";".join([f"{o}={c}"] + [f"{k}={a}" for k, a in co.items()]))
    return f"{d['name']}:{','.join(d['in']) or '-'}>{','.join(outs) or '-'}"


def chain_line(case) -> str:
    mode = {"mdainit": "mda"}.get(case["mode"], case["mode"])
    ext = " ".join(f"{k}={v}" for k, v in case["ext"].items())
    return f"chain {mode} " + " ".join(lin_token(d, l) for d, l in zip(case["discs"], case["lin"])) + " | " + ext


def init_line(case) -> str:
    toks = []
    for d, nd in zip(case["discs"], case.get("nodefault") or [[] for _ in case["discs"]]):
        defs = [v for v in d["in"] if v not in nd]
        toks.append(disc_token(d) + "/" + (",".join(defs) or "-"))
    return "init " + " ".join(toks) + " | " + (",".join(case["ext"]) or "-")


def build_lin_discs(case):
    from harness.c08_disc import LinDisc

    out = []
    nodef = case.get("nodefault") or [[] for _ in case["discs"]]
    for d, l, nd in zip(case["discs"], case["lin"], nodef):
        outs = {o: (float(Fraction(l[o][0])), {k: float(Fraction(a)) for k, a in l[o][1].items()}) for o in d["out"]}
        defaults = {v: 0.0 for v in d["in"] if v not in nd}
        out.append(LinDisc(d["name"], d["in"], outs, defaults=defaults))
    return out


def impl_observe_chain(case) -> dict[str, Any]:
    """Build and execute the chain of the case with the real code; exact rational view of the result.

    `case["variant"]` (list of flags) selects alternative public entry points / histories that must not
    change the result: "cs" (a pre-built CouplingStructure is passed to the MDAChain), "twice" (a first
    process is built on the same discipline objects and executed before the observed one is built),
    "alias" (all executions use ONE input dict whose arrays are updated in place between executions),
    "subcs" (the coupling structures of the inner MDAs are passed), "deepcopy" (MDOParallelChain with use_deep_copy), "graphfirst" (the disciplines were analysed by a
    CouplingStructure before)."""
    import numpy as np
    from gemseo.core.chains.chain import MDOChain
    from gemseo.core.coupling_structure import CouplingStructure
    from gemseo.mda.mda_chain import MDAChain

    ds = build_lin_discs(case)
    mode = case["mode"]
    variant = case.get("variant") or []
    obs: dict[str, Any] = {}

    def build():
        if mode == "mdo":
            return MDOChain(ds)
        if mode == "seqchain":
            cs = CouplingStructure(ds)
            return MDOChain([d for st in cs.sequence for g in st for d in g])
        kw: dict[str, Any] = {"tolerance": 1e-14, "max_mda_iter": 200}
        if mode == "mdapar":
            kw["mdachain_parallelize_tasks"] = True
            if "deepcopy" in variant:
                kw["mdachain_parallel_settings"] = {"use_deep_copy": True}
        if mode == "mdags":
            kw["inner_mda_name"] = "MDAGaussSeidel"
        if mode == "mdainit":
            kw["initialize_defaults"] = True
        if "cs" in variant:
            kw["coupling_structure"] = CouplingStructure(ds)
        if "subcs" in variant:
            # the coupling structures of the inner MDAs, in the order the MDAChain creates them
            cs0 = CouplingStructure(ds)
            subs = []
            for stage in cs0.sequence:
                for grp in stage:
                    if len(grp) > 1 or cs0.is_self_coupled(grp[0]):
                        subs.append(CouplingStructure([d for d in ds if any(d is g for g in grp)]))
            kw["sub_coupling_structures"] = subs
        return MDAChain(ds, **kw)

    def to_inp(ext, ch):
        return {k: np.array([float(Fraction(v))]) for k, v in ext.items() if k in ch.io.input_grammar}

    try:
        if "graphfirst" in variant:
            CouplingStructure(ds).strong_couplings  # noqa: B018
        if "twice" in variant:
            first = build()
            first.execute(to_inp((case.get("pre") or [case["ext"]])[0], first))
        ch = build()
        ins = sorted(ch.io.input_grammar)
        outs = sorted(n for n in ch.io.output_grammar if n != RESIDUAL_NAME)
        shared = None
        for pre in case.get("pre") or []:
            # history: earlier executions of the same process object (other values, or the very same ones)
            if "alias" in variant and mode != "mdapar":
                if shared is None:
                    shared = to_inp(pre, ch)
                else:
                    for k, v in to_inp(pre, ch).items():
                        shared[k][...] = v
                ch.execute(shared)
            else:
                ch.execute(to_inp(pre, ch))
        inp = to_inp(case["ext"], ch)
        if shared is not None and set(shared) == set(inp):
            for k, v in inp.items():
                shared[k][...] = v
            inp = shared
        data = ch.execute(inp)
        vals = {}
        for k in sorted(set(ins) | set(outs)):
            if k in data:
                v = np.atleast_1d(data[k])
                vals[k] = F(float(v[0])) if np.isfinite(v[0]) else None
        obs.update({"in": ins, "out": outs, "val": vals, "n_runs": [d.n_runs for d in ds]})
        mdas = "-"
        if mode not in ("mdo", "seqchain"):
            groups = [tuple(_idx(ds, d) for d in mda.disciplines) for mda in ch.inner_mdas]
            mdas = ";".join(",".join(map(str, g)) for g in sorted(groups, key=lambda g: (min(g), g))) or "[]"
        flow = "-"
        if mode in ("mdo", "seqchain"):
            fl = sorted((_idx(ds, a), _idx(ds, b), list(v)) for a, b, v in ch.get_process_flow().get_data_flow())
            flow = ";".join(f"{a}>{b}:{','.join(v)}" for a, b, v in fl) or "[]"
        obs["line"] = f"in={names(ins)} out={names(outs)} mdas={mdas} flow={flow} val=" + (
            ",".join(f"{k}={'nan' if v is None else rat(v)}" for k, v in vals.items()) or "[]"
        )
    except Exception as e:  # noqa: BLE001
        obs["exc"] = common.exc_class(e)
        obs["exc_text"] = repr(e)[:200]
        obs["line"] = obs["exc"]
    return obs


def order_impl(case) -> str:
    """`order_disciplines_from_default_inputs` through both of its public forms."""
    from gemseo.core.chains.initialization_chain import order_disciplines_from_default_inputs

    ds = build_lin_discs(case)
    avail = list(case["ext"])
    try:
        order = order_disciplines_from_default_inputs(ds, available_data_names=avail)
        got = "order=" + idxs([_idx(ds, d) for d in order])
    except ValueError:
        got = "E:value"
    # the non-raising form: the same order, or the names that cannot be computed
    soft = order_disciplines_from_default_inputs(ds, raise_error=False, available_data_names=tuple(avail))
    if got != "E:value":
        same = len(soft) == len(ds) and all(a is b for a, b in zip(soft, order))
        return got if same else got + " soft-differs"
    missing = missing_when_stuck(case)
    ok = all(isinstance(x, str) for x in soft) and set(missing["must"]) <= set(soft) <= set(missing["may"]) and list(soft) == sorted(soft)
    return got if ok else got + f" soft-missing={list(soft)}"


def missing_when_stuck(case) -> dict[str, set[str]]:
    """When no initialization order exists: the inputs that really cannot be computed (no default, not
    given, not produced by an initializable discipline) and the inputs of the stuck disciplines."""
    discs = case["discs"]
    nodef = case.get("nodefault") or [[] for _ in discs]
    avail = set(case["ext"])
    rem = list(range(len(discs)))
    progress = True
    while progress:
        progress = False
        for i in list(rem):
            if all(v in avail or v not in nodef[i] for v in discs[i]["in"]):
                rem.remove(i)
                avail |= set(discs[i]["out"])
                progress = True
    must = {v for i in rem for v in discs[i]["in"] if v in nodef[i] and v not in avail}
    may = {v for i in rem for v in discs[i]["in"]}
    return {"must": must, "may": may}


def solve_exact(A: list[list[Fraction]], b: list[Fraction]) -> list[Fraction] | None:
    n = len(b)
    M = [row[:] + [bb] for row, bb in zip(A, b)]
    for c in range(n):
        p = next((r for r in range(c, n) if M[r][c] != 0), None)
        if p is None:
            return None
        M[c], M[p] = M[p], M[c]
        for r in range(n):
            if r != c and M[r][c] != 0:
                f = M[r][c] / M[c][c]
                M[r] = [x - f * y for x, y in zip(M[r], M[c])]
    return [M[i][n] / M[i][i] for i in range(n)]


def monolithic(case) -> dict[str, Fraction] | None:
    """The whole system evaluated at once: the unique solution of all the discipline equations (exact)."""
    discs, lin = case["discs"], case["lin"]
    ys = [o for d in discs for o in d["out"]]
    if len(set(ys)) != len(ys):
        return None  # an output computed twice: "the whole system" is not a function
    ix = {y: k for k, y in enumerate(ys)}
    A = [[Fraction(0)] * len(ys) for _ in ys]
    b = [Fraction(0)] * len(ys)
    for d, l in zip(discs, lin):
        for o in d["out"]:
            c, co = l[o]
            r = ix[o]
            A[r][r] += 1
            b[r] += Fraction(c)
            for v, a in co.items():
                if v in ix:
                    A[r][ix[v]] -= Fraction(a)
                else:
                    b[r] += Fraction(a) * Fraction(case["ext"].get(v, 0))
    sol = solve_exact(A, b)
    if sol is None:
        return None
    return dict(zip(ys, sol))


def has_cycle(discs) -> bool:
    n = len(discs)
    if any((set(d["in"]) & set(d["out"])) - set(d.get("states") or []) for d in discs):
        return True
    return any(len(c) > 1 for c in tarjan(n, edges_of(discs)))


def listing_is_schedule(discs) -> bool:
    """Every input of a discipline is external or produced by an earlier discipline of the listing."""
    produced_later = set()
    for d in reversed(discs):
        produced_later |= set(d["out"])
        if set(d["in"]) & produced_later:
            return False
    return True


def init_feasible(case) -> bool:
    discs = case["discs"]
    nodef = case.get("nodefault") or [[] for _ in discs]
    avail = set(case["ext"])
    rem = list(range(len(discs)))
    while rem:
        ok = [i for i in rem if all(v in avail or v not in nodef[i] for v in discs[i]["in"])]
        if not ok:
            return False
        rem.remove(ok[0])
        avail |= set(discs[ok[0]]["out"])
    return True


def chain_in_scope(case) -> bool:
    discs = case["discs"]
    ys = [o for d in discs for o in d["out"]]
    if len(set(ys)) != len(ys):
        return False
    mode = case["mode"]
    if mode == "mdo":
        return not has_cycle(discs) and listing_is_schedule(discs)
    if mode == "seqchain":
        return not has_cycle(discs)
    if mode == "mdainit":
        return init_feasible(case)
    return True


def oracle_chain(case, obs, exact: bool | None = None) -> list[tuple[str, str]]:
    """Composition is exact: the chain returns the solution of the whole system.

    `exact` (default: the system has no cycle): compare exactly, else up to ROUND_BOUND (an iterative inner MDA
    is involved)."""
    mode = case["mode"]
    if "exc" in obs:
        return [(f"{mode}-raises", f"executing the {mode} chain raised {obs.get('exc_text')}")]
    ref = monolithic(case)
    if ref is None:
        return []
    if exact is None:
        exact = not has_cycle(case["discs"])
    bad = []
    for y, want in ref.items():
        got = obs["val"].get(y)
        if got is None:
            bad.append((f"{mode}-missing-output", f"output {y} of the system is not in the data returned by the {mode} chain"))
            break
        ok = (got == want) if exact else (abs(got - want) <= ROUND_BOUND * max(1, abs(want)))
        if not ok:
            bad.append((
                f"{mode}-wrong-value",
                f"{mode} chain returns {y} = {float(got)!r}, the system evaluated at once gives {want} ({'exact' if exact else 'rounded'} stream)",
            ))
            break
    for x, v in case["ext"].items():
        if x in obs["val"] and obs["val"][x] != Fraction(v) and x not in ref:
            bad.append((f"{mode}-input-changed", f"external input {x} = {v} came back as {obs['val'][x]}"))
            break
    return bad


def oracle_order(case, got: str) -> list[tuple[str, str]]:
    discs = case["discs"]
    nodef = case.get("nodefault") or [[] for _ in discs]
    feas = init_feasible(case)
    if " soft-" in got:
        return [("init-order-soft-form", f"order_disciplines_from_default_inputs(raise_error=False) is inconsistent with the raising form: {got}")]
    if got == "E:value":
        return [("init-order-raises", "an initialization order exists but order_disciplines_from_default_inputs raised")] if feas else []
    if not feas:
        return [("init-order-impossible", f"no initialization order exists but {got} was returned")]
    order = [int(t) for t in got[len("order="):].split(",")] if got != "order=[]" else []
    if sorted(order) != list(range(len(discs))):
        return [("init-order-not-permutation", f"{got} is not a permutation of the disciplines")]
    avail = set(case["ext"])
    for i in order:
        if not all(v in avail or v not in nodef[i] for v in discs[i]["in"]):
            return [("init-order-invalid", f"{got}: discipline {i} is executed before all its inputs are available")]
        avail |= set(discs[i]["out"])
    return []


def same_chain_line(impl: str, model: str, exact: bool) -> bool:
    if impl == model:
        return True
    a, b = impl.split(" "), model.split(" ")
    if len(a) != 5 or len(b) != 5 or a[:4] != b[:4]:
        return False
    if exact:
        return False
    try:
        va = dict(t.split("=") for t in a[4][4:].split(",")) if a[4] != "val=[]" else {}
        vb = dict(t.split("=") for t in b[4][4:].split(",")) if b[4] != "val=[]" else {}
        if set(va) != set(vb):
            return False
        for k in va:
            x, y = Fraction(va[k]), Fraction(vb[k])
            if not abs(x - y) <= ROUND_BOUND * max(1, abs(y)):
                return False
    except (ValueError, ZeroDivisionError):
        return False
    return True


# --------------------------------------------------------------------------- generators


def labelled_graph(
    n: int, code: int, scheme: str = "asc", ext_bits: int = 0, noout_bits: int = 0, state_bits: int = 0
) -> dict[str, Any]:
    """The labelled digraph (self-loops allowed) number `code` on n disciplines, realised with names:
    discipline i outputs y<i> (unless its `noout` bit is set) and reads y<j> for every edge j -> i."""
    nm = (lambda i: f"y{i}") if scheme == "asc" else (lambda i: f"y{n - 1 - i}")
    discs = []
    for i in range(n):
        ins = [nm(j) for j in range(n) if (code >> (j * n + i)) & 1]
        if (ext_bits >> i) & 1:
            ins.append("x")
        outs = [] if (noout_bits >> i) & 1 else [nm(i)]
        d = {"name": f"D{i}", "in": ins, "out": outs}
        if (state_bits >> i) & 1 and nm(i) in ins and outs:
            d["states"] = [nm(i)]  # the self-loop variable is a state variable of the discipline
        discs.append(d)
    return {"discs": discs}


def permuted(case, perm) -> dict[str, Any]:
    c = dict(case)
    c["discs"] = [case["discs"][p] for p in perm]
    for key in ("lin", "nodefault"):
        if case.get(key) is not None:
            c[key] = [case[key][p] for p in perm]
    return c


def gen_graph(rng: common.Rng, max_n: int = 9) -> dict[str, Any]:
    style = rng.pick(["edges", "edges", "names", "names", "deep", "dupnames", "sparse-big", "isolated"])
    n = rng.randint(1, max_n)
    discs = []
    if style in ("edges", "dupnames", "isolated"):
        p = rng.pick([0.1, 0.2, 0.35, 0.5])
        nouts = [rng.pick([1, 1, 1, 2, 0]) for _ in range(n)]
        outs = [[f"y{i}{'ab'[k]}" for k in range(nouts[i])] for i in range(n)]
        for i in range(n):
            ins = []
            for j in range(n):
                if outs[j] and rng.chance(p if j != i else p / 2):
                    ins += [o for o in outs[j] if rng.chance(0.7)] or [outs[j][0]]
            ins += [x for x in ("x0", "x1") if rng.chance(0.3)]
            name = rng.pick(["A", "B"]) if style == "dupnames" else f"D{i}"
            if style == "isolated" and rng.chance(0.3):
                discs.append({"name": name, "in": [], "out": []})
            else:
                discs.append({"name": name, "in": ins, "out": outs[i]})
    elif style == "names":
        nv = rng.randint(1, 10)
        p = rng.pick([0.1, 0.2, 0.3, 0.5])
        vs = [rng.pick(["v", "w", "zz", "a_", "B", "Zq"]) + str(k) for k in range(nv)]
        for i in range(n):
            discs.append({"name": f"D{i}", "in": [v for v in vs if rng.chance(p)], "out": [v for v in vs if rng.chance(p)]})
    elif style == "deep":
        # a long path in a random listing order, a few chords and back edges
        order = list(range(n))
        rng.shuffle(order)
        ins: list[list[str]] = [[] for _ in range(n)]
        for a, b in zip(order, order[1:]):
            ins[b].append(f"y{a}")
        for _ in range(rng.randint(0, n)):
            a, b = rng.randrange(n), rng.randrange(n)
            if f"y{a}" not in ins[b]:
                ins[b].append(f"y{a}")
        discs = [{"name": f"D{i}", "in": ins[i], "out": [f"y{i}"]} for i in range(n)]
    else:  # sparse-big
        n = rng.randint(6, max(6, max_n + 3))
        ins = [[] for _ in range(n)]
        for _ in range(rng.randint(n // 2, 2 * n)):
            a, b = rng.randrange(n), rng.randrange(n)
            if f"y{a}" not in ins[b]:
                ins[b].append(f"y{a}")
        discs = [{"name": f"D{i}", "in": ins[i], "out": [f"y{i}"]} for i in range(n)]
    if rng.chance(0.25):
        # declare some fed-back names as state variables of their discipline
        for d in discs:
            both = [v for v in d["in"] if v in d["out"]]
            st = [v for v in both if rng.chance(0.6)]
            if st:
                d["states"] = st
        style += "+states"
    return {"discs": discs, "style": style}


def gen_system(rng: common.Rng, max_n: int = 6, contractive: bool = False) -> dict[str, Any]:
    """A well-posed affine system (each output computed once); cyclic ones are contractive (row sums <= 1/2);
    `contractive` forces small coupling coefficients in acyclic systems too."""
    n = rng.randint(1, max_n)
    acyclic = rng.chance(0.5)
    order = list(range(n))
    rng.shuffle(order)
    pos = {d: k for k, d in enumerate(order)}
    p_edge = rng.pick([0.2, 0.4, 0.6])
    outs = {i: [f"y{i}a"] + ([f"y{i}b"] if rng.chance(0.3) else []) for i in range(n)}
    if rng.chance(0.1):
        outs[rng.randrange(n)] = []
    discs, lin = [], []
    for i in range(n):
        ins: list[str] = []
        for j in range(n):
            if j == i:
                if not acyclic and outs[i] and rng.chance(0.2):
                    ins.append(rng.pick(outs[i]))
                continue
            if acyclic and pos[j] > pos[i]:
                continue
            if outs[j] and rng.chance(p_edge):
                ins += [o for o in outs[j] if rng.chance(0.7)] or [outs[j][0]]
        ins += [x for x in ("x0", "x1", "x2") if rng.chance(0.3)]
        l = {}
        for o in outs[i]:
            co = {}
            coupl = [v for v in ins if not v.startswith("x")]
            for v in ins:
                if v.startswith("x") or (acyclic and not contractive):
                    co[v] = rat(Fraction(rng.randint(-4, 4), 2))
                else:
                    # contraction: |coef| <= 1/(2*#couplings), dyadic
                    k = max(1, len(coupl))
                    den = 2
                    while den < 2 * k:
                        den *= 2
                    co[v] = rat(Fraction(rng.pick([-1, 0, 1, 1]), den))
            l[o] = [rat(Fraction(rng.randint(-4, 4), 2)), co]
        discs.append({"name": f"D{i}", "in": ins, "out": outs[i]})
        lin.append(l)
    allin = {v for d in discs for v in d["in"]}
    allout = {v for d in discs for v in d["out"]}
    ext = {x: rat(Fraction(rng.randint(-4, 4), 2)) for x in sorted(allin - allout) if rng.chance(0.85)}
    pre = []
    if rng.chance(0.4):
        for _ in range(rng.pick([1, 1, 2])):
            pre.append(dict(ext) if rng.chance(0.3) else {x: rat(Fraction(rng.randint(-4, 4), 2)) for x in ext})
    variant = [f for f in ("cs", "subcs", "twice", "alias", "deepcopy", "graphfirst") if rng.chance(0.2)]
    return {"discs": discs, "lin": lin, "ext": ext, "pre": pre, "variant": variant, "mode": "mda"}


def with_nodefault(rng: common.Rng, case) -> dict[str, Any]:
    """Remove the default values of some coupling inputs (the MDAChain must initialize them)."""
    c = dict(case)
    allout = {v for d in case["discs"] for v in d["out"]}
    c["nodefault"] = [[v for v in d["in"] if v in allout and rng.chance(0.5)] for d in case["discs"]]
    c["mode"] = "mdainit"
    if rng.chance(0.4):
        # disciplines sharing a name (the property quantifies over duplicated discipline names): the order of
        # initialization must treat them as distinct disciplines
        c["discs"] = [dict(d, name=rng.pick(["A", "B"])) for d in case["discs"]]
        c["dupnames"] = True
    return c


def sample_perms(rng: common.Rng, n: int, k: int) -> list[tuple[int, ...]]:
    if n <= 3:
        return list(itertools.permutations(range(n)))
    out = [tuple(range(n)), tuple(reversed(range(n)))]
    while len(out) < k:
        p = list(range(n))
        rng.shuffle(p)
        out.append(tuple(p))
    return out[:k]


# --------------------------------------------------------------------------- checking


def strip(case) -> dict[str, Any]:
    return {k: v for k, v in case.items() if k != "style"}


def graph_fails(case, key=None) -> list[tuple[str, str]]:
    try:
        obs = impl_observe_graph(case)
    except Exception as e:  # noqa: BLE001
        bad = [("graph-raises", f"CouplingStructure raised {e!r}"[:200])]
    else:
        bad = oracle_graph(case, obs)
    return [b for b in bad if key is None or b[0] == key]


def chain_fails(case, key=None) -> list[tuple[str, str]]:
    if not chain_in_scope(case):
        return []
    bad = oracle_chain(case, impl_observe_chain(case))
    return [b for b in bad if key is None or b[0] == key]


def shrink_case(case, fails) -> dict[str, Any]:
    """Greedy shrinking: drop disciplines, then names, while `fails(case)` keeps holding."""
    cur = strip(case)
    changed = True
    budget = 150
    while changed and budget > 0:
        changed = False
        for i in range(len(cur["discs"])):
            cand = dict(cur)
            for key in ("discs", "lin", "nodefault"):
                if cur.get(key) is not None:
                    cand[key] = cur[key][:i] + cur[key][i + 1 :]
            budget -= 1
            try:
                if cand["discs"] and fails(cand):
                    cur, changed = cand, True
                    break
            except Exception:  # noqa: BLE001
                pass
        if changed:
            continue
        for i, d in enumerate(cur["discs"]):
            for side in ("in", "out"):
                for v in d[side]:
                    cand = json.loads(json.dumps(cur))
                    cand["discs"][i][side] = [w for w in d[side] if w != v]
                    if cand["discs"][i].get("states"):
                        cand["discs"][i]["states"] = [w for w in cand["discs"][i]["states"] if w != v]
                    if cand.get("lin") is not None:
                        if side == "out":
                            cand["lin"][i].pop(v, None)
                        else:
                            for o in cand["lin"][i].values():
                                o[1].pop(v, None)
                    if cand.get("nodefault") is not None and side == "in":
                        cand["nodefault"][i] = [w for w in cand["nodefault"][i] if w != v]
                    budget -= 1
                    try:
                        if fails(cand):
                            cur, changed = cand, True
                            break
                    except Exception:  # noqa: BLE001
                        pass
                if changed:
                    break
            if changed:
                break
    return cur


def neighbours(case):
    """Neighbours of a case for the failing-input search: disciplines dropped / swapped / duplicated,
    names dropped, other modes."""
    n = len(case["discs"])
    base = strip(case)
    for i in range(n):
        c = dict(base)
        for key in ("discs", "lin", "nodefault"):
            if base.get(key) is not None:
                c[key] = base[key][:i] + base[key][i + 1 :]
        if c["discs"]:
            yield c
    for i in range(n - 1):
        perm = list(range(n))
        perm[i], perm[i + 1] = perm[i + 1], perm[i]
        yield permuted(base, perm)
    if n > 1:
        yield permuted(base, list(reversed(range(n))))
    for i, d in enumerate(base["discs"]):
        for side in ("in", "out"):
            for v in d[side]:
                c = json.loads(json.dumps(base))
                c["discs"][i][side] = [w for w in d[side] if w != v]
                if c["discs"][i].get("states"):
                    c["discs"][i]["states"] = [w for w in c["discs"][i]["states"] if w != v]
                if c.get("lin") is not None:
                    if side == "out":
                        c["lin"][i].pop(v, None)
                    else:
                        for o in c["lin"][i].values():
                            o[1].pop(v, None)
                yield c
    if "mode" in base:
        for m in CHAIN_MODES:
            if m != base["mode"] and not (m == "mdainit" and not base.get("nodefault")):
                c = dict(base)
                c["mode"] = m
                yield c


def run_driver(lines, procs: int = 1) -> list[str]:
    """The Lean driver on the protocol lines; large batches are split over several driver processes
    (the interpreter handles ~250 lines/s on this model)."""
    if procs <= 1 or len(lines) < 400:
        return common.run_lean_driver(PID, lines)
    from concurrent.futures import ThreadPoolExecutor

    size = max(200, -(-len(lines) // (procs * 2)))
    chunks = [lines[i : i + size] for i in range(0, len(lines), size)]
    common.run_lean_driver(PID, lines[:1])  # builds the model once, under the lake lock
    with ThreadPoolExecutor(max_workers=procs) as ex:
        parts = list(ex.map(lambda c: common.run_lean_driver(PID, c), chunks))
    return [x for part in parts for x in part]


def _graph_worker(cases):
    common.quiet_gemseo()
    out = []
    for case in cases:
        try:
            obs = impl_observe_graph(case)
            out.append((obs["line"], oracle_graph(case, obs)))
        except Exception as e:  # noqa: BLE001
            out.append((common.exc_class(e), [("graph-raises", f"CouplingStructure raised {e!r}"[:200])]))
    return out


def _chain_worker(cases):
    common.quiet_gemseo()
    out = []
    for case in cases:
        obs = impl_observe_chain(case)
        bad = oracle_chain(case, obs) if chain_in_scope(case) else []
        out.append((obs["line"], bad, order_impl(case) if case["mode"] == "mdainit" else None))
    return out


def _pmap(worker, cases, procs: int):
    if procs <= 1 or len(cases) < 64:
        return worker(cases)
    import multiprocessing as mp

    size = max(16, len(cases) // (procs * 8))
    chunks = [cases[i : i + size] for i in range(0, len(cases), size)]
    with mp.get_context("fork").Pool(procs) as pool:
        parts = pool.map(worker, chunks)
    return [x for part in parts for x in part]


def check_graph_cases(res: Result, cases, procs: int = 1, tag: str = "random") -> None:
    if not cases:
        return
    lines = [graph_line(c) for c in cases]
    model = run_driver(lines, procs)
    impl = _pmap(_graph_worker, cases, procs)
    for case, line, m, (il, bad) in zip(cases, lines, model, impl):
        res.evaluations += 1
        n = len(case["discs"])
        e = edges_of(case["discs"])
        res.count(f"graph:{tag}")
        res.count(f"graph:n={min(n, 10)}")
        cyc = has_cycle(case["discs"])
        res.count("graph:cyclic" if cyc else "graph:acyclic")
        if "style" in case:
            res.count(f"graph:style={case['style']}")
        if n >= 2 and e:
            res.nontrivial(line)
        if tag != "exhaustive" or res.evaluations % 997 == 0:
            res.sample({"protocol_line": line, "impl": il, "model": m})
        for key, msg in bad:
            res.count("oracle-fail:" + key)
            if _have(res, key):
                continue
            small = shrink_case(case, lambda c, key=key: bool(graph_fails(c, key)))
            res.violate("oracle", key, msg, {"stream": "graph", "case": small, "impl": _safe(lambda: impl_observe_graph(small)["line"])})
        if il != m:
            res.disagreements += 1
            found = False
            for nb in neighbours(case) if (not bad and _search_allowed(res)) else ():
                b2 = graph_fails(nb)
                if b2:
                    key, msg = b2[0]
                    small = shrink_case(nb, lambda c, key=key: bool(graph_fails(c, key)))
                    res.violate("oracle", key, msg, {"stream": "graph", "case": small, "impl": _safe(lambda: impl_observe_graph(small)["line"])})
                    found = True
                    break
            if not found and not bad and not _have_any(res):
                res.violate(
                    "correspondence",
                    "graph-model-vs-impl",
                    "CouplingStructure and the Lean model disagree on a set of disciplines (no property-violating input found among its neighbours)",
                    {"stream": "graph", "case": strip(case), "protocol_line": line, "impl": il, "model": m, "correspondence": "Driver/C08.lean `seq`"},
                )
        else:
            res.traces_validated += 1


def _have(res: Result, key: str) -> bool:
    return any(v.kind == "oracle" and v.key == key for v in res.violations)


def _have_any(res: Result) -> bool:
    return any(v.kind == "oracle" for v in res.violations)


def _search_allowed(res: Result) -> bool:
    """The failing-input search around a model/implementation disagreement is run for the first few
    disagreements only, and not at all once a property-violating input is already in hand."""
    if any(v.kind == "oracle" for v in res.violations):
        return False
    n = res.extra.get("failing_input_searches", 0)
    res.extra["failing_input_searches"] = n + 1
    return n < 6


def _safe(f):
    try:
        return f()
    except Exception as e:  # noqa: BLE001
        return f"raised {e!r}"[:200]


def check_chain_cases(res: Result, cases, procs: int = 1) -> None:
    if not cases:
        return
    lines = [chain_line(c) for c in cases]
    ilines = [init_line(c) for c in cases if c["mode"] == "mdainit"]
    model_all = run_driver(lines + ilines, procs)
    model, imodel = model_all[: len(lines)], iter(model_all[len(lines) :])
    impl = _pmap(_chain_worker, cases, procs)
    for case, line, m, (il, bad, order) in zip(cases, lines, model, impl):
        res.evaluations += 1
        mode = case["mode"]
        n = len(case["discs"])
        scope = chain_in_scope(case)
        cyc = has_cycle(case["discs"])
        res.count(f"chain:mode={mode}")
        res.count(f"chain:n={n}")
        res.count("chain:" + ("in-scope" if scope else "probe") + (":cyclic" if cyc else ":acyclic"))
        res.count(f"chain:earlier-executions={len(case.get('pre') or [])}")
        for f in case.get("variant") or []:
            res.count(f"chain:variant={f}")
        if n >= 2:
            res.nontrivial(line + "#" + mode)
        res.sample({"protocol_line": line, "mode": mode, "impl": il, "model": m}, cap=8)
        for key, msg in bad:
            res.count("oracle-fail:" + key)
            if _have(res, key):
                continue
            small = shrink_case(case, lambda c, key=key: bool(chain_fails(c, key)))
            res.violate("oracle", key, msg, {"stream": "chain", "case": small, "impl": impl_observe_chain(small)["line"]})
        agree = same_chain_line(il, m, exact=not cyc)
        if mode == "mdainit":
            im = next(imodel)
            for key, msg in oracle_order(case, order):
                res.count("oracle-fail:" + key)
                if _have(res, key):
                    continue
                small = shrink_case(case, lambda c, key=key: any(k == key for k, _ in oracle_order(c, order_impl(c))))
                res.violate("oracle", key, msg, {"stream": "init-order", "case": small, "impl": order_impl(small)})
            if order != im:
                res.disagreements += 1
                if not oracle_order(case, order):
                    res.violate(
                        "correspondence", "init-order-model-vs-impl",
                        "order_disciplines_from_default_inputs and the Lean model disagree (the returned order is still a valid one)",
                        {"stream": "init-order", "case": strip(case), "protocol_line": init_line(case), "impl": order, "model": im,
                         "correspondence": "Driver/C08.lean `init`"},
                    )
            else:
                res.traces_validated += 1
            if not scope:
                # the initialization is impossible: the chain is expected to fail, nothing to compare
                res.count("chain:mdainit-infeasible")
                continue
        if not agree:
            if not scope:
                res.count("chain:probe-disagreement")
                res.notes.append(f"out-of-scope probe disagreement: impl={il} model={m} line={line}"[:400])
                continue
            res.disagreements += 1
            found = bool(bad) or _have_any(res)
            if not found and _search_allowed(res):
                for nb in neighbours(case):
                    b2 = chain_fails(nb)
                    if b2:
                        key, msg = b2[0]
                        small = shrink_case(nb, lambda c, key=key: bool(chain_fails(c, key)))
                        res.violate("oracle", key, msg, {"stream": "chain", "case": small, "impl": impl_observe_chain(small)["line"]})
                        found = True
                        break
            if not found:
                res.violate(
                    "correspondence",
                    f"chain-model-vs-impl-{mode}",
                    f"the {mode} chain and the Lean model disagree (grammars or data) although the system's solution is returned",
                    {"stream": "chain", "case": strip(case), "protocol_line": line, "impl": il, "model": m, "correspondence": "Driver/C08.lean `chain`"},
                )
        else:
            res.traces_validated += 1


# --------------------------------------------------------------------------- nested processes (oracle only)


def gen_nested(rng: common.Rng, case) -> dict[str, Any]:
    """A process discipline inside the MDAChain: a pre-built inner MDA for one non-trivial group, an MDOChain
    of one whole group (a self-coupled process: its grammars show the fed-back names as inputs and outputs,
    the MDAChain has to iterate it), or an MDOChain of a prefix of the disciplines (the composition must
    still be the whole system)."""
    c = strip(case)
    c["mode"] = "nested"
    c["pre"], c["variant"] = [], []
    n = len(c["discs"])
    sccs = [sorted(x) for x in tarjan(n, edges_of(c["discs"])) if len(x) > 1]
    if sccs and rng.chance(0.5):
        c["nest"] = {"kind": "premda", "group": rng.pick(sccs), "inner": rng.pick(["MDAJacobi", "MDAGaussSeidel"]),
                     "pos": rng.randint(0, n), "par": rng.chance(0.3)}
    elif sccs:
        g = list(rng.pick(sccs))
        if rng.chance(0.5):
            g.reverse()
        c["nest"] = {"kind": "selfchain", "group": g, "pos": rng.randint(0, n), "par": rng.chance(0.3)}
    else:
        c["nest"] = {"kind": "subchain", "k": rng.randint(1, max(1, n - 1)), "rev": rng.chance(0.5), "par": rng.chance(0.3)}
    return c


def nest_line(case, items: str) -> str:
    """Protocol line of a nested case; `items` = the listing given to the MDAChain (`P3/C0,1/M2,4`)."""
    toks = [lin_token(d, l) for d, l in zip(case["discs"], case["lin"])]
    ext = [f"{k}={v}" for k, v in case["ext"].items()]
    return f"nest {int(bool(case['nest'].get('par')))} {items} " + " ".join(toks) + " | " + " ".join(ext)


def impl_observe_nested(case) -> dict[str, Any]:
    import numpy as np
    from gemseo.core.chains.chain import MDOChain
    from gemseo.core.coupling_structure import CouplingStructure
    from gemseo.mda.factory import MDAFactory
    from gemseo.mda.mda_chain import MDAChain

    ds = build_lin_discs(case)
    nest = case["nest"]
    obs: dict[str, Any] = {}
    try:
        if nest["kind"] in ("premda", "selfchain"):
            g = nest["group"]
            if nest["kind"] == "premda":
                inner = MDAFactory().create(nest["inner"], [ds[i] for i in g], tolerance=1e-14, max_mda_iter=200)
                tok = ("G" if nest["inner"] == "MDAGaussSeidel" else "M") + ",".join(map(str, g))
            else:
                inner = MDOChain([ds[i] for i in g])
                tok = "C" + ",".join(map(str, g))
            rest = [i for i in range(len(ds)) if i not in g]
            pos = min(nest["pos"], len(rest))
            top = [ds[i] for i in rest[:pos]] + [inner] + [ds[i] for i in rest[pos:]]
            items = [f"P{i}" for i in rest[:pos]] + [tok] + [f"P{i}" for i in rest[pos:]]
        else:
            k = min(nest["k"], len(ds))
            seq = [d for st in CouplingStructure(ds[:k]).sequence for grp in st for d in grp]
            top = [MDOChain(seq), *ds[k:]]
            items = ["C" + ",".join(str(_idx(ds, d)) for d in seq)] + [f"P{i}" for i in range(k, len(ds))]
            if nest["rev"]:
                top = top[::-1]
                items = items[::-1]
        obs["items"] = "/".join(items)
        ch = MDAChain(top, tolerance=1e-14, max_mda_iter=200, mdachain_parallelize_tasks=bool(nest.get("par")))
        inp = {k_: np.array([float(Fraction(v))]) for k_, v in case["ext"].items() if k_ in ch.io.input_grammar}
        data = ch.execute(inp)
        vals = {}
        for k_ in data:
            v = np.atleast_1d(data[k_])
            if k_ != RESIDUAL_NAME and v.size == 1:
                vals[k_] = F(float(v[0])) if np.isfinite(v[0]) else None
        obs["val"] = vals
        obs["line"] = "val=" + ",".join(f"{k_}={'nan' if v is None else rat(v)}" for k_, v in sorted(vals.items()))
        # the view compared with the Lean model (Driver/C08.lean `nest`)
        ins = sorted(ch.io.input_grammar)
        outs = sorted(n_ for n_ in ch.io.output_grammar if n_ != RESIDUAL_NAME)
        groups = [tuple(_idx(top, d) for d in mda.disciplines) for mda in ch.inner_mdas]
        mdas = ";".join(",".join(map(str, g_)) for g_ in sorted(groups, key=lambda g_: (min(g_), g_))) or "[]"
        shown = {k_: vals.get(k_) for k_ in sorted(set(ins) | set(outs)) if k_ in vals}
        obs["mline"] = f"in={names(ins)} out={names(outs)} mdas={mdas} flow=- val=" + (
            ",".join(f"{k_}={'nan' if v is None else rat(v)}" for k_, v in shown.items()) or "[]"
        )
    except Exception as e:  # noqa: BLE001
        obs["exc"] = common.exc_class(e)
        obs["exc_text"] = repr(e)[:200]
        obs["line"] = obs["exc"]
    return obs


def nested_fails(case, key=None):
    ys = [o for d in case["discs"] for o in d["out"]]
    if len(set(ys)) != len(ys):
        return []
    if case["nest"]["kind"] in ("premda", "selfchain"):
        g = case["nest"]["group"]
        n = len(case["discs"])
        if not all(i < n for i in g) or not any(set(c) == set(g) for c in tarjan(n, edges_of(case["discs"]))):
            return []  # (after shrinking) the wrapped disciplines are no longer a whole group
    # wrapping disciplines into one process can create a cycle between processes that the disciplines do not
    # have (the sub-chain needs an output of a later discipline that needs one of its outputs): an inner MDA
    # then iterates, so the nested stream is always compared on the rounded stream
    bad = oracle_chain(case, impl_observe_nested(case), exact=False)
    return [b for b in bad if key is None or b[0] == key]


def _nested_worker(cases):
    common.quiet_gemseo()
    out = []
    for c in cases:
        obs = impl_observe_nested(c)
        out.append((obs["line"], nested_fails(c), obs.get("items"), obs.get("mline")))
    return out


def check_nested_cases(res: Result, cases, procs: int = 1) -> None:
    impl = _pmap(_nested_worker, cases, procs)
    # correspondence: the listing of items the harness formed, answered by the Lean model
    with_line = [(i, nest_line(c, r[2])) for i, (c, r) in enumerate(zip(cases, impl)) if r[2] is not None and r[3] is not None]
    model = dict(zip((i for i, _ in with_line), run_driver([l for _, l in with_line], procs)))
    for i, (case, (il, bad, items, mline)) in enumerate(zip(cases, impl)):
        res.evaluations += 1
        res.count(f"nested:{case['nest']['kind']}")
        if len(case["discs"]) >= 2:
            res.nontrivial("nested#" + chain_line({**case, "mode": "mda"}) + json.dumps(case["nest"], sort_keys=True))
        for key, msg in bad:
            res.count("oracle-fail:" + key)
            if _have(res, key):
                continue
            small = case  # the nesting refers to positions: reported as generated
            res.violate("oracle", key, msg, {"stream": "nested", "case": small, "impl": il})
        if i not in model:
            res.count("nested:no-model-line")
            continue
        ys = [o for d in case["discs"] for o in d["out"]]
        if len(set(ys)) != len(ys):
            res.count("nested:probe")
            continue
        m = model[i]
        if same_chain_line(mline, m, exact=False):
            res.traces_validated += 1
            res.count("nested:model-agrees")
            continue
        res.disagreements += 1
        res.count("nested:model-disagrees")
        if bad or _have_any(res):
            continue
        line = dict(with_line)[i]
        # the oracle (whole system at once) holds on this case: is the difference one of inner MDAs (a
        # self-coupled item executed once / a pre-built MDA wrapped again) visible on another input?
        found = False
        if _search_allowed(res):
            for nb in nested_neighbours(case):
                b2 = nested_fails(nb)
                if b2:
                    key, msg = b2[0]
                    res.violate("oracle", key, msg, {"stream": "nested", "case": nb, "impl": impl_observe_nested(nb)["line"]})
                    found = True
                    break
        if not found:
            res.violate(
                "correspondence", "nested-model-vs-impl",
                "the MDAChain over process disciplines and the Lean model disagree (grammars, inner MDAs or data) although the system's solution is returned",
                {"stream": "nested", "case": case, "protocol_line": line, "impl": mline, "model": m, "correspondence": "Driver/C08.lean `nest`"},
            )


def nested_neighbours(case):
    """Other external inputs for the same nested system (a wrong inner-MDA decision can be invisible at a
    point where one sweep already is the solution)."""
    for s in (1, 2, 3):
        c = json.loads(json.dumps(case))
        c["ext"] = {k: rat(Fraction(v) + Fraction(s * (j + 1), 2)) for j, (k, v) in enumerate(sorted(c["ext"].items()))}
        yield c


def load_corpus() -> list[dict[str, Any]]:
    d = common.CORPUS_DIR / PID
    out = []
    if d.is_dir():
        for p in sorted(d.glob("*.json")):
            out.append(json.loads(p.read_text())["case"])
    return out


def run(ctx) -> Result:
    import time

    res = Result(PID)
    res.rule = (
        "graph stream: every labelled digraph with self-loops on <= 3 (quick) / <= 4 (thorough) disciplines realised with names "
        "(= all listing orders), variants with external inputs / output-less disciplines / reversed name order, random sets of up to 12 "
        "disciplines (shared names, duplicated discipline names, duplicated outputs, isolated disciplines, long paths) x listing "
        "permutations; chain stream: random well-posed affine systems (acyclic exact, cyclic contractive) x listing permutations x "
        "modes (MDOChain in listing order, MDOChain of the sequence, MDAChain Jacobi / Gauss-Seidel / parallel tasks / initialize_defaults) x "
        "histories (earlier executions, aliased input dict, process built twice, pre-built coupling structures); nested stream: a pre-built "
        "inner MDA, an MDOChain of a whole group of mutually dependent disciplines (a self-coupled process) or an MDOChain of a "
        "prefix as a discipline of the MDAChain (oracle + Lean model `nestedEval`: grammars, inner MDAs, data). "
        "A graph case is non-trivial when it has >= 2 disciplines and >= 1 edge, a chain case when it has >= 2 disciplines; distinct by protocol line"
    )
    res.assumptions = [
        "names are [a-z0-9_]+ (sorted() on str = lexicographic order on code points in the model)",
        "state variables (residual_to_state_variable) are exercised in the graph stream only (DummyDiscipline); a name fed back by a "
        "discipline to itself is not a self-coupling when it is one of its state variables",
        "chain stream: every output is computed by exactly one discipline; cyclic systems are contractive (inner MDA converges); "
        "values of cyclic systems are compared up to 2^-30 relative (rounded stream), acyclic ones exactly",
    ]
    rng = ctx.rng
    procs = 14 if ctx.thorough else 6

    # corpus first
    for c in load_corpus():
        if c.get("mode") == "nested":
            check_nested_cases(res, [c], 1)
        else:
            (check_chain_cases if "mode" in c else check_graph_cases)(res, [c], 1, *(() if "mode" in c else ("corpus",)))
        res.count("corpus")

    # exhaustive small graphs
    ex = []
    for n in (0, 1, 2, 3):
        for code in range(2 ** (n * n)):
            ex.append(labelled_graph(n, code))
    for n in (1, 2):
        for code in range(2 ** (n * n)):
            for eb in range(2**n):
                for nb in range(2**n):
                    if eb or nb:
                        ex.append(labelled_graph(n, code, "asc", eb, nb))
    for n in (1, 2, 3):
        for code in range(2 ** (n * n)):
            loops = sum(1 << i for i in range(n) if (code >> (i * n + i)) & 1)
            sb = loops
            while sb:  # every non-empty subset of the self-loops declared as state variables
                ex.append(labelled_graph(n, code, "asc", 0, 0, sb))
                sb = (sb - 1) & loops
    for code in range(512):
        ex.append(labelled_graph(3, code, "desc", rng.randrange(8), 0))
        ex.append(labelled_graph(3, code, "asc", rng.randrange(8), rng.randrange(8)))
    if ctx.thorough:
        for code in range(2**16):
            ex.append(labelled_graph(4, code))
        for _ in range(8000):
            ex.append(labelled_graph(4, rng.randrange(2**16), rng.pick(["asc", "desc"]), rng.randrange(16), rng.randrange(16)))
    for c in ex:
        c["qseed"] = rng.randrange(1 << 30)
    check_graph_cases(res, ex, procs, "exhaustive")
    res.exhaustive = True
    res.extra["exhaustive_scope"] = "all labelled digraphs with self-loops on <= %d disciplines" % (4 if ctx.thorough else 3)

    # random graphs x listing permutations
    n_rand = 4000 if ctx.thorough else 250
    cases = []
    for _ in range(n_rand):
        g = gen_graph(rng, 12 if ctx.thorough else 9)
        for perm in sample_perms(rng, len(g["discs"]), 3):
            c = permuted(g, perm)
            c["qseed"] = rng.randrange(1 << 30)
            cases.append(c)
    check_graph_cases(res, cases, procs, "random")

    # chains
    n_sys = 1500 if ctx.thorough else 60
    cases = []
    for _ in range(n_sys):
        s = gen_system(rng, 7 if ctx.thorough else 6)
        perms = sample_perms(rng, len(s["discs"]), 2)
        rng.shuffle(perms)
        for perm in perms[:2]:
            p = permuted(s, perm)
            modes = ["mdo", "mda", rng.pick(["mdapar", "mdags"])]
            if not has_cycle(p["discs"]):
                modes.append("seqchain")
            for m in modes:
                c = dict(p)
                c["mode"] = m
                cases.append(c)
            if rng.chance(0.5):
                cases.append(with_nodefault(rng, p))
        if time.time() > ctx.deadline:
            break
    check_chain_cases(res, cases, procs)

    # process disciplines nested in the MDAChain (oracle only)
    nested = []
    for _ in range(900 if ctx.thorough else 80):
        sys_ = gen_system(rng, 6, contractive=True)
        if rng.chance(0.6):
            # mostly systems with a group of mutually dependent disciplines (pre-built MDA / self-coupled chain)
            for _retry in range(10):
                if any(len(x) > 1 for x in tarjan(len(sys_["discs"]), edges_of(sys_["discs"]))):
                    break
                sys_ = gen_system(rng, 6, contractive=True)
        nested.append(gen_nested(rng, sys_))
    check_nested_cases(res, nested, procs)
    return res


def replay(path: str) -> int:
    data = json.loads(open(path).read())
    rp = data["replay"]
    case = rp.get("case")
    if case is None:
        print(json.dumps(rp, indent=1))
        return 1
    stream = rp.get("stream", "chain" if "mode" in case else "graph")
    if stream == "nested":
        obs = impl_observe_nested(case)
        print("impl: ", obs["line"], obs.get("exc_text", ""))
        print("whole system at once:", {k: str(v) for k, v in (monolithic(case) or {}).items()})
        bad = oracle_chain(case, obs, exact=False)
    elif stream == "graph":
        try:
            obs = impl_observe_graph(case)
            print("impl: ", obs["line"])
            bad = oracle_graph(case, obs)
        except Exception as e:  # noqa: BLE001
            print("impl raised", repr(e))
            bad = [("graph-raises", repr(e))]
        print("model:", common.run_lean_driver(PID, [graph_line(case)])[0])
    elif stream == "init-order":
        got = order_impl(case)
        print("impl: ", got)
        print("model:", common.run_lean_driver(PID, [init_line(case)])[0])
        bad = oracle_order(case, got)
    else:
        obs = impl_observe_chain(case)
        print("impl: ", obs["line"], obs.get("exc_text", ""))
        print("model:", common.run_lean_driver(PID, [chain_line(case)])[0])
        print("whole system at once:", {k: str(v) for k, v in (monolithic(case) or {}).items()})
        bad = oracle_chain(case, obs) if chain_in_scope(case) else []
    for k, m in bad:
        print("ORACLE FAILS:", k, m)
    if not bad and data.get("kind") == "correspondence":
        print("oracle holds; correspondence replay:", rp.get("protocol_line"), "| expected(model):", rp.get("model"), "| observed(impl):", rp.get("impl"))
    return 1 if bad else 0
