"""C14 — process histories: generations by DIFFERENT algorithms and library objects, one after the other, in ONE process.

"The same algorithm, settings and seed always generate the same samples" — whatever was generated before *in the
process*: by the same library object, by another object of the same algorithm, by another algorithm of the same
library (the OpenTURNS algorithms share the process-wide ``RandomGenerator`` and are multitons), by another
library, in the same dimension or another one, with more or fewer samples.

A *history* is a list of steps ``{"space", "req", "mode", "lib"}`` (``mode``: ``compute`` / ``unit`` /
``exec``; the same ``lib`` label = the same library object).  It is run, steps in order, in a process that has
sampled nothing before (a child of the fork server of ``harness/c14_fresh.py``), so that a history is a
self-contained, replayable input.  Every step is judged by the oracle of ``harness/c14.py`` with

* ``x3`` = what the same request (effective seed made explicit) returns when it is the FIRST generation of a
  process (another child of the server: a history of length 1),
* ``u``  = the unit samples of that request in yet another pristine process — for the five OpenTURNS
  low-discrepancy sequences: the points of ``openturns.<Sequence>(dimension).generate(n)`` computed directly with
  the third-party library (independent of GEMSEO),

and compared with the Lean model of the process (``Driver/C14.lean`` ``proc``: ``Proc.run``, in which the state of
the process — the OpenTURNS generator — is proved unobservable) followed by the model of the pipeline (``doe``).
"""

from __future__ import annotations

import copy
import json
import time
from fractions import Fraction
from typing import Any

import numpy as np

from harness import c14 as B
from harness import c14_session as S
from harness import common
from harness.c14_fresh import FreshServer
from harness.c14_fresh import FreshUnavailable

SERVER = FreshServer()

OT_SEQ = {"OT_HALTON": "HaltonSequence", "OT_SOBOL": "SobolSequence", "OT_FAURE": "FaureSequence",
          "OT_HASELGROVE": "HaselgroveSequence", "OT_REVERSE_HALTON": "ReverseHaltonSequence"}
OT_GLOBAL = ["OT_MONTE_CARLO", "OT_RANDOM", "OT_LHS", "OT_LHSC", "OT_OPT_LHS", "OT_SOBOL_INDICES"]
ENGINE = ["MC", "LHS", "Halton", "Sobol", "PoissonDisk", "PYDOE_LHS"]
QMC_MIX = [*OT_SEQ, "Halton", "Sobol", "LHS", "OT_LHS", "OT_LHSC", "PYDOE_LHS", "MC"]
THEMES = ["ot-sequences"] * 4 + ["qmc-mix"] * 2 + ["ot-global"] * 2 + ["same-algorithm"] * 2 + ["any"] * 3
MAX_RESTARTS = 2


def source_of(algo: str) -> str:
    if algo in OT_SEQ:
        return "seq"
    if algo in OT_GLOBAL:
        return "glob"
    if algo in ENGINE:
        return "eng"
    return "closed"


# --------------------------------------------------------------------------- generation


def gen_history(rng: common.Rng, stream: str) -> dict[str, Any]:
    theme = rng.pick(THEMES)
    dim = rng.randint(1, 4)
    base = B.gen_space(rng, dim, stream)
    in_scope = [a for a in B.IN_SCOPE if B.ALGOS[a].get("min_dim", 1) <= dim]
    if theme == "ot-sequences":
        algos = list(OT_SEQ)
        rng.shuffle(algos)
        algos += [rng.pick(list(OT_SEQ)) for _ in range(rng.randint(0, 2))]
    elif theme == "qmc-mix":
        algos = [rng.pick(QMC_MIX) for _ in range(rng.randint(4, 6))]
    elif theme == "ot-global":
        algos = [rng.pick(OT_GLOBAL + list(OT_SEQ)) for _ in range(rng.randint(4, 6))]
    elif theme == "same-algorithm":
        algos = [rng.pick([a for a in in_scope if B.ALGOS[a]["seed"] is not None])] * rng.randint(3, 5)
    else:
        algos = [rng.pick(in_scope) for _ in range(rng.randint(3, 6))]
    steps: list[dict[str, Any]] = []
    n_max = 0
    for i, algo in enumerate(algos):
        if rng.chance(0.78):
            space = base
        elif theme == "any" and rng.chance(0.3):
            space = B.gen_space(rng, rng.randint(max(1, B.ALGOS[algo].get("min_dim", 1)), 4), stream)
        else:
            space = B.gen_space(rng, dim, stream)
        mode = rng.pick(["compute"] * 11 + ["unit"] * 5 + ["exec"] * 4)
        if algo == "CustomDOE" and mode == "unit":
            mode = "compute"
        op = None
        want_small = n_max > 0 and rng.chance(0.65)  # at most as many points as the longest generation so far
        for _ in range(8):
            cand = S.gen_doe(rng, algo, space, mode)
            if cand is None:
                break
            if op is None:
                op = cand
            if (cand["req"]["n"] <= n_max) == want_small:
                op = cand
                break
        if op is None:
            continue
        req = op["req"]
        n_max = max(n_max, req["n"])
        label = f"L{i}"
        same = [s["lib"] for s in steps if s["req"]["algo"] == algo]
        if same and rng.chance(0.3):
            label = rng.pick(same)  # the same library object again
        steps.append({"space": space, "req": req, "mode": mode, "lib": label})
    return {"steps": steps, "theme": theme, "stream": stream}


def valid_history(hist) -> bool:
    if not hist["steps"]:
        return False
    algo_of: dict[str, str] = {}
    for st in hist["steps"]:
        space, req = st["space"], st["req"]
        if algo_of.setdefault(st["lib"], req["algo"]) != req["algo"]:
            return False
        if B.ALGOS[req["algo"]].get("scope", "in") != "in" or not space["vars"] or not B.valid_request(space, req):
            return False
        if B.documented_count(space, req)[1] is None or B.count_key(space, req) != "count":
            return False
        if st["mode"] == "unit" and req["algo"] == "CustomDOE":
            return False
    return True


def effective_requests(hist) -> list[dict[str, Any]]:
    """The request of every step with the seed it effectively uses made explicit (Seeder documentation: a
    library object without explicit seed uses `number of its earlier seeded generations + 1`)."""
    calls: dict[str, int] = {}
    out = []
    for st in hist["steps"]:
        req = st["req"]
        if B.ALGOS[req["algo"]]["seed"] is None:
            out.append(req)
            continue
        k = calls.get(st["lib"], 0)
        out.append(dict(req, seed=req["seed"] if req.get("seed") is not None else k + 1))
        calls[st["lib"]] = k + 1
    return out


# --------------------------------------------------------------------------- running and judging


def arr(x) -> np.ndarray:
    """2-D float array of a JSON matrix (an empty matrix has shape (0, 0))."""
    a = np.array(x, dtype=float)
    if a.ndim != 2:
        a = a.reshape(len(x), -1) if len(x) else a.reshape(0, 0)
    return a


def openturns_sequence(algo: str, dim: int, n: int) -> np.ndarray:
    """The points of the third-party sequence itself (a new OpenTURNS object; GEMSEO is not involved)."""
    import openturns as ot

    return np.array(getattr(ot, OT_SEQ[algo])(dim).generate(n))


def run_history(hist) -> dict[str, Any]:
    return run_histories([hist])[0]


def run_histories(hists) -> list[dict[str, Any]]:
    """Observations: each history in one pristine process, and every step alone in its own pristine process
    (twice when the unit samples are needed too).  One batch for the fork server."""
    jobs: list[list[dict[str, Any]]] = []
    plans = []
    for hist in hists:
        steps = [{k: st[k] for k in ("space", "req", "mode", "lib")} for st in hist["steps"]]
        effs = effective_requests(hist)
        plan = {"hist": len(jobs), "refs": [], "urefs": [], "effs": effs}
        jobs.append(steps)
        for st, req_eff in zip(hist["steps"], effs):
            one = {"space": st["space"], "req": req_eff, "lib": "R"}
            plan["refs"].append(len(jobs))
            jobs.append([dict(one, mode=st["mode"])])
            if req_eff["algo"] == "CustomDOE" or (req_eff["algo"] in OT_SEQ and st["mode"] != "unit"):
                plan["urefs"].append(None)  # no unit design / the third-party sequence itself is the reference
            elif st["mode"] == "unit":
                plan["urefs"].append(plan["refs"][-1])
            else:
                plan["urefs"].append(len(jobs))
                jobs.append([dict(one, mode="unit")])
        plans.append(plan)
    answers = SERVER.run_many(jobs)
    out = []
    for plan in plans:
        out.append({"obs": answers[plan["hist"]], "refs": [answers[k][0] for k in plan["refs"]],
                    "urefs": [None if k is None else answers[k][0] for k in plan["urefs"]], "effs": plan["effs"]})
    return out


def describe(hist, i: int) -> str:
    def one(st):
        r = st["req"]
        return f"{r['algo']}(n={r['n']}, seed={r.get('seed')}, d={B.space_dim(st['space'])}, {st['mode']})"

    before = ", ".join(one(st) for st in hist["steps"][:i]) or "nothing"
    return f"{one(hist['steps'][i])} after [{before}] in one process"


def judge_step(hist, run, i: int) -> list[tuple[str, str]]:
    st = hist["steps"][i]
    space, mode = st["space"], st["mode"]
    req_eff = run["effs"][i]
    algo = req_eff["algo"]
    o, ref, uref = run["obs"][i], run["refs"][i], run["urefs"][i]
    tag = f"[{describe(hist, i)}] "
    if o["exc"] is not None:
        return [("valid-request-rejected", tag + f"a request inside the quantifier raised {o['exc']}")]
    if ref["exc"] is not None or (uref is not None and uref["exc"] is not None):
        return [("valid-request-rejected", tag + f"the same request raised {ref['exc'] or uref['exc']} as the first generation of a process")]
    d = B.space_dim(space)
    x = arr(o["x"])
    direct = openturns_sequence(algo, d, req_eff["n"]) if algo in OT_SEQ else None
    bad: list[tuple[str, str]] = []
    if mode == "unit":
        xr = arr(ref["x"])
        if x.ndim != 2 or x.shape[1] != d or not B.finite(x):
            return [("shape", tag + f"unit samples of shape {x.shape} in dimension {d}")]
        if not all(0 <= t <= 1 for row in B.fmat(x) for t in row):
            bad.append(("unit-design-outside-hypercube", tag + "unit samples outside [0,1]"))
        if not (xr.shape == x.shape and np.array_equal(xr, x)):
            bad.append(("not-reproducible", tag + "the unit samples differ from those the same algorithm, settings and seed "
                        f"generate as the first generation of a process: {x[:2].tolist()} instead of {xr[:2].tolist()}"))
        if direct is not None and not (direct.shape == x.shape and np.array_equal(direct, x)):
            bad.append(("not-reproducible", tag + f"the unit samples are not the points of openturns.{OT_SEQ[algo]}({d}).generate({req_eff['n']})"))
        return dedupe(bad)
    u = direct if direct is not None else (None if uref is None else arr(uref["x"]))
    ob = {"exc": None, "exc_msg": None, "x1": x, "x2": x, "x3": arr(ref["x"]), "u": u,
          "names": [v["name"] for v in space["vars"]], "dict0": None, "x4": None, "x4_exc": None}
    if mode == "exec":
        ob.update({"exec_exc": None, "xs": x, "us": arr(o["us"]), "db": [np.array(k, dtype=float) for k in o["db"]]})
        if direct is not None and not (direct.shape == ob["us"].shape and np.array_equal(direct, ob["us"])):
            bad.append(("not-reproducible", tag + f"lib.unit_samples are not the points of openturns.{OT_SEQ[algo]}({d}).generate({req_eff['n']})"))
    for k, m in B.oracle(space, req_eff, ob):
        bad.append((k, tag + m.replace("x3 differs from the first generation",
                                       "the samples differ from those the same algorithm, settings and seed generate as the "
                                       "first generation of a process")))
    return dedupe(bad)


def dedupe(bad):
    out, seen = [], set()
    for k, m in bad:
        if k not in seen:
            seen.add(k)
            out.append((k, m))
    return out


def judge(hist, run) -> list[tuple[int, str, str]]:
    return [(i, k, m) for i in range(len(hist["steps"])) for k, m in judge_step(hist, run, i)]


def shrink_history(hist, i: int, key: str, budget: int = 14):
    """A shorter history in which the step `i` still fails with `key` (first: one earlier step + the failing
    one; then steps dropped one by one).  Every candidate is re-validated and re-run in a pristine process."""

    def fails(h, j) -> bool:
        if not valid_history(h):
            return False
        try:
            return any(k == key for k, _ in judge_step(h, run_history(h), j))
        except FreshUnavailable:
            return False

    steps = hist["steps"]
    alone = dict(hist, steps=[steps[i]])
    if fails(alone, 0):
        return alone, 0
    calls = 1
    for j in range(i - 1, -1, -1):
        cand = dict(hist, steps=[steps[j], steps[i]])
        calls += 1
        if fails(cand, 1):
            return cand, 1
        if calls >= budget:
            break
    cur, idx = dict(hist, steps=steps[:i + 1]), i
    changed = True
    while changed and calls < budget:
        changed = False
        for j in range(idx):
            cand = dict(cur, steps=cur["steps"][:j] + cur["steps"][j + 1:])
            calls += 1
            if fails(cand, idx - 1):
                cur, idx, changed = cand, idx - 1, True
                break
            if calls >= budget:
                break
    return cur, idx


# --------------------------------------------------------------------------- Lean model of the process


def proc_line(hist, run) -> tuple[str, list[int]]:
    """`proc` protocol line (CustomDOE steps are not generations of unit samples: left out) + indices of its steps."""
    ids: dict[str, int] = {}
    toks, idx = [], []
    for i, (st, req_eff, uref) in enumerate(zip(hist["steps"], run["effs"], run["urefs"])):
        algo = req_eff["algo"]
        if algo == "CustomDOE" or run["obs"][i]["exc"] is not None or (uref is not None and uref["exc"] is not None):
            continue
        if uref is None and algo not in OT_SEQ:
            continue
        aid = ids.setdefault(json.dumps([algo, req_eff["opts"]], sort_keys=True, default=str), len(ids))
        if uref is None:  # the points of the third-party sequence itself
            rows = B.fmat(openturns_sequence(algo, B.space_dim(st["space"]), req_eff["n"]))
        else:
            rows = B.fmat(arr(uref["x"])) if len(uref["x"]) else []
        seed = req_eff.get("seed")
        toks.append(f"src={source_of(algo)} algo={aid} dim={B.space_dim(st['space'])} n={req_eff['n']} "
                    f"seed={0 if seed is None else seed}" + (" | " + B.rows_str(rows) if rows else ""))
        idx.append(i)
    return "proc || " + " || ".join(toks), idx


def compare_models(cases, res) -> list[tuple[int, str] | None]:
    """For every (history, run): the first step on which the implementation and the Lean model (process, then
    pipeline) differ, or None.  Two batched driver calls for all the histories."""
    proc = [proc_line(h, r) for h, r in cases]
    with_steps = [k for k, (_, idx) in enumerate(proc) if idx]
    answers = common.run_lean_driver(B.PID, [proc[k][0] for k in with_steps]) if with_steps else []
    out: list[tuple[int, str] | None] = [None] * len(cases)
    doe_lines: list[str] = []
    meta: list[tuple[int, int, Any]] = []  # (case, step, model unit samples)
    for k, ans in zip(with_steps, answers):
        hist, run = cases[k]
        idx = proc[k][1]
        parts = ans.split(" || ")
        if ans == "bad-op" or len(parts) != len(idx):
            out[k] = (idx[0], f"the model could not run the process history ({ans[:80]})")
            continue
        for i, part in zip(idx, parts):
            st, o, req_eff = hist["steps"][i], run["obs"][i], run["effs"][i]
            U = B.parse_matrix(B.parse_answer(part).get("U", "[]"))
            if st["mode"] == "unit":
                msg = B.near(U, B.fmat(arr(o["x"])) if len(o["x"]) else [])
                if msg:
                    out[k] = (i, f"unit samples differ from the model of the process: {msg}")
                    break
                res.traces_validated += 1
                continue
            if st["mode"] == "exec":
                msg = B.near(U, B.fmat(arr(o["us"])) if len(o["us"]) else [])
                if msg:
                    out[k] = (i, f"lib.unit_samples differ from the model of the process: {msg}")
                    break
            # the model's unit samples through the model of the pipeline
            doe_lines.append(B.doe_line(st["space"], dict(req_eff), "exec" if st["mode"] == "exec" else "compute", U))
            meta.append((k, i, U))
    answers2 = common.run_lean_driver(B.PID, doe_lines) if doe_lines else []
    for (k, i, U), ans2 in zip(meta, answers2):
        if out[k] is not None:
            continue
        hist, run = cases[k]
        st, o = hist["steps"][i], run["obs"][i]
        a = B.parse_answer(ans2)
        if a.get("res") != "ok":
            out[k] = (i, f"the model of the pipeline answers {ans2[:60]} for a successful call")
        elif (a.get("int") == "1") != o["int_after"]:
            out[k] = (i, f"integer-normalisation switch {o['int_after']} after the call, model {a.get('int')}")
        else:
            msg = B.close_matrix(st["space"], B.parse_matrix(a["X"]), B.fmat(arr(o["x"])) if len(o["x"]) else [], U)
            if msg:
                out[k] = (i, f"samples differ from the model (process, then pipeline): {msg}")
            else:
                res.traces_validated += 1
    return out


# --------------------------------------------------------------------------- the stream


def count_history(res, hist) -> None:
    res.count("prochist")
    res.count(f"prochist-theme={hist.get('theme', 'corpus')}")
    res.count(f"prochist-steps={len(hist['steps'])}")
    seen: list[tuple[str, int, int]] = []  # (algo, dimension, n)
    for st in hist["steps"]:
        req = st["req"]
        algo, d, n = req["algo"], B.space_dim(st["space"]), req["n"]
        res.count(f"prochist-step-algo={algo}")
        res.count(f"prochist-step-mode={st['mode']}")
        res.count("prochist-step-seed=" + ("none" if B.ALGOS[algo]["seed"] is None else "default" if req.get("seed") is None else str(min(req["seed"], 1)).replace("1", "nonzero")))
        if not seen:
            res.count("prochist-step:first-generation-of-the-process")
        if any(a != algo and dd == d for a, dd, _ in seen):
            res.count("prochist-step:another-algorithm-sampled-before-in-the-same-dimension")
        if algo in OT_SEQ and any(a != algo and a in OT_SEQ and dd == d and nn >= n for a, dd, nn in seen):
            res.count("prochist-step:OT-sequence-after-another-OT-sequence-of-the-same-dimension-with-at-least-as-many-points")
        if any(a == algo and dd == d and nn > n for a, dd, nn in seen):
            res.count("prochist-step:same-algorithm-sampled-before-with-more-points")
        if any(a != algo and a in OT_GLOBAL for a, _, _ in seen) and (algo in OT_GLOBAL or algo in OT_SEQ):
            res.count("prochist-step:OpenTURNS-algorithm-after-another-one-that-drew-from-the-global-generator")
        if sum(1 for s in hist["steps"] if s["lib"] == st["lib"]) > 1:
            res.count("prochist-step:library-object-used-several-times")
        seen.append((algo, d, n))


def check_histories(res, histories: list[dict[str, Any]]) -> None:
    cases = []
    try:
        cases = list(zip(histories, run_histories(histories)))
    except FreshUnavailable as e:
        res.count("prochist:skipped(fresh-process server unavailable)", len(histories))
        res.notes.append(f"process-history stream: {len(histories)} cases skipped, the fresh-process server was unavailable ({e})")
        SERVER.restarts += 1
        if SERVER.restarts > MAX_RESTARTS:
            msg = "the fresh-process server of harness/c14_fresh.py is unavailable (infrastructure, not a verdict)"
            raise RuntimeError(msg) from e
        SERVER.failed = None
    mismatches = compare_models(cases, res)
    for (hist, run), mism in zip(cases, mismatches):
        res.evaluations += 1
        count_history(res, hist)
        if len(hist["steps"]) >= 2:
            res.nontrivial("prochist:" + json.dumps(hist["steps"], sort_keys=True, default=str))
        line, _ = proc_line(hist, run)
        res.sample({"process_history": [describe(hist, len(hist["steps"]) - 1)], "protocol_line": line[:300]})
        bad = judge(hist, run)
        seen = set()
        for i, key, msg in bad:
            if key in seen:
                continue
            seen.add(key)
            try:
                small, j = shrink_history(hist, i, key)
            except FreshUnavailable:
                small, j = hist, i
            res.violate("oracle", key, msg, {"process_history": small, "failing_step": j,
                                             "failing_step_of_the_original_history": i})
        if mism is None:
            continue
        res.disagreements += 1
        if bad:
            continue
        res.violate("correspondence", "process-model-vs-impl",
                    f"step {mism[0]} of a process history ({describe(hist, mism[0])}): {mism[1]}; the oracle fails on no step of the history",
                    {"process_history": hist, "mismatch": mism[1], "protocol_line": line,
                     "correspondence": "Driver/C14.lean `proc` + `doe`"})


def prochist_stream(ctx, res) -> None:
    rng = ctx.rng
    total = 160 if ctx.thorough else 44
    histories = []
    for _ in range(total):
        hist = gen_history(rng, "exact" if rng.chance(0.5) else "rounded")
        if valid_history(hist):
            histories.append(hist)
        else:
            res.count("prochist-generator-discarded")
    t0 = time.time()
    try:
        corpus = [c["process_history"] for c in B.load_corpus() if "process_history" in c]
        if corpus:
            check_histories(res, corpus)
            res.count("corpus", len(corpus))
        for i in range(0, len(histories), 22):
            if time.time() > ctx.deadline:
                res.notes.append("deadline reached in the process-history stream")
                break
            check_histories(res, histories[i:i + 22])
    finally:
        res.notes.append(f"process-history stream: {SERVER.jobs} pristine child processes, {time.time() - t0:.0f} s")
        SERVER.stop()


def replay_history(rp) -> int:
    hist = rp["process_history"]
    print("process history (run in a process that has sampled nothing before):")
    for i, st in enumerate(hist["steps"]):
        print(f"  step {i}: lib {st['lib']} {st['mode']} {json.dumps(st['req'], default=str)[:200]} on {B.varspecs(st['space'])}")
    if not valid_history(hist):
        print("the history is not inside the quantifier (edited replay?)")
        return 0
    try:
        run = run_history(hist)
    except FreshUnavailable as e:
        print("fresh-process server unavailable:", e)
        return 2
    bad = judge(hist, run)
    for i, st in enumerate(hist["steps"]):
        print(f"  step {i} impl :", run["obs"][i].get("x", run["obs"][i]["exc"]) if run["obs"][i]["exc"] else run["obs"][i]["x"][:3])
        print(f"  step {i} alone:", run["refs"][i]["x"][:3] if run["refs"][i]["exc"] is None else run["refs"][i]["exc"])
    res = common.Result(B.PID)
    print("correspondence:", compare_models([(hist, run)], res)[0] or "agrees")
    SERVER.stop()
    for i, k, m in bad:
        print("ORACLE FAILS:", k, m)
    return 1 if bad else 0
