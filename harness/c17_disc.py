"""Harness disciplines of the C17 check (real module file: GEMSEO's docstring inheritance needs the source).

`QDisc` computes, for each of its outputs ``o`` (a vector of size ``m_o``)::

    o = const_o + sum_{input i}  L_{o,i} @ i  +  sum_{input i}  Q_{o,i} @ (i * i)

(``i * i`` is the component-wise square).  With dyadic data of small bit length every floating
point operation is exact, so the outputs and the analytic Jacobian
``d o / d i = L_{o,i} + 2 Q_{o,i} diag(i)`` are exactly the rational closed forms.

Coupling outputs are always affine (no ``Q`` block): the multidisciplinary solution is then the
solution of an exact rational linear system.  The outputs that are affine in all the inputs can be
declared as such to GEMSEO (``io.set_linear_relationships``), which makes the formulations replace
the corresponding functions by :class:`.MDOLinearFunction` objects built from a value and a
Jacobian at zero (the ``is_linear`` branch of the formulations).

``jac_storage`` selects how the discipline hands its Jacobian blocks over: ``"dense"`` NumPy arrays, or
SciPy sparse arrays (``"csr"``: ``csr_array``, ``"csc"``: ``csc_array``, ``"coo"``: ``coo_matrix``) **built from the values** of the block, so that exact
zeros are not stored: a block that vanishes at the current point is then an empty sparse array
(``nnz == 0``), a block that does not is a sparse array with stored entries.  ``"mixed"`` alternates the
storage block by block (dense, csr, csc, coo in the order the blocks are filled).

``optional`` lists the inputs that the input grammar does not require (they all have a default value): an
optional input is an input all the same, the discipline reads it whenever it is given.
"""

from __future__ import annotations

from typing import TYPE_CHECKING

from numpy import array
from numpy import atleast_1d
from numpy import zeros
from scipy.sparse import coo_matrix
from scipy.sparse import csc_array
from scipy.sparse import csr_array

from gemseo.core.discipline.discipline import Discipline

# (``coo_array`` is not generated: it cannot be indexed, and GEMSEO reads the first row of a sparse block by indexing)
SPARSE_BUILDERS = {"csr": csr_array, "csc": csc_array, "coo": coo_matrix}
MIXED_ORDER = ("dense", "csr", "csc", "coo")

if TYPE_CHECKING:
    from collections.abc import Mapping
    from collections.abc import Sequence

    from gemseo.typing import StrKeyMapping


class QDisc(Discipline):
    """A discipline ``o = const + sum_i L_oi @ i + sum_i Q_oi @ i**2``."""

    def __init__(
        self,
        name: str,
        in_sizes: Mapping[str, int],
        outs: Mapping[str, Mapping[str, object]],
        declare_linear: Sequence[str] = (),
        defaults: Mapping[str, Sequence[float]] | None = None,
        jac_storage: str = "dense",
        optional: Sequence[str] = (),
    ) -> None:
        """
        Args:
            in_sizes: The sizes of the inputs (the order is the order of the input grammar).
            outs: For each output name, ``{"const": [...], "lin": {input: matrix},
                "quad": {input: matrix}}``.
            declare_linear: The names of the outputs declared as linear in all the inputs.
            defaults: The default values of the inputs (zero when missing).
            jac_storage: The storage of the Jacobian blocks
                (``"dense"``, ``"csr"``, ``"csc"``, ``"coo"`` or ``"mixed"``).
            optional: The names of the inputs that are optional in the input grammar
                (not required: the default value is used when the input is not given).
        """  # noqa: D205 D212 D415
        super().__init__(name=name)
        self.jac_storage = jac_storage
        self.n_empty_sparse_blocks = 0
        self.n_sparse_blocks = 0
        self.in_sizes = dict(in_sizes)
        self.io.input_grammar.update_from_names(list(in_sizes))
        self.io.output_grammar.update_from_names(list(outs))
        defaults = defaults or {}
        self.io.input_grammar.defaults.update({
            k: array([float(v) for v in defaults.get(k, [0.0] * n)]) for k, n in in_sizes.items()
        })
        for k in optional:
            # an optional input: in the grammar, with a default value, not in the required names
            self.io.input_grammar.required_names.remove(k)
        self.outs = {}
        for o, spec in outs.items():
            const = array([float(c) for c in spec["const"]])
            lin = {
                i: array([[float(a) for a in row] for row in mat]).reshape(const.size, self.in_sizes[i])
                for i, mat in spec.get("lin", {}).items()
            }
            quad = {
                i: array([[float(a) for a in row] for row in mat]).reshape(const.size, self.in_sizes[i])
                for i, mat in spec.get("quad", {}).items()
            }
            self.outs[o] = (const, lin, quad)
        if declare_linear:
            self.io.set_linear_relationships(output_names=list(declare_linear))
        self.n_runs = 0
        self.n_lin = 0

    def _run(self, input_data: StrKeyMapping) -> StrKeyMapping | None:
        self.n_runs += 1
        out = {}
        for o, (const, lin, quad) in self.outs.items():
            v = const.copy()
            for i, mat in lin.items():
                v = v + mat @ atleast_1d(input_data[i]).astype(float)
            for i, mat in quad.items():
                t = atleast_1d(input_data[i]).astype(float)
                v = v + mat @ (t * t)
            out[o] = v
        return out

    def _compute_jacobian(self, input_names=(), output_names=()) -> None:
        self.n_lin += 1
        self._init_jacobian(input_names, output_names)
        data = self.io.data
        n_block = 0
        for o, (const, lin, quad) in self.outs.items():
            if o not in self.jac:
                continue
            for i in self.jac[o]:
                j = zeros((const.size, self.in_sizes[i]))
                if i in lin:
                    j = j + lin[i]
                if i in quad:
                    t = atleast_1d(data[i]).astype(float)
                    j = j + 2.0 * quad[i] * t[None, :]
                storage = self.jac_storage
                if storage == "mixed":
                    storage = MIXED_ORDER[n_block % len(MIXED_ORDER)]
                n_block += 1
                if storage != "dense":
                    j = SPARSE_BUILDERS[storage](j)
                    self.n_sparse_blocks += 1
                    self.n_empty_sparse_blocks += int(j.nnz == 0)
                self.jac[o][i] = j
