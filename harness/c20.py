"""C20 — serialized disciplines, processes and problems behave like the originals  (partial).

What runs on every `./check C20`:

1. **Translator** (`pre_lean`): `harness/translate_c20.py` walks `src/gemseo` with `ast` and regenerates
   `lean/GemseoVerif/Gen/C20Table.lean` (one row per class deriving from `Serializable`, one per class with a
   custom `__getstate__/__setstate__` pair).  `Props/C20.lean` proves `table_ok` by `decide +kernel` over that
   table and lifts it to every object of every listed class: a class that excludes an attribute without
   re-creating it, holds a lock it does not exclude, or a `Value` it does not re-create breaks the build.
   The same predicate is evaluated here in Python to *direct the search* for a concrete failing object.
2. **Correspondence** with the Lean model (`Driver/C20.lean`), line by line:
   * `rt`  — `Serializable.__getstate__/__setstate__` on a bare `Probe(Serializable)` with generated exclusion
             sets, hooks, attribute kinds (plain / `multiprocessing.Value` / `Path` / lock) and cell aliasing;
   * `rt`  — every real object of the differential streams whose class is in the table: its `__dict__` abstracted
             to kinds, the spec taken from the *generated table*; the model predicts the attribute set and kinds
             of the restored object (this validates the translator against the running code);
   * `jg`  — `JSONGrammar` state round trip;  `h5` — `HDF5Cache` re-attachment (the original stores an entry
             between `dumps` and `loads`, the copy stores one after: both must see the file's content);
   * `jgl` — the *life* of a `JSONGrammar` (c20_life.py): element edits, edits of required names / defaults,
             reads of `schema`, validations, round trips in any order, pickled at the end, then a further life
             on the original and on the copy;  `h5l` — the life of an `HDF5Cache`: tolerance / name changed
             through the public setters before and after pickling, writes, exact and tolerance-based look-ups.
3. **Differential oracle** (c20_diff / c20_diff2): every class of the discipline and MDA factories that can be
   instantiated without external tools x grammar types x cache types x moments x serializers, scenarios,
   problems, functions, design spaces, grammars, caches, DOE libraries, statuses, statistics, directory creators.

4. **Other interpreters** (c20_xproc): objects pickled by one interpreter (`pickle.dump`, `to_pickle`, the implicit
   pickling of a `spawn` process) and restored by another one with another `PYTHONHASHSEED`: every discipline
   recipe of the catalogue once per run (settings edited after creation included), functions, design spaces,
   problems, scenarios, grammars; and the `ad` protocol: `AnalyticDiscipline`s made of integer polynomials at
   dyadic inputs - exact oracle (fractions), and correspondence with the model `AD` parameterized by the
   iteration orders of the writer and of the reader (observed through SymPy).

Streams: everything above is in scope except the `probe` stream (objects in a state the property does not
quantify over: a `Value` holding a path, hooks re-assigning an attribute twice), compared with the model for
information only.
"""

from __future__ import annotations

import json
import multiprocessing
import os
import shutil
import sys
import tempfile
import threading
import time
from fractions import Fraction
from pathlib import Path
from typing import Any

from harness import c20_life as LIFE
from harness import c20_xproc as XP
from harness import common
from harness import translate_c20 as TR
from harness.common import Result
from harness.common import rat

PID = "C20"
GEN_FILE = common.LEAN_DIR / "GemseoVerif" / "Gen" / "C20Table.lean"

TRUSTED_EXTRA = (
    "C20 (partial): CPython pickle itself and the per-class semantic equivalence of re-created attributes "
    "(e.g. a rebuilt SobieskiProblem, re-lambdified sympy expressions) are validated differentially, not proved",
    "C20: harness/translate_c20.py (Python ast -> Lean table; flow-insensitive, follows self.m()/super().m() calls, "
    "refuses class-level expressions outside {set literal, set(), X._ATTR_NOT_TO_SERIALIZE.union(...), |}); "
    "its output is cross-checked against run-time introspection and against the restored __dict__ of real objects on every run",
    "C20: values other than multiprocessing.Value / Path / locks are abstracted to numbers in the model (pickle copies them by value)",
    "C20: cross-interpreter stream: /venv/bin/python sub-processes with PYTHONHASHSEED set by the harness, multiprocessing 'spawn'; "
    "a difference also shown by an unserialized twin of the reader's interpreter is not attributed to serialization",
)

_TABLE: dict[str, Any] | None = None


def gemseo_src() -> Path:
    """The source tree actually imported (a scratch worktree when PYTHONPATH points to one)."""
    import gemseo

    return Path(gemseo.__file__).resolve().parent.parent


def get_table() -> dict[str, Any]:
    global _TABLE
    if _TABLE is None:
        _TABLE = TR.extract(gemseo_src())
    return _TABLE


def pre_lean(ctx) -> None:
    """Regenerate Gen/C20Table.lean from the sources."""
    table = get_table()
    text = TR.to_lean(table)
    GEN_FILE.parent.mkdir(exist_ok=True)
    if not GEN_FILE.exists() or GEN_FILE.read_text() != text:
        GEN_FILE.write_text(text)


# --------------------------------------------------------------------------- Probe correspondence (Serializable itself)

_KINDS = ("P", "S", "D", "L")
_NAMES = ["a", "b", "c", "d", "_e", "__f", "lock"]
_PATHS = ["x/y", "z", "dir/sub/f.txt"]


def gen_probe_case(rng: common.Rng, in_scope: bool = True) -> dict[str, Any]:
    names = rng.subset(_NAMES, 0.7) or ["a"]
    heap = [rng.randint(-5, 9) for _ in range(rng.randint(0, 3))]
    obj = []
    for n in names:
        k = rng.pick(["P", "P", "S", "D", "L"] if heap else ["P", "P", "D", "L"])
        if k == "P":
            obj.append([n, "P", rng.randint(-9, 9)])
        elif k == "S":
            obj.append([n, "S", rng.randrange(len(heap))])
        elif k == "D":
            obj.append([n, "D", rng.pick(_PATHS)])
        else:
            obj.append([n, "L"])
    excluded = rng.subset(_NAMES, 0.3)
    # locks are usually excluded (else pickling fails: still in scope, both sides must agree on the failure)
    for a in obj:
        if a[1] == "L" and rng.chance(0.8) and a[0] not in excluded:
            excluded.append(a[0])

    def hook(p: float, pool: list[str]) -> list[list[Any]]:
        out = []
        for n in rng.subset(pool, p):
            k = rng.pick(["S", "S", "P", "D", "L"])
            out.append([n, k, rng.randint(0, 4)] if k in ("S", "P") else [n, k, rng.pick(_PATHS)] if k == "D" else [n, "L"])
        return out

    before = hook(0.35, _NAMES)
    after = hook(0.2, _NAMES)
    kinds = {a[0]: a[1] for a in obj}
    if in_scope:
        # In scope: a hook re-creates a Synchronized attribute as a Synchronized one (a `Value` receives numbers only).
        for h in before:
            if h[1] == "S" and kinds.get(h[0]) in ("D", "L") and h[0] not in excluded:
                h[1], h[2:] = "P", [0]
    return {"kind": "probe", "excluded": sorted(set(excluded)), "before": before, "after": after, "obj": obj, "heap": heap}


def _fmt_items(items: list[list[Any]]) -> str:
    return ",".join(":".join(str(x) for x in it) for it in items) if items else "[]"


def probe_line(case: dict[str, Any]) -> str:
    ex = ",".join(case["excluded"]) if case["excluded"] else "[]"
    heap = ",".join(str(v) for v in case["heap"]) if case["heap"] else "[]"
    return f"rt ex={ex} bf={_fmt_items(case['before'])} af={_fmt_items(case['after'])} po=[] obj={_fmt_items(case['obj'])} heap={heap}"


def _kind_of(v: Any) -> str:
    from multiprocessing.sharedctypes import Synchronized

    if isinstance(v, Synchronized):
        return "S"
    if isinstance(v, Path):
        return "D"
    tn = type(v).__name__
    mod = type(v).__module__ or ""
    if tn in ("lock", "RLock", "Lock") or mod in ("_thread", "multiprocessing.synchronize"):
        return "L"
    return "P"


def probe_impl(case: dict[str, Any]) -> tuple[str, dict[str, Any]]:
    """Run the real `Serializable` on the probe; returns (protocol answer, observation for the oracle)."""
    import pickle
    from multiprocessing import Value

    from harness.c20_disc import Probe

    cells = [Value("i", int(v)) for v in case["heap"]]
    Probe.SPEC = {"excluded": case["excluded"], "before": [h if len(h) == 3 else [*h, 0] for h in case["before"]], "after": [h if len(h) == 3 else [*h, 0] for h in case["after"]]}
    # kind "L" in a hook: a lock
    Probe._ATTR_NOT_TO_SERIALIZE = set(case["excluded"])
    p = Probe()
    for a in case["obj"]:
        n, k = a[0], a[1]
        p.__dict__[n] = int(a[2]) if k == "P" else cells[int(a[2])] if k == "S" else Path(a[2]) if k == "D" else threading.Lock()
    try:
        q = pickle.loads(pickle.dumps(p))
    except Exception as e:  # noqa: BLE001
        return "E:pickle", {"error": type(e).__name__}
    shown = []
    obs: dict[str, Any] = {"attrs": {}}
    for n in sorted(q.__dict__):
        v = q.__dict__[n]
        k = _kind_of(v)
        if k == "S":
            fresh = not any(v is c for c in cells)
            shown.append(f"{n}:S:{v.value}:{'fresh' if fresh else 'shared'}")
            obs["attrs"][n] = ("S", v.value, fresh)
        elif k == "D":
            shown.append(f"{n}:D:{v.as_posix()}")
            obs["attrs"][n] = ("D", v.as_posix())
        elif k == "L":
            shown.append(f"{n}:L")
            obs["attrs"][n] = ("L",)
        else:
            shown.append(f"{n}:P:{v}")
            obs["attrs"][n] = ("P", v)
    obs["heap0"] = [c.value for c in cells]
    heap0 = ",".join(str(c.value) for c in cells) if cells else "[]"
    return f"obj={','.join(shown) if shown else '[]'} heap0={heap0}", obs


def _probe_hook_make(kind: str, value: Any):
    return value


def probe_oracle(case: dict[str, Any], obs: dict[str, Any]) -> list[tuple[str, str]]:
    """The property on the bare protocol, from its text (never from the model)."""
    bad = []
    hooked = {h[0] for h in case["before"]} | {h[0] for h in case["after"]}
    kinds = {a[0]: a for a in case["obj"]}
    if "error" in obs:
        # serialization may only fail because an unpicklable member is not excluded
        if not any(a[1] == "L" and a[0] not in case["excluded"] for a in case["obj"]):
            bad.append(("Serializable:serialize-raises", f"pickling raises {obs['error']} although every lock is excluded"))
        return bad
    for n, a in kinds.items():
        if n in case["excluded"] or n in hooked:
            continue
        got = obs["attrs"].get(n)
        if a[1] == "P" and got != ("P", a[2]):
            bad.append(("Serializable:attribute-not-restored", f"plain attribute {n}={a[2]} restored as {got}"))
        if a[1] == "D" and got != ("D", a[2]):
            bad.append(("Serializable:attribute-not-restored", f"path attribute {n}={a[2]} restored as {got}"))
    before_sync = {h[0] for h in case["before"] if h[1] == "S"}
    later = {h[0] for h in case["after"]}
    for n, a in kinds.items():
        if a[1] == "S" and n in before_sync and n not in case["excluded"] and n not in later:
            got = obs["attrs"].get(n)
            want = case["heap"][a[2]]
            if not (got is not None and got[0] == "S" and got[1] == want):
                bad.append(("Serializable:counter-not-carried", f"Synchronized attribute {n} (value {want}) restored as {got}"))
    for n, got in obs["attrs"].items():
        if got[0] == "S" and not got[2]:
            bad.append(("Serializable:shared-state", f"restored attribute {n} is a shared-memory cell of the original"))
    if obs["heap0"] != case["heap"]:
        bad.append(("Serializable:original-altered", f"the original's shared-memory values changed: {case['heap']} -> {obs['heap0']}"))
    return bad


def probe_neighbours(case: dict[str, Any]) -> list[dict[str, Any]]:
    out = []
    for i in range(len(case["obj"])):
        c = json.loads(json.dumps(case))
        del c["obj"][i]
        out.append(c)
    for key in ("before", "after"):
        for i in range(len(case[key])):
            c = json.loads(json.dumps(case))
            del c[key][i]
            out.append(c)
    for i in range(len(case["excluded"])):
        c = json.loads(json.dumps(case))
        del c["excluded"][i]
        out.append(c)
    return out


def shrink_probe(case: dict[str, Any], key: str) -> dict[str, Any]:
    cur = case
    progress = True
    while progress:
        progress = False
        for c in probe_neighbours(cur):
            try:
                _, obs = probe_impl(c)
                if any(k == key for k, _ in probe_oracle(c, obs)):
                    cur = c
                    progress = True
                    break
            except Exception:  # noqa: BLE001
                continue
    return cur


def check_probe_cases(res: Result, cases: list[dict[str, Any]], in_scope: bool) -> None:
    if not cases:
        return
    lines = [probe_line(c) for c in cases]
    model = common.run_lean_driver(PID, lines)
    for case, line, m in zip(cases, lines, model):
        res.evaluations += 1
        impl, obs = probe_impl(case)
        res.count("probe:" + ("E:pickle" if impl == "E:pickle" else "ok"))
        for a in case["obj"]:
            res.count("probe-attr:" + a[1])
        if in_scope:
            res.traces_validated += 1
            if case["obj"] and (case["before"] or case["after"] or case["excluded"]):
                res.nontrivial(("probe", line))
        bad = probe_oracle(case, obs) if in_scope else []
        for key, what in bad:
            small = shrink_probe(case, key)
            res.violate("oracle", key, what, {"case": small, "line": probe_line(small)})
        if impl != m:
            res.disagreements += 1
            if not in_scope:
                res.count("probe-out-of-scope-disagreement")
                res.notes.append(f"out-of-scope probe disagreement (informational): {line} impl={impl} model={m}")
                continue
            if bad:
                continue
            # failing-input search: neighbours of the case, evaluated with the oracle
            found = False
            for c in probe_neighbours(case):
                try:
                    _, o2 = probe_impl(c)
                    b2 = probe_oracle(c, o2)
                except Exception:  # noqa: BLE001
                    continue
                if b2:
                    res.violate("oracle", b2[0][0], b2[0][1], {"case": c, "line": probe_line(c)})
                    found = True
                    break
            if not found:
                res.violate(
                    "correspondence",
                    "Serializable-protocol",
                    f"Serializable.__getstate__/__setstate__ and the model disagree on: {line}",
                    {"line": line, "expected(model)": m, "observed(implementation)": impl, "case": case},
                )


# --------------------------------------------------------------------------- real objects vs table-driven model


def abstract_object(x: Any) -> tuple[list[list[Any]], list[Fraction], bool]:
    """`__dict__` abstracted to kinds; plain values are opaque (0)."""
    from multiprocessing.sharedctypes import Synchronized

    obj, heap = [], []
    exact = True
    cells: dict[int, int] = {}
    for n, v in x.__dict__.items():
        k = _kind_of(v)
        if any(ch in n for ch in ",:= |"):
            exact = False
        if k == "S":
            assert isinstance(v, Synchronized)
            if id(v) not in cells:
                cells[id(v)] = len(heap)
                heap.append(common.F(v.value))
            obj.append([n, "S", cells[id(v)]])
        elif k == "D":
            obj.append([n, "D", "p"])
        elif k == "L":
            obj.append([n, "L"])
        else:
            obj.append([n, "P", 0])
    return obj, heap, exact


def table_row_for(x: Any) -> dict[str, Any] | None:
    name = f"{type(x).__module__}.{type(x).__qualname__}"
    for r in get_table()["rows"]:
        if r["name"] == name:
            return r
    return None


def real_object_line(x: Any, row: dict[str, Any]) -> tuple[str, int]:
    obj, heap, _ = abstract_object(x)

    def inits(names):
        return [[n, "S", 0] if n in row["sync"] else [n, "L"] if n in row["locks"] else [n, "P", 0] for n in names]

    ex = ",".join(row["excluded"]) if row["excluded"] else "[]"
    hp = ",".join(rat(v) for v in heap) if heap else "[]"
    line = f"rt ex={ex} bf={_fmt_items(inits(row['before']))} af={_fmt_items(inits(row['after']))} po={_fmt_items(inits(row['post']))} obj={_fmt_items(obj)} heap={hp}"
    return line, len(heap)


def real_object_observation(x: Any, copy: Any, row: dict[str, Any]) -> str:
    """Keys and kinds of the restored object, in the driver's format (values only where the model has them)."""
    from multiprocessing.sharedctypes import Synchronized

    hooked = set(row["before"]) | set(row["after"]) | set(row["post"])
    orig_cells = [v for v in x.__dict__.values() if isinstance(v, Synchronized)]
    shown = []
    for n in sorted(copy.__dict__):
        v = copy.__dict__[n]
        k = _kind_of(v)
        if k == "S":
            fresh = not any(v is c for c in orig_cells)
            shown.append(f"{n}:S:{rat(common.F(v.value))}:{'fresh' if fresh else 'shared'}")
        elif k == "D":
            shown.append(f"{n}:D:p")
        elif k == "L":
            shown.append(f"{n}:L")
        else:
            shown.append(f"{n}:P:0")
    _ = hooked
    return ",".join(shown) if shown else "[]"


def _normalise(body: str, row: dict[str, Any]) -> dict[str, str]:
    """name -> comparable token.  What a hook assigns is computed by code the translator does not evaluate:
    for hook-created attributes only the presence is compared (and, for cells re-created *before* the state is
    restored, the carried value and the freshness)."""
    if body in ("[]", ""):
        return {}
    before = set(row["before"])
    later = set(row["after"]) | set(row["post"])
    out = {}
    for it in body.split(","):
        parts = it.split(":")
        n = parts[0]
        if n in later:
            out[n] = "H"
        elif n in before:
            out[n] = ":".join(parts[1:]) if parts[1] == "S" else "H"
        else:
            out[n] = ":".join(parts[1:])
    return out


def normalise_model_answer(ans: str, row: dict[str, Any]) -> Any:
    if not ans.startswith("obj="):
        return ans
    return _normalise(ans[4:].split(" heap0=")[0], row)


def normalise_real_answer(ans: str, row: dict[str, Any]) -> Any:
    return _normalise(ans, row)


def collect_real_objects(tmp: Path, rng: common.Rng, quick: bool) -> list[tuple[str, Any]]:
    """Real instances of table classes at some moment of their life (label, object)."""
    import numpy as np

    from gemseo.core.execution_statistics import ExecutionStatistics
    from gemseo.core.execution_status import ExecutionStatus

    from harness import c20_catalog as CAT
    from harness import c20_diff as D

    ExecutionStatistics.is_enabled = True
    out: list[tuple[str, Any]] = []
    recipes, _ = CAT.discipline_recipes()
    names = sorted(recipes)
    for name in names:
        moment = rng.pick(CAT.MOMENTS)
        try:
            d = D.build_discipline({"recipe": name, "cache": "SimpleCache"}, tmp)
            if moment != "fresh":
                x = D.gen_inputs(d, rng)
                d.execute(x)
                if moment == "linearized":
                    d.linearize(x, compute_all_jacobians=True)
        except Exception:  # noqa: BLE001
            continue
        out.append((f"{name}@{moment}", d))
        out.append((f"{name}@{moment}.execution_statistics", d.execution_statistics))
        out.append((f"{name}@{moment}.execution_status", d.execution_status))
        out.append((f"{name}@{moment}.defaults", d.io.input_grammar.defaults))
    st = ExecutionStatistics("s")
    st.n_executions, st.n_linearizations, st.duration = rng.randint(0, 9), rng.randint(0, 9), rng.randint(0, 40) / 8.0
    out.append(("ExecutionStatistics", st))
    es = ExecutionStatus("p")
    out.append(("ExecutionStatus", es))
    from gemseo.utils.directory_creator import DirectoryCreator

    root = Path(tmp) / f"dc{rng.randint(0, 10**9)}"
    root.mkdir()
    for naming in ("UUID", "NUMBERED"):
        dc = DirectoryCreator(root, naming)
        dc.create()
        out.append((f"DirectoryCreator[{naming}]", dc))
    from gemseo.algos.doe.factory import DOELibraryFactory

    for algo in ("PYDOE_LHS", "OT_MONTE_CARLO", "MorrisDOE", "DiagonalDOE", "Halton", "CustomDOE", "OATDOE"):  # one per library class
        try:
            out.append((f"DOE[{algo}]", DOELibraryFactory().create(algo)))
        except Exception:  # noqa: BLE001
            pass
    from gemseo.problems.optimization.power_2 import Power2

    p = Power2()
    p.preprocess_functions()
    p.objective.evaluate(np.array([0.5, 0.5, 0.5]))
    out.append(("ProblemFunction", p.objective))
    try:
        sc = CAT._mdo_scenario()
        out.append(("MDOScenario@fresh", sc))
    except Exception:  # noqa: BLE001
        pass
    return out


def check_real_objects(res: Result, objs: list[tuple[str, Any]]) -> None:
    import pickle

    lines, metas = [], []
    for label, x in objs:
        row = table_row_for(x)
        if row is None or not row["base_protocol"]:
            res.count("real-object:not-in-table")
            continue
        _, _, exact = abstract_object(x)
        if not exact:
            continue
        line, _ = real_object_line(x, row)
        lines.append(line)
        metas.append((label, x, row))
    if not lines:
        return
    model = common.run_lean_driver(PID, lines)
    for (label, x, row), line, m in zip(metas, lines, model):
        res.evaluations += 1
        res.count("real-object:" + row["cls"])
        # how often the hypotheses of `table_roundtrip_total` / `table_picklable` hold on real objects
        # (informational: the theorems are conditional on them)
        hooked_names = set(row["before"]) | set(row["after"]) | set(row["post"])
        res.count("hyp:attrs-within-row-attrs:" + ("yes" if set(x.__dict__) <= set(row["attrs"]) else "no"))
        res.count("hyp:hook-attrs-present:" + ("yes" if hooked_names <= set(x.__dict__) else "no"))
        res.count("hyp:locks-within-row-locks:" + ("yes" if all(_kind_of(v) != "L" or n in row["locks"] for n, v in x.__dict__.items()) else "no"))
        try:
            copy = pickle.loads(pickle.dumps(x))
            impl = real_object_observation(x, copy, row)
        except Exception as e:  # noqa: BLE001
            impl = "E:pickle"
            err = f"{type(e).__name__}: {str(e)[:120]}"
        mm = normalise_model_answer(m, row)
        ii = normalise_real_answer(impl, row) if impl != "E:pickle" else impl
        if mm == ii:
            res.traces_validated += 1
            res.nontrivial(("real", row["name"], label.split("@")[-1]))
            continue
        res.disagreements += 1
        if impl == "E:pickle" and m != "E:pickle":
            # an unpicklable member the table does not know about: the differential stream owns this failure
            # (same object, same moment); here it is only recorded.
            res.count("real-object:unpicklable-member")
            res.notes.append(f"{label}: pickling raises ({err}) - decided by the differential stream")
            continue
        if isinstance(mm, dict) and isinstance(ii, dict):
            # the translator is flow-insensitive: a hook may assign an attribute conditionally.  A hook-created
            # attribute the model predicts and the implementation lacks is a disagreement only if the original had it.
            hooked = set(row["before"]) | set(row["after"]) | set(row["post"])
            for n in [n for n in mm if n in hooked and n not in ii and n not in x.__dict__]:
                mm.pop(n)
            if mm == ii:
                res.traces_validated += 1
                res.nontrivial(("real", row["name"], label.split("@")[-1]))
                res.disagreements -= 1
                continue
        ms = {f"{k}:{v}" for k, v in mm.items()} if isinstance(mm, dict) else {str(mm)}
        is_ = {f"{k}:{v}" for k, v in ii.items()} if isinstance(ii, dict) else {str(ii)}
        res.violate(
            "correspondence",
            f"table:{row['cls']}",
            f"the restored {label} is not what the model predicts from the generated table row of {row['name']}: "
            f"only in model {sorted(ms - is_)[:6]}, only in implementation {sorted(is_ - ms)[:6]}",
            {"label": label, "line": line, "expected(model)": mm, "observed(implementation)": ii, "row": row},
        )


# --------------------------------------------------------------------------- JSON grammar / HDF5 instances

_JSON_TYPES = ["array", "number", "integer", "string", "boolean", "object", "null", "?"]


def gen_jg_case(rng: common.Rng) -> dict[str, Any]:
    names = rng.subset(["a", "b", "c", "d"], 0.7) or ["a"]
    props = [[n, rng.pick(["array", "number", "integer", "string"])] for n in names]
    req = rng.subset(names, 0.5)
    df = []
    for n, t in props:
        if rng.chance(0.5):
            df.append([n, rng.randint(-4, 4) if t == "integer" else rng.randint(-8, 8) / 4.0 if t == "number" else None])
    df = [d for d in df if d[1] is not None]
    ns = [[n, "ns"] for n in rng.subset(names, 0.2)]
    return {"kind": "jg", "props": props, "req": req, "df": df, "ns": ns}


def jg_line(case) -> str:
    props = ",".join(f"{n}:{_JSON_TYPES.index(t)}" for n, t in case["props"]) or "[]"
    req = ",".join(case["req"]) or "[]"
    df = ",".join(f"{n}:{rat(Fraction(v))}" for n, v in case["df"]) or "[]"
    ns = ",".join(f"{n}:{s}" for n, s in case["ns"]) or "[]"
    return f"jg props={props} req={req} df={df} ns={ns}"


def jg_impl(case) -> str:
    import pickle

    import numpy as np

    from gemseo.core.grammars.json_grammar import JSONGrammar

    g = JSONGrammar("g")
    py = {"array": np.ndarray, "number": float, "integer": int, "string": str}
    g.update_from_types({n: py[t] for n, t in case["props"]})
    for n, _ in case["props"]:
        if n in case["req"]:
            g.required_names.add(n)
        else:
            g.required_names.discard(n)
    for n, v in case["df"]:
        g.defaults[n] = v
    for n, s in case["ns"]:
        g.add_namespace(n, s)
    try:
        h = pickle.loads(pickle.dumps(g))
    except KeyError:
        return "E:key"

    def base(n):
        return n.split(":")[-1]

    schema = h.schema.get("properties", {})
    props = []
    for n in h.names:
        t = schema.get(n, {}).get("type", "?")
        props.append(f"{base(n)}:{_JSON_TYPES.index(t) if t in _JSON_TYPES else 7}")
    order = [n for n, _ in case["props"]]
    props.sort(key=lambda s: order.index(s.split(":")[0]))
    req = [base(n) for n in h.required_names]
    req.sort(key=order.index)
    df = [f"{base(n)}:{rat(common.F(v))}" for n, v in h.defaults.items()]
    dorder = [n for n, _ in case["df"]]
    df.sort(key=lambda s: dorder.index(s.split(":")[0]))
    ns = [f"{k}:{v.split(':')[0]}" for k, v in h.to_namespaced.items()]
    norder = [n for n, _ in case["ns"]]
    ns.sort(key=lambda s: norder.index(s.split(":")[0]))
    return f"ok props={','.join(props) or '[]'} req={','.join(req) or '[]'} df={','.join(df) or '[]'} ns={','.join(ns) or '[]'}"


def gen_h5_case(rng: common.Rng) -> dict[str, Any]:
    nodes = {}
    for p in rng.subset(["f", "g"], 0.8) or ["f"]:
        for n in rng.subset(["n", "m"], 0.7) or ["n"]:
            k = rng.randint(0, 3)
            nodes[f"{p}@{n}"] = [[i + 1, rng.randint(-6, 6)] for i in range(k)]
    loc = rng.pick(sorted(nodes) + ["f@zz"])
    tol = rng.pick([0, Fraction(1, 8), Fraction(1, 2)])
    write = [rng.randint(10, 20), rng.randint(-6, 6)] if rng.chance(0.7) else None
    mid = [rng.randint(5, 9), rng.randint(-6, 6)]  # inputs increase in writing order (the views are sorted) if rng.chance(0.6) else None
    return {"kind": "h5", "nodes": nodes, "cache": loc, "tol": str(tol), "write": write, "mid": mid}


def h5_line(case) -> str:
    disk = "+".join(f"{loc}={';'.join(f'{i}:{o}' for i, o in es) or '[]'}" for loc, es in case["nodes"].items()) or "[]"
    p, n = case["cache"].split("@")
    w = "_" if case["write"] is None else f"{case['write'][0]}:{case['write'][1]}"
    mid = "_" if case.get("mid") is None else f"{case['mid'][0]}:{case['mid'][1]}"
    return f"h5 disk={disk} cache={rat(Fraction(case['tol']))}|{p}|{n}|nm mid={mid} write={w}"


def h5_impl(case, tmp: Path) -> str:
    import pickle

    import numpy as np

    from gemseo.caches.hdf5_cache import HDF5Cache

    d = Path(tempfile.mkdtemp(dir=tmp))
    for loc, es in case["nodes"].items():
        p, n = loc.split("@")
        c = HDF5Cache(hdf_file_path=str(d / f"{p}.h5"), hdf_node_path=n)
        for i, o in es:
            c.cache_outputs({"x": np.array([float(i)])}, {"y": np.array([float(o)])})
    p, n = case["cache"].split("@")
    c0 = HDF5Cache(hdf_file_path=str(d / f"{p}.h5"), hdf_node_path=n, tolerance=float(Fraction(case["tol"])), name="nm")
    blob = pickle.dumps(c0)
    if case.get("mid") is not None:  # the original keeps working before the copy is restored
        c0.cache_outputs({"x": np.array([float(case["mid"][0])])}, {"y": np.array([float(case["mid"][1])])})
    c1 = pickle.loads(blob)

    def entries(c):
        es = [(common.F(e.inputs["x"][0]), common.F(e.outputs["y"][0])) for e in (list(c.get_all_entries()) if len(c) else [])]
        es.sort()
        return ";".join(f"{rat(i)}:{rat(o)}" for i, o in es) or "[]"

    sees = entries(c1)
    if case["write"] is not None:
        c1.cache_outputs({"x": np.array([float(case["write"][0])])}, {"y": np.array([float(case["write"][1])])})
    fresh = HDF5Cache(hdf_file_path=str(d / f"{p}.h5"), hdf_node_path=n)
    same_file = Path(c1.hdf_file.hdf_file_path).name == f"{p}.h5" and Path(c1.hdf_file.hdf_file_path).parent == d
    path = p if same_file else str(c1.hdf_file.hdf_file_path)
    return f"c={rat(common.F(c1.tolerance))}|{path}|{c1.hdf_node_path}|{c1.name} sees={sees} after={entries(fresh)}"


def instance_oracle(case, impl: str) -> tuple[bool, str, str]:
    """Oracle of the jg/h5 instances, from the property text (the model's answer is not used): the restored
    grammar shows what was built; the restored cache shows the content of the original's file and node."""
    if case["kind"] == "jg":
        want = jg_line(case)[3:]
        ok = impl.startswith("ok ") and impl[3:] == want
        return ok, "JSONGrammar:view-differs", f"JSONGrammar state round trip: built {want}, restored {impl}"
    p, n_ = case["cache"].split("@")
    es = sorted((Fraction(i), Fraction(o)) for i, o in case["nodes"].get(case["cache"], []))
    if case.get("mid") is not None:
        es = sorted([*es, (Fraction(case["mid"][0]), Fraction(case["mid"][1]))])
    want_sees = ";".join(f"{rat(i)}:{rat(o)}" for i, o in es) or "[]"
    if case["write"] is not None:
        es = sorted([*es, (Fraction(case["write"][0]), Fraction(case["write"][1]))])
    want_after = ";".join(f"{rat(i)}:{rat(o)}" for i, o in es) or "[]"
    want = f"c={rat(Fraction(case['tol']))}|{p}|{n_}|nm sees={want_sees} after={want_after}"
    return impl == want, "HDF5Cache:file-cache-detached", f"HDF5Cache re-attachment: expected {want}, observed {impl}"


def instance_line(case) -> str:
    return {"jg": jg_line, "h5": h5_line, "jgl": LIFE.jgl_line, "h5l": LIFE.h5l_line}[case["kind"]](case)


def instance_run(case, tmp: Path) -> tuple[str, list[tuple[str, str]]]:
    """Run one jg/h5/jgl/h5l case on the real code: (canonical answer, oracle failures [(key, what)])."""
    kind = case["kind"]
    try:
        if kind == "jgl":
            impl, parts = LIFE.jgl_impl(case)
            return impl, LIFE.jgl_oracle(case, parts)
        if kind == "h5l":
            impl = LIFE.h5l_impl(case, tmp)
        else:
            impl = jg_impl(case) if kind == "jg" else h5_impl(case, tmp)
    except Exception as e:  # noqa: BLE001
        impl = "E:" + type(e).__name__ + ":" + str(e)[:80]
        if kind == "jgl":
            return impl, [("JSONGrammar:life-raises", f"a public operation of the life raises {impl}")]
    if kind == "h5l":
        want = LIFE.h5l_expected(case)
        if impl == want:
            return impl, []
        key = "HDF5Cache:life-settings-differ"
        a, b = impl.split(" | "), want.split(" | ")
        if len(a) == 2 and len(b) == 2 and a[1].split(" after=")[0] == b[1].split(" after=")[0]:
            ia, ib = a[0].split(";"), b[0].split(";")
            diff = [k for k in range(min(len(ia), len(ib))) if ia[k] != ib[k]]
            if not any(ib[k].startswith("c=") and ia[k].split(",sees=")[0] != ib[k].split(",sees=")[0] for k in diff):
                key = "HDF5Cache:life-behaviour-differs"
        return impl, [(key, f"HDF5Cache life: the property demands {want}, observed {impl}")]
    ok, key, what = instance_oracle(case, impl)
    return impl, ([] if ok else [(key, what)])


def shrink_life(case, key: str, tmp: Path):
    """Drop operations of a failing life while the same oracle key still fails."""
    cur = json.loads(json.dumps(case))
    for fld in ("post", "ops", "bat"):
        i = 0
        while fld in cur and i < len(cur[fld]):
            if cur[fld][i] in (["P"], ["L"]) and cur["kind"] == "h5l":
                i += 1
                continue
            cand = json.loads(json.dumps(cur))
            del cand[fld][i]
            try:
                _, bad = instance_run(cand, tmp)
            except Exception:  # noqa: BLE001
                bad = []
            if any(k == key for k, _ in bad):
                cur = cand
            else:
                i += 1
    return cur


def check_instances(res: Result, rng: common.Rng, n: int, tmp: Path) -> None:
    jg = [gen_jg_case(rng) for _ in range(n)]
    h5 = [gen_h5_case(rng) for _ in range(max(3, n // 3))]
    jgl = [LIFE.gen_jgl_case(rng) for _ in range(3 * n)]
    h5l = [LIFE.gen_h5l_case(rng) for _ in range(n)]
    check_instance_cases(res, jg + h5 + jgl + h5l, tmp)


def check_instance_cases(res: Result, cases: list[dict[str, Any]], tmp: Path) -> None:
    lines = [instance_line(c) for c in cases]
    model = common.run_lean_driver(PID, lines)
    for case, line, m in zip(cases, lines, model):
        res.evaluations += 1
        impl, bad = instance_run(case, tmp)
        res.count("instance:" + case["kind"])
        if case["kind"] == "jgl":
            res.count(f"jgl:ops={min(len(case['ops']), 12)}")
            for f in case.get("flags", []) or ["no-edit-after-schema-built"]:
                res.count("jgl:" + f)
        elif case["kind"] == "h5l":
            for f in LIFE.h5l_flags(case) or ["settings-as-constructed"]:
                res.count("h5l:" + f)
        ok = not bad
        seen = {v.key for v in res.violations}
        for key, what in bad:
            small = case
            if case["kind"] in ("jgl", "h5l") and key not in seen:
                small = shrink_life(case, key, tmp)
                what = next((w for k, w in instance_run(small, tmp)[1] if k == key), what)
            if case["kind"] == "jgl":
                what = f"JSONGrammar life [{instance_line(small)}]: {what}"
            res.violate("oracle", key, what, {"case": {k: v for k, v in small.items() if k != "flags"}, "line": instance_line(small)})
        if impl == m:
            res.traces_validated += 1
            res.nontrivial((case["kind"], line))
            continue
        res.disagreements += 1
        if ok and case["kind"] in ("jgl", "h5l"):
            # failing-input search around the disagreement: the same life with one operation dropped / doubled
            found = False
            for fld in ("ops", "post"):
                for i in range(len(case.get(fld, []))):
                    if case[fld][i] in (["P"], ["L"]) and case["kind"] == "h5l":
                        continue
                    for variant in ("drop", "double"):
                        cand = json.loads(json.dumps(case))
                        if variant == "drop":
                            del cand[fld][i]
                        elif case["kind"] == "jgl":
                            cand[fld].insert(i, cand[fld][i])
                        else:
                            continue
                        _, bad2 = instance_run(cand, tmp)
                        res.evaluations += 1
                        if bad2:
                            found = True
                            res.violate("oracle", bad2[0][0], bad2[0][1], {"case": {k: v for k, v in cand.items() if k != "flags"}, "line": instance_line(cand)})
                            break
                    if found:
                        break
                if found:
                    break
            ok = not found
        if ok:
            res.violate(
                "correspondence",
                "instance:" + case["kind"],
                f"model and implementation disagree on: {line}",
                {"line": line, "expected(model)": m, "observed(implementation)": impl, "case": case},
            )


# --------------------------------------------------------------------------- differential streams


def core_cases() -> list[dict[str, Any]]:
    """Deterministic cases run on every check (every class x every moment, every object kind)."""
    from harness import c20_catalog as CAT

    recipes, _ = CAT.discipline_recipes()
    cases: list[dict[str, Any]] = []
    for name in sorted(recipes):
        for moment in CAT.MOMENTS:
            cases.append({"kind": "discipline", "recipe": name, "grammar": "JSONGrammar", "cache": "SimpleCache", "moment": moment, "serializer": "pickle", "seed": 1})
    for obs in (None, "plain", "resource"):
        for st in ("DONE", "FAILED"):
            cases.append({"kind": "serializable", "what": "ExecutionStatus", "observer": obs, "status": st})
    cases.append({"kind": "discipline", "recipe": "Sellar1", "moment": "executed", "observer": "resource", "seed": 2})
    cases.append({"kind": "discipline", "recipe": "Sellar1", "moment": "executed", "observer": "plain", "seed": 2})
    for s in range(2):
        cases.append({"kind": "serializable", "what": "ExecutionStatistics", "seed": s, "record": s % 2})
    for nm in ("NUMBERED", "UUID"):
        for n in (0, 2):
            cases.append({"kind": "serializable", "what": "DirectoryCreator", "naming": nm, "n_pre": n})
    for c in ("SimpleCache", "HDF5Cache", "MemoryFullCache"):
        cases.append({"kind": "cache", "cache": c, "seed": 0, "n_entries": 2})
    cases.append({"kind": "discipline", "recipe": "Sellar1", "cache": "MemoryFullCache", "moment": "executed", "seed": 1})
    cases.append({"kind": "discipline", "recipe": "Sellar1", "cache": "HDF5Cache", "moment": "linearized", "seed": 1})
    cases.append({"kind": "discipline", "recipe": "Sellar1", "cache": "none", "moment": "linearized", "seed": 1, "serializer": "gemseo"})
    for g in ("SimpleGrammar", "PydanticGrammar"):
        cases.append({"kind": "discipline", "recipe": "MDOChain", "grammar": g, "moment": "executed", "seed": 1})
    # settings changed after creation / after use (every cache type that can be pickled, every grammar type)
    for c in ("SimpleCache", "HDF5Cache"):
        for m in ("fresh", "executed", "linearized"):
            cases.append({"kind": "discipline", "recipe": "Sellar1", "cache": c, "moment": m, "seed": 3,
                          "edits": [["cache-tol", "1/64"], ["cache-name", "renamed"], ["use", 0], ["cache-tol", "1/1024"]]})
    for g in ("JSONGrammar", "SimpleGrammar", "PydanticGrammar"):
        for m in ("fresh", "executed"):
            cases.append({"kind": "discipline", "recipe": "Sellar1", "grammar": g, "moment": m, "seed": 4, "blind": True,
                          "edits": [["use", 0], ["in-optional", 0], ["in-default", 1], ["out-optional", 0]]})
            cases.append({"kind": "discipline", "recipe": "MDOChain", "grammar": g, "moment": m, "seed": 4, "blind": m == "fresh",
                          "edits": [["in-optional", 1], ["use", 0], ["in-required", 0], ["in-optional", 0]]})
    for c in ("SimpleCache", "HDF5Cache"):
        cases.append({"kind": "cache", "cache": c, "seed": 1, "n_entries": 2, "edits": [["tol", "1/64"], ["name", "renamed"]]})
    # settings of the Jacobian approximator (an object created after the construction): user step, optimal steps
    # computed by set_optimal_fd_step(), parallel options, linearization mode set through the property
    for r in ("Sellar1", "AnalyticDiscipline", "AutoPyDiscipline", "MDOChain"):
        for m in ("fresh", "linearized"):
            cases.append({"kind": "discipline", "recipe": r, "moment": m, "seed": 6, "edits": [["fd-opt-step", 0, "1/128"]]})
            cases.append({"kind": "discipline", "recipe": r, "moment": m, "seed": 6, "blind": True,
                          "edits": [["jac-approx", 1, "1/1024", 0], ["use", 0], ["fd-opt-step", -1]]})
    cases.append({"kind": "discipline", "recipe": "Sellar1", "moment": "executed", "seed": 7, "edits": [["jac-approx", 0, "1/1024", 1]]})
    # exact stream: integer coefficients, dyadic step - the copy must return the difference quotient of the step
    # that was set; approximated in two processes: the copy too runs the perturbed points outside its own process
    for m in ("fresh", "executed", "linearized"):
        for mode in (0, 1):
            cases.append({"kind": "discipline", "recipe": "AffineDisc", "moment": m, "seed": 8 + mode, "cache": "none" if mode else "SimpleCache",
                          "serializer": "gemseo" if mode else "pickle", "edits": [["jac-approx", mode, "1/1024" if mode else "1/128", 0]]})
    cases.append({"kind": "discipline", "recipe": "AffineDisc", "moment": "executed", "seed": 8, "edits": [["jac-approx", 0, "1/256", 1]]})
    cases.append({"kind": "discipline", "recipe": "AffineDisc", "moment": "fresh", "seed": 9, "blind": True, "edits": [["jac-approx", 1, "1/256", 1]]})
    cases.append({"kind": "discipline", "recipe": "Sellar1", "moment": "executed", "seed": 7, "serializer": "gemseo",
                  "edits": [["lin-mode", 5], ["fd-opt-step", -1]]})
    cases.append({"kind": "discipline", "recipe": "MDOChain", "moment": "fresh", "seed": 7, "blind": True, "edits": [["lin-mode", 2]]})
    for sc in ("MDO", "DOE"):
        for m in ("fresh", "executed"):
            cases.append({"kind": "scenario", "scenario": sc, "formulation": "MDF", "moment": m, "algo": "SLSQP" if sc == "MDO" else "PYDOE_LHS"})
    for pb in ("Power2", "custom"):
        for m in ("fresh", "preprocessed", "solved"):
            cases.append({"kind": "problem", "problem": pb, "moment": m, "algo": "SLSQP", "seed": 5})
    for shape in ("f", "add", "concat", "lin-restrict"):
        cases.append({"kind": "function", "shape": shape, "moment": "used", "seed": 3})
    for s in range(2):
        cases.append({"kind": "design_space", "moment": "used", "seed": s})
        cases.append({"kind": "data", "seed": s})
    for g in ("JSONGrammar", "SimpleGrammar", "PydanticGrammar"):
        cases.append({"kind": "grammar", "grammar": g, "seed": 0})
    for a in ("PYDOE_LHS", "OT_HALTON", "MorrisDOE"):
        cases.append({"kind": "serializable", "what": "DOELibrary", "algo": a, "moment": "executed"})
    # non-default constructor options (`Class[option=value]`, see c20_catalog.class_variants): besides the three
    # moments above, linearized by complex step (the configuration `dtype=complex128` exists for it), the mode set
    # through `set_jacobian_approximation` or through the `linearization_mode` property, saved with the helpers
    for name in sorted(recipes):
        if CAT.is_variant(name):
            cases.append({"kind": "discipline", "recipe": name, "moment": "executed", "seed": 12, "serializer": "gemseo", "cache": "none",
                          "edits": [["jac-approx", 2, "1/1073741824", 0]]})
            cases.append({"kind": "discipline", "recipe": name, "moment": "fresh", "seed": 13, "blind": True, "n_post": 3,
                          "edits": [["lin-mode", "complex_step"]]})
    # the save/load helpers used more than once on the same file
    from harness import c20_reload as RL

    cases += RL.core_cases()
    return cases


def gen_edits(rng: common.Rng, cache: str) -> list[list[Any]]:
    """Settings changed through the public API between the construction (or the last use) and the pickling."""
    kinds = ["in-optional", "in-optional", "in-default", "in-default", "in-required", "out-optional", "use", "use"]
    # settings living in the Jacobian approximator (created after the construction) and the linearization mode
    kinds += ["jac-approx", "jac-approx", "fd-opt-step", "fd-opt-step", "lin-mode"]
    if cache != "none":
        kinds += ["cache-tol"] * 4 + ["cache-name"] * 2
    edits: list[list[Any]] = []
    for _ in range(rng.randint(1, 4)):
        k = rng.pick(kinds)
        if k == "cache-tol":
            edits.append([k, rng.pick(["1/64", "1/1024", "1/16", "0"])])
        elif k == "cache-name":
            edits.append([k, rng.pick(["renamed", "c2"])])
        elif k == "jac-approx":
            edits.append([k, rng.pick([0, 0, 1, 1, 2]), rng.pick(["1/128", "1/1024", "1/1048576"]), 1 if rng.chance(0.08) else 0])
        elif k == "fd-opt-step":
            edits.append([k, rng.pick([0, 0, 1, -1]), rng.pick(["1/128", "1/1024"])])
        elif k == "lin-mode":
            edits.append([k, rng.randint(0, 6)])
        else:
            edits.append([k, rng.randint(0, 5)])
    return edits


def gen_case(rng: common.Rng) -> dict[str, Any]:
    if rng.chance(0.15):
        from harness import c20_reload as RL

        return RL.gen_case(rng)  # the same file loaded two or three times, earlier loads used in between
    c = _gen_case(rng)
    if rng.chance(0.5) and c["kind"] in ("discipline", "grammar", "cache", "problem", "scenario", "design_space"):
        c["blind"] = True  # serialized before the harness observes anything (see c20_diff._view_and_serialize)
    return c


def _gen_case(rng: common.Rng) -> dict[str, Any]:
    from harness import c20_catalog as CAT

    recipes, _ = CAT.discipline_recipes()
    kind = rng.pick(["discipline"] * 10 + ["grammar"] * 3 + ["problem"] * 2 + ["scenario", "function", "design_space", "cache", "cache", "serializable", "data"])
    seed = rng.randint(0, 10**6)
    if kind == "discipline":
        c = {
            "kind": kind,
            "recipe": rng.pick(sorted(recipes)),
            "grammar": rng.pick(["JSONGrammar", "JSONGrammar", "SimpleGrammar", "PydanticGrammar"]),
            "cache": rng.pick(["none", "SimpleCache", "SimpleCache", "HDF5Cache", "MemoryFullCache", "MemoryFullCache[unshared]"]),
            "moment": rng.pick(CAT.MOMENTS),
            "serializer": rng.pick(["pickle", "gemseo", "pickle-highest"]),
            "n_pre": rng.randint(1, 3),
            "n_post": rng.randint(1, 2),
            "seed": seed,
        }
        if rng.chance(0.1):
            c["observer"] = rng.pick(["plain", "resource"])
        if rng.chance(0.5):
            c["edits"] = gen_edits(rng, c["cache"])
        return c
    ser = rng.pick(["pickle", "gemseo"])
    if kind == "grammar":
        return {"kind": kind, "grammar": rng.pick(["JSONGrammar", "SimpleGrammar", "SimplerGrammar", "PydanticGrammar"]), "seed": seed, "serializer": ser}
    if kind == "problem":
        return {
            "kind": kind,
            "problem": rng.pick(["Power2", "Rosenbrock", "custom", "custom-max", "custom-fd"]),
            "moment": rng.pick(["fresh", "preprocessed", "evaluated", "solved"]),
            "algo": rng.pick(["SLSQP", "SLSQP", "PYDOE_LHS", "L-BFGS-B"]),
            "normalize": rng.chance(0.5),
            "seed": seed,
            "serializer": ser,
        }
    if kind == "scenario":
        sc = rng.pick(["MDO", "MDO", "DOE"])
        return {
            "kind": kind,
            "scenario": sc,
            "formulation": rng.pick(["MDF", "IDF", "DisciplinaryOpt"]) if sc == "MDO" else "MDF",
            "moment": rng.pick(["fresh", "executed"]),
            "xdsm": rng.chance(0.3),
            "algo": "SLSQP" if sc == "MDO" else rng.pick(["PYDOE_LHS", "OT_HALTON"]),
            "serializer": ser,
        }
    if kind == "function":
        return {"kind": kind, "moment": rng.pick(["fresh", "used"]), "seed": seed, "serializer": ser,
                "shape": rng.pick(["f", "g", "lin", "quad", "neg", "add", "sub", "scal", "mul", "div", "offset", "lin-restrict", "concat", "convex"])}
    if kind == "design_space":
        return {"kind": kind, "moment": rng.pick(["fresh", "used"]), "seed": seed, "serializer": ser}
    if kind == "cache":
        c = {"kind": kind, "cache": rng.pick(["SimpleCache", "HDF5Cache", "HDF5Cache", "MemoryFullCache"]), "seed": seed, "serializer": ser}
        if rng.chance(0.7):
            c["edits"] = [rng.pick([["tol", rng.pick(["1/64", "1/8", "0", "1/1024"])], ["name", rng.pick(["renamed", "c2"])]]) for _ in range(rng.randint(1, 3))]
        return c
    if kind == "data":
        return {"kind": kind, "seed": seed, "serializer": ser}
    what = rng.pick(["ExecutionStatus", "ExecutionStatistics", "DirectoryCreator", "DOELibrary"])
    c = {"kind": kind, "what": what, "seed": seed, "serializer": ser}
    if what == "ExecutionStatus":
        c.update(observer=rng.pick([None, "plain", "resource"]), status=rng.pick(["DONE", "FAILED", "RUNNING", "LINEARIZING"]))
    elif what == "ExecutionStatistics":
        c.update(record=rng.chance(0.5))
    elif what == "DirectoryCreator":
        c.update(naming=rng.pick(["NUMBERED", "UUID"]), n_pre=rng.randint(0, 3))
    else:
        c.update(algo=rng.pick(["PYDOE_LHS", "OT_HALTON", "OT_MONTE_CARLO", "OT_LHS", "MorrisDOE", "PYDOE_FULLFACT", "Halton", "LHS", "MC", "Sobol", "DiagonalDOE"]), moment=rng.pick(["fresh", "executed"]))
    return c


def run_case(case: dict[str, Any], tmp: Path):
    from harness import c20_diff as D
    from harness import c20_diff2 as D2

    if case["kind"] == "discipline":
        return D.run_discipline_case(case, tmp)
    if case["kind"] == "xproc":
        return XP.run_job(case, tmp)
    if case["kind"] == "reload":
        from harness import c20_reload as RL

        return RL.run_reload_case(case, tmp)
    return D2.RUNNERS[case["kind"]](case, tmp)


# Simplifications tried when shrinking a failing case: (dimension, default value).
_SIMPLER = [
    ("serializer", "pickle"),
    ("moment", "fresh"),
    ("grammar", "JSONGrammar"),
    ("cache", "SimpleCache"),
    ("observer", None),
    ("xdsm", False),
    ("n_pre", 1),
    ("n_post", 1),
    ("status", "DONE"),
    ("n_entries", 0),
    ("edits", None),
    ("blind", None),
    ("rewrite", None),
    ("loads", 2),
    ("helper", "from_pickle"),
]


def subject_of(case: dict[str, Any], out=None) -> str:
    if case["kind"] == "reload":
        return subject_of({**case, "kind": case["what"]}, out)
    if case["kind"] == "discipline":
        from harness import c20_catalog as CAT

        recipes, _ = CAT.discipline_recipes()
        cls = (out.info.get("class") if out is not None else None) or recipes[case["recipe"]][0]
        return case["recipe"] if "[" in case["recipe"] else cls
    if case["kind"] == "serializable":
        return case["what"] if case["what"] != "DOELibrary" else f"DOELibrary[{case.get('algo')}]"
    if case["kind"] == "scenario":
        return f"{case.get('scenario', 'MDO')}Scenario"
    if case["kind"] == "problem":
        return f"OptimizationProblem[{case.get('problem')}]"
    if case["kind"] == "function":
        return f"MDOFunction[{case.get('shape')}]"
    if case["kind"] == "grammar":
        return case.get("grammar", "JSONGrammar")
    if case["kind"] == "cache":
        return case.get("cache", "SimpleCache")
    return {"design_space": "DesignSpace", "data": "DisciplineData"}[case["kind"]]


def shrink_case(case: dict[str, Any], fkind: str, tmp: Path) -> dict[str, Any]:
    cur = dict(case)
    for dim, default in _SIMPLER:
        if dim not in cur or cur[dim] == default:
            continue
        cand = dict(cur)
        if default is None:
            cand.pop(dim)
        else:
            cand[dim] = default
        try:
            o = run_case(cand, tmp)
        except Exception:  # noqa: BLE001
            continue
        if o.status == "ok" and any(k == fkind for k, _ in o.failures):
            cur = cand
    i = 0
    while cur.get("edits") and i < len(cur["edits"]):  # drop the edits the failure does not need
        cand = dict(cur)
        cand["edits"] = cur["edits"][:i] + cur["edits"][i + 1 :]
        if not cand["edits"]:
            cand.pop("edits")
        try:
            o = run_case(cand, tmp)
        except Exception:  # noqa: BLE001
            i += 1
            continue
        if o.status == "ok" and any(k == fkind for k, _ in o.failures):
            cur = cand
        else:
            i += 1
    return cur


def violation_key(case: dict[str, Any], fkind: str, out=None) -> str:
    """Stable classification: the essential non-default dimension (cache / observer) or else the subject class."""
    if case["kind"] == "discipline":
        cache = case.get("cache", "SimpleCache")
        if cache.startswith("MemoryFullCache"):
            return f"cache=MemoryFullCache:{fkind}"
        if case.get("observer"):
            return f"observer={case['observer']}:{fkind}"
    if case["kind"] == "serializable" and case.get("what") == "ExecutionStatus" and case.get("observer"):
        return f"observer={case['observer']}:{fkind}"
    return f"{subject_of(case, out)}:{fkind}"


def process_outcome(res: Result, case: dict[str, Any], out, tmp: Path, shrink: bool = True) -> None:
    res.evaluations += 1
    res.count(f"{case['kind']}:{out.status}")
    if out.status != "ok":
        if out.status == "noinst" and case["kind"] == "discipline":
            res.count(f"not-instantiable:{case.get('grammar', 'JSONGrammar')}")
        return
    for dim in ("grammar", "cache", "moment", "serializer"):
        if dim in case:
            res.count(f"{dim}={case[dim]}")
    if case["kind"] == "reload":
        res.count(f"reload:what={case['what']}")
        res.count(f"reload:loads={out.info.get('loads')}")
        res.count(f"reload:helper={out.info.get('helper')}")
        res.count("reload:file-" + ("written-again-then-loaded" if case.get("rewrite") else "never-rewritten"))
    if case["kind"] in ("discipline", "reload") and "=" in str(case.get("recipe", "")):
        res.count("discipline:non-default-constructor-option")
        res.count("discipline:option=" + case["recipe"].split("[", 1)[1].rstrip("]").split("=")[0].split(",")[-1])
        if out.info.get("complex_inputs"):
            res.count("discipline:complex-configured:executed-with-complex-inputs")
        if out.info.get("complex_step"):
            res.count("discipline:complex-configured:linearized-by-complex-step")
    if "blind" in out.info:
        res.count(f"{case['kind']}:" + ("serialized-before-any-observation" if out.info["blind"] else "viewed-then-serialized"))
    if case["kind"] in ("discipline", "cache", "grammar"):
        done = out.info.get("edits_done")
        if done is not None:
            res.count(f"{case['kind']}:life=" + ("edited-after-creation" if done else "as-constructed"))
            for k in sorted(set(done)):
                res.count(f"{case['kind']}:edit={k}")
        if out.info.get("near_inputs"):
            res.count("discipline:case-with-inputs-near-a-cached-input")
            if out.info.get("near_hits"):
                res.count("discipline:case-with-tolerance-based-cache-hit")
    res.nontrivial((case["kind"], subject_of(case, out), case.get("grammar"), case.get("cache"), case.get("moment"), case.get("serializer"), case.get("seed")))
    for fkind, what in out.failures:
        # shrink only the first failure of a class (a broken base class fails for every subclass and moment)
        seen = {v.key for v in res.violations}
        do_shrink = shrink and violation_key(case, fkind, out) not in seen and len(seen) < 40
        small = shrink_case(case, fkind, tmp) if do_shrink else case
        o2 = out
        if small != case:
            try:
                o2 = run_case(small, tmp)
            except Exception:  # noqa: BLE001
                small, o2 = case, out
        w2 = next((w for k, w in o2.failures if k == fkind), what)
        key = violation_key(small, fkind, o2)
        res.violate("oracle", key, f"{subject_of(small, o2)} [{json.dumps({k: v for k, v in small.items() if k not in ('kind', 'ops')}, default=str)}]: {fkind}: {w2}", {"case": small})


def _worker_init() -> None:
    os.environ.setdefault("OMP_NUM_THREADS", "1")
    try:
        os.setsid()  # own process group: everything a worker starts is killed with it at the end of the run
    except OSError:
        pass
    common.quiet_gemseo()


def needs_manager(case: dict[str, Any]) -> bool:
    """Cases that start GEMSEO's multiprocessing manager (MemoryFullCache): run in the main process."""
    return str(case.get("cache", "")).startswith("MemoryFullCache")


def _worker(case: dict[str, Any]):
    tmp = Path(tempfile.mkdtemp(prefix="c20w-"))
    try:
        common.quiet_gemseo()
        try:
            out = run_case(case, tmp)
        except Exception as e:  # noqa: BLE001
            from harness.c20_diff import Outcome

            out = Outcome(status="crash", detail=f"{type(e).__name__}: {e}")
        return case, out
    finally:
        shutil.rmtree(tmp, ignore_errors=True)


def load_corpus() -> list[dict[str, Any]]:
    d = common.CORPUS_DIR / PID
    cases = []
    if d.is_dir():
        for p in sorted(d.glob("*.json")):
            c = json.loads(p.read_text())
            c = dict(c.get("case", c))  # {"origin": ..., "case": {...}} or the bare case
            c["_file"] = p.name
            cases.append(c)
    return cases


# --------------------------------------------------------------------------- other interpreters (c20_xproc)


def xproc_jobs(seed: int, thorough: bool) -> list[dict[str, Any]]:
    """The cross-interpreter jobs of a run: every recipe of the catalogue once (batched: one writer interpreter
    and its readers per batch), the other object kinds, and the exact `ad` items."""
    from harness import c20_catalog as CAT

    rng = common.make_rng(seed, "c20-xproc")
    recipes, _ = CAT.discipline_recipes()
    names = sorted(recipes)
    items = []
    for name in names:
        it = {
            "kind": "discipline",
            "recipe": name,
            "grammar": rng.pick(["JSONGrammar", "JSONGrammar", "JSONGrammar", "SimpleGrammar", "PydanticGrammar"]),
            "cache": rng.pick(["SimpleCache", "SimpleCache", "none"]),
            "moment": rng.pick(CAT.MOMENTS),
            "serializer": rng.pick(["pickle", "gemseo", "pickle-highest"]),
            "n_pre": rng.randint(1, 2),
            "n_post": 2,
            "seed": rng.randint(0, 10**6),
        }
        if rng.chance(0.4):
            it["edits"] = gen_edits(rng, it["cache"])
        if rng.chance(0.5):
            it["blind"] = True
        items.append(it)
    rng.shuffle(items)  # (heavy recipes - MDAs, Sobieski - are neighbours in alphabetical order)
    n_batches = 6
    jobs = []
    base = 1000 + 17 * (seed % 10**6)
    for b in range(n_batches):
        batch = items[b::n_batches]
        w = base + 3 * b
        jobs.append({"kind": "xproc", "wseed": w, "rseeds": [w + 1, w + 2] if thorough else [w + 1], "via": "spawn" if b % 2 else "file", "items": batch})
    others = []
    for k in range(3):
        others.append({"kind": "function", "shape": rng.pick(["f", "g", "lin", "quad", "neg", "add", "sub", "scal", "mul", "div", "offset", "lin-restrict", "concat", "convex"]),
                       "moment": rng.pick(["fresh", "used"]), "seed": rng.randint(0, 10**6), "serializer": rng.pick(["pickle", "gemseo"])})
    for k in range(2):
        others.append({"kind": "design_space", "moment": rng.pick(["fresh", "used"]), "seed": rng.randint(0, 10**6), "serializer": rng.pick(["pickle", "gemseo"])})
    for k in range(3):
        others.append({"kind": "problem", "problem": rng.pick(["Power2", "Rosenbrock", "custom", "custom-max", "custom-fd"]), "moment": rng.pick(["fresh", "evaluated", "solved"]),
                       "algo": rng.pick(["SLSQP", "PYDOE_LHS", "L-BFGS-B"]), "seed": rng.randint(0, 10**6), "serializer": rng.pick(["pickle", "gemseo"])})
    others.append({"kind": "scenario", "scenario": "MDO", "formulation": rng.pick(["MDF", "IDF", "DisciplinaryOpt"]), "moment": rng.pick(["fresh", "executed"]), "algo": "SLSQP", "serializer": rng.pick(["pickle", "gemseo"])})
    others.append({"kind": "scenario", "scenario": "DOE", "formulation": "MDF", "moment": rng.pick(["fresh", "executed"]), "algo": rng.pick(["PYDOE_LHS", "OT_HALTON"]), "serializer": "pickle"})
    for k in range(4):
        others.append({"kind": "grammar", "grammar": rng.pick(["JSONGrammar", "JSONGrammar", "SimpleGrammar", "SimplerGrammar", "PydanticGrammar"]), "seed": rng.randint(0, 10**6), "serializer": rng.pick(["pickle", "gemseo"])})
    w = base + 40
    jobs.append({"kind": "xproc", "wseed": w, "rseeds": [w + 1], "via": rng.pick(["file", "spawn"]), "items": others})
    # the exact stream (and the `ad` protocol of the driver): two readers, so that the reader iterates over the
    # free symbols of most expressions in another order than the writer
    n_ad = 24 if thorough else 10
    w = base + 50
    jobs.append({"kind": "xproc", "wseed": w, "rseeds": [w + 1, w + 2], "via": "file", "items": [XP.gen_ad_item(rng) for _ in range(n_ad)]})
    jobs.append({"kind": "xproc", "wseed": w + 5, "rseeds": [w + 6], "via": "spawn", "items": [XP.gen_ad_item(rng) for _ in range(n_ad // 2)]})
    return jobs


def ad_line(item: dict[str, Any], wenv: dict[str, list[str]], renv: dict[str, list[str]], mode: str = "init") -> str:
    def mono(c, ss):
        return "*".join([rat(Fraction(c)), *ss])

    exprs = ";".join(f"{o}~{'+'.join(mono(c, ss) for c, ss in ms) or '_'}" for o, ms in item["exprs"])
    we = ";".join(f"{o}~{'+'.join(wenv[o]) or '_'}" for o, _ in item["exprs"])
    re_ = ";".join(f"{o}~{'+'.join(renv[o]) or '_'}" for o, _ in item["exprs"])
    pts = "|".join("+".join(f"{s}^{rat(Fraction(v))}" for s, v in sorted(p.items())) for p in item["points"])
    return f"ad exprs={exprs} wenv={we} renv={re_} mode={mode} pts={pts}"


def ad_block(item: dict[str, Any], rec: dict[str, Any]) -> str:
    """One observed discipline at one point, in the driver's format."""
    if "exc" in rec["out"] or "exc" in rec["jac"]:
        return "E"
    outs = sorted((o, rec["out"][o]) for o, _ in item["exprs"])
    jac = sorted((f"{o}.{n}", rec["jac"][o][n]) for o, ms in item["exprs"] for n in XP.ad_symbols(ms))
    f = lambda kv: ",".join(f"{k}^{rat(Fraction(v))}" for k, v in kv) or "[]"  # noqa: E731
    return f"{f(outs)};{f(jac)}"


def ad_impl_answer(item, exact_w, exact_r) -> str:
    return " | ".join(f"o={ad_block(item, a)} c={ad_block(item, b)}" for a, b in zip(exact_w, exact_r)) or "_"


def shrink_xitem(job: dict[str, Any], item: dict[str, Any], rseed, fkind: str, tmp: Path) -> dict[str, Any]:
    """A one-item, one-reader job on which the same failure kind still shows (confirmed by re-running it), with
    the simplifications that keep it."""
    base = {"kind": "xproc", "wseed": job["wseed"], "rseeds": [rseed] if rseed is not None else job["rseeds"][:1], "via": job.get("via", "file"), "items": [dict(item)]}

    def fails(j) -> bool:
        try:
            o = XP.run_job(j, tmp)
        except Exception:  # noqa: BLE001
            return False
        return o.status == "ok" and any(k == fkind for rec in o.info.get("items", []) for k, _, _ in rec["failures"])

    if not fails(base):
        return {"kind": "xproc", "wseed": job["wseed"], "rseeds": job["rseeds"], "via": job.get("via", "file"), "items": [dict(item)], "note": "not reproduced alone"}
    cur = base
    for dim, default in (("edits", None), ("moment", "fresh"), ("serializer", "pickle"), ("blind", None), ("grammar", "JSONGrammar")):
        it = cur["items"][0]
        if dim not in it or it[dim] == default:
            continue
        cand_item = dict(it)
        if default is None:
            cand_item.pop(dim)
        else:
            cand_item[dim] = default
        cand = dict(cur, items=[cand_item])
        if fails(cand):
            cur = cand
    if cur.get("via") == "spawn":
        cand = dict(cur, via="file")
        if fails(cand):
            cur = cand
    return cur


def process_xproc(res: Result, job: dict[str, Any], out, tmp: Path, budget: list[int]) -> list[tuple[dict[str, Any], dict[str, Any], str, str]]:
    """Record a cross-interpreter job; returns the `ad` correspondence work: (item, record, line, observed)."""
    res.count(f"xproc:job:{out.status}:via={job.get('via')}")
    work = []
    if out.status != "ok":
        res.notes.append(f"cross-interpreter job skipped ({len(job['items'])} items, writer seed {job['wseed']}): {out.detail[:300]}")
        for _ in job["items"]:
            res.count("xproc:item-skipped-with-its-job")
        return work
    for fail in out.info.get("reader_failures", []):
        res.notes.append("cross-interpreter reader: " + fail[:300])
    for item, rec in zip(job["items"], out.info["items"]):
        res.evaluations += 1
        res.count(f"xproc:{item['kind']}:{rec['status']}")
        if rec["status"] != "ok":
            if item["kind"] == "discipline":
                res.count("xproc:recipe-not-covered:" + rec["status"])
            continue
        res.count(f"xproc:via={job.get('via')}")
        for dim in ("moment", "serializer"):
            if dim in item:
                res.count(f"xproc:{dim}={item[dim]}")
        if item["kind"] == "discipline":
            res.count("xproc:recipe-covered")
            for k in sorted(set(rec.get("edits_done") or [])):
                res.count(f"xproc:edit={k}")
        for k in sorted(set(rec.get("interpreter_dependent", []))):
            res.count("xproc:difference-also-shown-by-an-unserialized-twin-in-the-reader(not-a-verdict):" + k.split(":")[0])
            res.notes.append(f"{rec['subject']}: {k} between the writer's original and the reader's copy is also shown by a twin built by the reader's interpreter (hash-seed dependent class, not attributed to serialization)")
        res.nontrivial(("xproc", rec["subject"], job["wseed"], tuple(job["rseeds"]), job.get("via"), item.get("moment"), item.get("seed"), json.dumps(item.get("exprs"))))
        failed_kinds = set()
        for fkind, what, rseed in rec["failures"]:
            if fkind in failed_kinds:
                continue
            failed_kinds.add(fkind)
            key = f"{rec['subject']}:other-interpreter:{fkind}" if rseed is not None else f"{rec['subject']}:{fkind}"
            seen = {v.key for v in res.violations}
            small = {"kind": "xproc", "wseed": job["wseed"], "rseeds": [rseed] if rseed is not None else job["rseeds"], "via": job.get("via"), "items": [item]}
            if key not in seen and budget[0] > 0:
                budget[0] -= 1
                small = shrink_xitem(job, item, rseed, fkind, tmp)
            shown = {k: v for k, v in small["items"][0].items() if k != "kind"}
            res.violate("oracle", key, f"{rec['subject']} [{json.dumps(shown, default=str)[:400]}]: {fkind}: {what}", {"case": small})
        if item["kind"] == "ad" and "ad" in rec:
            wenv = rec["ad"]["wenv"]
            for o, ms in item["exprs"]:
                res.count(f"ad:symbols-in-expression={len(XP.ad_symbols(ms))}")
            for r, rr in rec["ad"]["readers"].items():
                for o, _ in item["exprs"]:
                    res.count("ad:reader-iterates-the-symbols-" + ("in-another-order" if wenv[o] != rr["renv"][o] else "like-the-writer"))
                work.append((item, {"failed": bool(rec["failures"]), "job": {"wseed": job["wseed"], "rseed": r, "via": job.get("via")}},
                             ad_line(item, wenv, rr["renv"]), ad_impl_answer(item, rec["ad"]["exact_w"], rr["exact"])))
    return work


def check_ad_correspondence(res: Result, work) -> None:
    """The `ad` protocol: the model `AD` (writer's and reader's iteration orders as observed) vs the real
    AnalyticDiscipline written by one interpreter and restored by another."""
    if not work:
        return
    lines = [w[2] for w in work]
    model = common.run_lean_driver(PID, lines)
    for (item, meta, line, impl), m in zip(work, model):
        res.evaluations += 1
        res.count("instance:ad")
        if impl == m:
            res.traces_validated += 1
            res.nontrivial(("ad", line))
            continue
        res.disagreements += 1
        if meta["failed"]:
            continue  # the oracle already reported this item with its replay
        res.violate(
            "correspondence",
            "instance:ad",
            f"model and implementation disagree on an AnalyticDiscipline restored by another interpreter: {line}",
            {"line": line, "expected(model)": m, "observed(implementation)": impl, "item": item, "job": meta["job"]},
        )


# --------------------------------------------------------------------------- run


def run(ctx) -> Result:
    res = Result(PID)
    res.rule = (
        "a case is non-trivial when the object was instantiated, serialized and restored (or the serialization was "
        "attempted) and compared with the original on its public views and on generated inputs; distinct = distinct "
        "(kind, class, grammar, cache, moment, serializer, seed) or distinct protocol line"
    )
    res.assumptions = [
        "pickle copies plain values by value (validated by the identity-disjointness scan on every restored object)",
        "objects are restored by the same GEMSEO sources: in the same process, or in another interpreter of the same installation with another hash seed (class attributes are not part of the state)",
        "the iteration order of a set of SymPy symbols is a function of the interpreter and of the set (model AD; observed once per expression and interpreter)",
        "a file-based cache shared by the original and its copy is used by one of them at a time (the twin protocol of the harness)",
    ]
    rng = ctx.rng
    tmp = Path(tempfile.mkdtemp(prefix="c20-"))
    t_start = time.time()
    try:
        table = get_table()
        # ---- translator: refusals, run-time cross-check, obligations (Python twin of Row.ok, to direct the search)
        for r in table["refused"]:
            res.notes.append("translator refused: " + r)
        for pb in TR.cross_check(table):
            res.violate("correspondence", "table-vs-runtime", "the extracted class table differs from run-time introspection: " + pb, {"problem": pb})
        failing_rows = {r["name"]: TR.row_problems(r) for r in table["rows"] if TR.row_problems(r)}
        failing_custom = {r["name"]: TR.custom_problems(r) for r in table["customs"] if TR.custom_problems(r)}
        dead = {r["name"]: TR.dead_exclusions(r) for r in table["rows"] if TR.dead_exclusions(r)}
        res.extra["table"] = {
            "rows": len(table["rows"]),
            "custom_rows": len(table["customs"]),
            "rows_with_exclusions_or_hooks": sum(1 for r in table["rows"] if r["excluded"] or r["before"] or r["after"] or r["post"]),
            "failing_obligations": {**failing_rows, **failing_custom},
            "dead_exclusions (names that are never an attribute, e.g. un-mangled private names)": dead,
            "source": str(gemseo_src()),
        }
        for name, pbs in {**failing_rows, **failing_custom}.items():
            res.notes.append(f"table obligation fails for {name}: {pbs} -> searching a concrete failing object")

        # ---- corpus first
        corpus_xjobs: list[dict[str, Any]] = []
        for c in load_corpus():
            c = dict(c)
            fname = c.pop("_file")
            if c.get("kind") == "xproc":
                corpus_xjobs.append(c)  # (run with the other cross-interpreter jobs, in the pool)
            elif c.get("kind") == "probe":
                check_probe_cases(res, [c], True)
            elif c.get("kind") in ("jg", "h5", "jgl", "h5l"):
                check_instance_cases(res, [c], tmp)
            elif c.get("kind") == "ps":
                from harness import c20_reload as RL

                RL.check_sessions(res, [c], tmp)
            else:
                process_outcome(res, c, run_case(c, tmp), tmp, shrink=False)
            res.count("corpus")
            _ = fname

        # ---- Serializable protocol vs model
        n_probe = 400 if ctx.thorough else 120
        check_probe_cases(res, [gen_probe_case(rng, True) for _ in range(n_probe)], True)
        check_probe_cases(res, [gen_probe_case(rng, False) for _ in range(n_probe // 4)], False)
        check_instances(res, rng, 60 if ctx.thorough else 24, tmp)

        # ---- the save/load helpers used more than once: sessions on the bare protocol vs the model (Proc)
        from harness import c20_reload as RL

        ps_rng = common.make_rng(ctx.seed, "c20-ps")
        RL.check_sessions(res, [RL.gen_ps_case(ps_rng) for _ in range(400 if ctx.thorough else 100)], tmp)

        # ---- real objects vs table-driven model
        check_real_objects(res, collect_real_objects(tmp, rng, not ctx.thorough))

        # ---- differential streams (parallel workers; the case list is fixed before the pool starts)
        cases = core_cases()
        n_random = 4000 if ctx.thorough else 450
        sub = common.make_rng(ctx.seed, "c20-cases")
        cases += [gen_case(sub) for _ in range(n_random)]
        if ctx.thorough:
            from harness import c20_catalog as CAT

            recipes, _ = CAT.discipline_recipes()
            for name in sorted(recipes):
                for g in CAT.GRAMMARS:
                    for c in ("none", "SimpleCache", "HDF5Cache"):
                        for m in CAT.MOMENTS:
                            for s in CAT.SERIALIZERS:
                                cases.append({"kind": "discipline", "recipe": name, "grammar": g, "cache": c, "moment": m, "serializer": s, "seed": ctx.seed + 7})
        budget_end = min(ctx.deadline, t_start + (1000 if ctx.thorough else 110))
        n_workers = max(1, min(int(os.environ.get("VERIF_C20_WORKERS", "6")), os.cpu_count() or 4))
        # (workers must not be daemonic: MemoryFullCache starts a multiprocessing manager)
        from concurrent.futures import ProcessPoolExecutor
        from concurrent.futures import TimeoutError as FTimeout
        from concurrent.futures import as_completed

        n_core = len(core_cases())
        results = []
        xjobs = corpus_xjobs + xproc_jobs(ctx.seed, ctx.thorough)
        xresults = []
        pooled_core = [c for c in cases[:n_core] if not needs_manager(c)]
        pooled_rest = [c for c in cases[n_core:] if not needs_manager(c)]
        local = [c for c in cases if needs_manager(c)]
        pool = ProcessPoolExecutor(n_workers, mp_context=multiprocessing.get_context("forkserver"), initializer=_worker_init)
        pids: list[int] = []
        try:
            # (the cross-interpreter jobs first: they are the longest tasks; each starts its own interpreters)
            x_futs = [pool.submit(_worker, j) for j in xjobs]
            core_futs = [pool.submit(_worker, c) for c in pooled_core]
            rest_futs = [pool.submit(_worker, c) for c in pooled_rest]
            for c in local:  # meanwhile, in this process
                if time.time() > budget_end and c not in cases[:n_core]:
                    break
                results.append(_worker(c))
            pids = list((getattr(pool, "_processes", None) or {}).keys())
            for f in as_completed(core_futs, timeout=900):
                results.append(f.result())
            try:
                for f in as_completed(x_futs, timeout=max(60.0, min(900.0, ctx.deadline - time.time() - 120.0))):
                    xresults.append(f.result())
            except FTimeout:
                res.notes.append(f"{len(xjobs) - len(xresults)} of {len(xjobs)} cross-interpreter jobs did not finish in time (skipped, not a verdict)")
                res.count("xproc:job:unfinished", len(xjobs) - len(xresults))
            try:
                for f in as_completed(rest_futs, timeout=max(1.0, budget_end - time.time())):
                    results.append(f.result())
            except FTimeout:
                res.notes.append(f"time budget reached after {len(results)} of {len(cases)} differential cases")
        finally:
            pids = pids or list((getattr(pool, "_processes", None) or {}).keys())
            pool.shutdown(wait=False, cancel_futures=True)
            import signal as _signal

            for pid in pids:
                try:
                    os.killpg(pid, _signal.SIGKILL)
                except (ProcessLookupError, PermissionError, OSError):
                    pass
        # deterministic order of reporting
        results.sort(key=lambda co: json.dumps(co[0], sort_keys=True, default=str))
        for case, out in results:
            if out.status == "crash":
                res.count("harness-crash")
                res.notes.append(f"harness crash on {case}: {out.detail}")
                continue
            process_outcome(res, case, out, tmp, shrink=True)

        # ---- other interpreters: oracle per item, then the `ad` protocol against the model
        xresults.sort(key=lambda co: co[0]["wseed"])
        ad_work = []
        shrink_budget = [4]
        for job, out in xresults:
            if out.status == "crash":
                res.count("harness-crash")
                res.notes.append(f"harness crash on a cross-interpreter job (writer seed {job['wseed']}): {out.detail}")
                continue
            ad_work += process_xproc(res, job, out, tmp, shrink_budget)
        check_ad_correspondence(res, ad_work)

        # ---- proof-directed search summary: a failing obligation must come with a concrete failing object
        for name, pbs in failing_rows.items():
            cls = name.split(".")[-1]
            hit = [v for v in res.violations if v.kind == "oracle" and (v.key.split(":")[0].split("[")[0] == cls)]
            if not hit:
                res.notes.append(f"no concrete failing object found for the failing table obligation of {name}: {pbs}")
                # the obligation `table_ok` of Props/C20.lean no longer checks for this class and the search
                # found no object on which the oracle fails: reported as such (DESIGN.md section 3)
                res.violate(
                    "correspondence",
                    f"table-obligation:{cls}",
                    f"the serialization obligation Row.ok no longer holds for {name}: {pbs} (theorem table_ok of Props/C20.lean)",
                    {"theorem": "GV.C20.table_ok", "row": next(r for r in table["rows"] if r["name"] == name), "problems": pbs},
                )
        for name, pbs in failing_custom.items():
            res.violate(
                "correspondence",
                f"custom-table-obligation:{name.split('.')[-1]}",
                f"the obligation CustomRow.ok no longer holds for {name}: {pbs} (theorem custom_table_ok of Props/C20.lean)",
                {"theorem": "GV.C20.custom_table_ok", "problems": pbs},
            )
        _, skipped = __import__("harness.c20_catalog", fromlist=["x"]).discipline_recipes()
        res.extra["classes_skipped (external tools)"] = skipped
    finally:
        shutil.rmtree(tmp, ignore_errors=True)
    return res


# --------------------------------------------------------------------------- replay


def replay(path: str) -> int:
    data = json.loads(Path(path).read_text())
    rp = data.get("replay", data)
    case = rp.get("case")
    tmp = Path(tempfile.mkdtemp(prefix="c20r-"))
    try:
        if case is None:
            print("replay file without a case (proof obligation or correspondence):")
            print(json.dumps(rp, indent=1, default=str)[:3000])
            if "line" in rp:
                m = common.run_lean_driver(PID, [rp["line"]])[0]
                print("model now answers:", m)
            return 0
        print("case:", json.dumps(case, default=str))
        if case.get("kind") == "probe":
            impl, obs = probe_impl(case)
            m = common.run_lean_driver(PID, [probe_line(case)])[0]
            print("implementation:", impl)
            print("model         :", m)
            bad = probe_oracle(case, obs)
            for k, w in bad:
                print("ORACLE FAILS:", k, w)
            return 1 if bad else 0
        if case.get("kind") == "ps":
            from harness import c20_reload as RL

            line = RL.ps_line(case)
            impl, bad, _ = RL.ps_run(case, tmp)
            print("line          :", line)
            print("implementation:", impl)
            print("model         :", common.run_lean_driver(PID, [line])[0])
            for key, what in bad:
                print("ORACLE FAILS:", key, "|", what)
            return 1 if bad else 0
        if case.get("kind") in ("jg", "h5", "jgl", "h5l"):
            line = instance_line(case)
            impl, bad = instance_run(case, tmp)
            print("line          :", line)
            print("implementation:", impl)
            print("model         :", common.run_lean_driver(PID, [line])[0])
            for key, what in bad:
                print("ORACLE FAILS:", key, "|", what)
            return 1 if bad else 0
        out = run_case(case, tmp)
        print("status:", out.status, out.detail)
        for k, w in out.failures:
            print("ORACLE FAILS:", k, "|", w)
        return 1 if out.failures else 0
    finally:
        shutil.rmtree(tmp, ignore_errors=True)
