"""Harness disciplines of the C08 check (real module file: GEMSEO's docstring inheritance needs the source).

`LinDisc` is an affine discipline over scalar (size-1) variables:
    out_k = const_k + sum_j coef_kj * in_j
with coefficients that are exactly representable floats (small dyadic rationals), so that an
acyclic composition is evaluated without any rounding and can be compared exactly with a
`fractions.Fraction` monolithic solve.
"""

from __future__ import annotations

from typing import TYPE_CHECKING

from numpy import array

from gemseo.core.discipline.discipline import Discipline

if TYPE_CHECKING:
    from collections.abc import Iterable
    from collections.abc import Mapping

    from gemseo.typing import StrKeyMapping


class LinDisc(Discipline):
    """An affine discipline with scalar variables."""

    def __init__(
        self,
        name: str,
        input_names: Iterable[str],
        outputs: Mapping[str, tuple[float, Mapping[str, float]]],
        defaults: Mapping[str, float] | None = None,
    ) -> None:
        """
        Args:
            input_names: The names of the inputs.
            outputs: For each output name, the constant term and the coefficients of the inputs.
            defaults: The default values of (some of) the inputs; all inputs default to 0 when None.
        """  # noqa: D205 D212 D415
        super().__init__(name=name)
        input_names = list(input_names)
        self.io.input_grammar.update_from_names(input_names)
        self.io.output_grammar.update_from_names(list(outputs))
        if defaults is None:
            defaults = dict.fromkeys(input_names, 0.0)
        self.io.input_grammar.defaults.update({k: array([float(v)]) for k, v in defaults.items()})
        self.lin_outputs = {k: (float(c), {i: float(a) for i, a in co.items()}) for k, (c, co) in outputs.items()}
        self.n_runs = 0

    def _run(self, input_data: StrKeyMapping) -> StrKeyMapping | None:
        self.n_runs += 1
        out = {}
        for name, (const, coefs) in self.lin_outputs.items():
            v = const
            for iname, a in coefs.items():
                v = v + a * float(input_data[iname][0])
            out[name] = array([v])
        return out

    def _compute_jacobian(self, input_names=(), output_names=()) -> None:
        self._init_jacobian(input_names, output_names)
        for name, (_, coefs) in self.lin_outputs.items():
            if name not in self.jac:
                continue
            for iname, a in coefs.items():
                if iname in self.jac[name]:
                    self.jac[name][iname][0, 0] = a
