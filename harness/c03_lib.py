"""Harness-side optimization library whose `_run` replays a script of requests (C03).

It goes through the real `BaseDriverLibrary.execute` / `BaseOptimizationLibrary._pre_run`
(preprocessing, listeners, counter, termination handling): only the *algorithm* is scripted.
"""

from __future__ import annotations

from dataclasses import dataclass
from typing import Any
from typing import ClassVar

import numpy as np

from gemseo.algos.opt.base_optimization_library import BaseOptimizationLibrary
from gemseo.algos.opt.base_optimization_library import OptimizationAlgorithmDescription


@dataclass
class ScriptDesc(OptimizationAlgorithmDescription):
    """Scripted driver."""

    library_name: str = "VerifScript"


class ScriptOpt(BaseOptimizationLibrary):
    """A driver issuing a fixed list of (function name, kind, point) requests."""

    _OPTIONS_MAP: ClassVar[dict[Any, str]] = {}

    ALGORITHM_INFOS: ClassVar[dict[str, OptimizationAlgorithmDescription]] = {
        "VerifScript": ScriptDesc(
            algorithm_name="VerifScript",
            description="scripted requests",
            internal_algorithm_name="script",
            handle_equality_constraints=True,
            handle_inequality_constraints=True,
            handle_integer_variables=True,
        ),
    }

    def __init__(self, script, algo_name: str = "VerifScript") -> None:
        super().__init__(algo_name)
        self.script = script

    def _run(self, problem, **options: Any):
        funcs = {problem.objective.name: problem.objective}
        for c in problem.constraints:
            funcs[c.name] = c
        for name, kind, x in self.script:
            f = funcs[name]
            x = np.array(x, dtype=float)
            if kind == "v":
                f.evaluate(x)
            else:
                f.jac(x)
        return "script finished", 0


class RaisingOpt(ScriptOpt):
    """A driver that evaluates the script, then stops the way an algorithm wrapper or a GEMSEO stop test does:
    by raising an exception of the given class from inside `_run`."""

    def __init__(self, script, exc_class, algo_name: str = "VerifScript") -> None:
        super().__init__(script, algo_name)
        self.exc_class = exc_class

    def _run(self, problem, **options: Any):
        super()._run(problem, **options)
        raise self.exc_class
