"""Translator of C18: Python `ast` -> Lean `Expr` for the kernel derivative formulas of /repo.

`RBFRegressor.RBFDerivatives.der_*` (src/gemseo/mlearning/regression/algos/rbf.py) are one-line NumPy
formulas. Each is parsed with `ast` and re-emitted as a term of `GV.C18.Expr`
(lean/GemseoVerif/Model/C18.lean) into lean/GemseoVerif/Gen/C18Kernels.lean, on every run.

Grammar accepted (anything else is refused, the property then loses the theorem of that kernel):
  names `input_data` (var 0), `norm_input_data` (var 1), `eps` (var 2), `cls.TOL` (var 3);
  int/float literals (floats must be exact dyadic rationals);
  `a + b`, `a - b`, `a * b`, `a / b`, `-a`, `+a`;
  `a ** n` with a literal n: non-negative integer, or k + 0.5 (translated to `a^k * sqrt a`);
  `sqrt(a)`, `exp(a)`, `log(a)` (the NumPy functions imported by name in the module);
  a single comparison `a > b` / `a < b` (used as a 0/1 factor).
The body of a method must be an optional docstring followed by one `return <expression>`.
"""

from __future__ import annotations

import ast
import hashlib
from fractions import Fraction
from pathlib import Path

KERNELS = (
    "multiquadric",
    "inverse_multiquadric",
    "gaussian",
    "linear",
    "cubic",
    "quintic",
    "thin_plate",
)
VARS = {"input_data": 0, "norm_input_data": 1, "eps": 2}
FUNCS = {"sqrt": "sqrt", "exp": "exp", "log": "log"}
RBF_PATH = "src/gemseo/mlearning/regression/algos/rbf.py"


class Refused(Exception):
    pass


def _const(v) -> str:
    if isinstance(v, bool) or not isinstance(v, (int, float)):
        raise Refused(f"literal {v!r}")
    f = Fraction(v)
    if f.denominator == 1:
        return f"(const {f.numerator})" if f >= 0 else f"(const ({f.numerator}))"
    return f"(const (({f.numerator} : Rat) / {f.denominator}))"


def to_lean(node: ast.AST) -> str:
    if isinstance(node, ast.Name):
        if node.id in VARS:
            return f"(var {VARS[node.id]})"
        raise Refused(f"name {node.id}")
    if isinstance(node, ast.Attribute):
        if isinstance(node.value, ast.Name) and node.value.id == "cls" and node.attr == "TOL":
            return "(var 3)"
        raise Refused(f"attribute {ast.unparse(node)}")
    if isinstance(node, ast.Constant):
        return _const(node.value)
    if isinstance(node, ast.UnaryOp):
        if isinstance(node.op, ast.USub):
            return f"(neg {to_lean(node.operand)})"
        if isinstance(node.op, ast.UAdd):
            return to_lean(node.operand)
        raise Refused(f"unary operator {type(node.op).__name__}")
    if isinstance(node, ast.BinOp):
        if isinstance(node.op, ast.Pow):
            if not isinstance(node.right, ast.Constant) or isinstance(node.right.value, bool):
                raise Refused("exponent is not a literal")
            e = node.right.value
            base = to_lean(node.left)
            if isinstance(e, int) and e >= 0:
                return f"(pow {base} {e})"
            if isinstance(e, float) and e > 0 and Fraction(e).denominator == 2:
                k = int(Fraction(e) - Fraction(1, 2))
                return f"(sqrt {base})" if k == 0 else f"(mul (pow {base} {k}) (sqrt {base}))"
            raise Refused(f"exponent {e!r}")
        ops = {ast.Add: "add", ast.Sub: "sub", ast.Mult: "mul", ast.Div: "div"}
        for cls_, name in ops.items():
            if isinstance(node.op, cls_):
                return f"({name} {to_lean(node.left)} {to_lean(node.right)})"
        raise Refused(f"binary operator {type(node.op).__name__}")
    if isinstance(node, ast.Call):
        if isinstance(node.func, ast.Name) and node.func.id in FUNCS and len(node.args) == 1 and not node.keywords:
            return f"({FUNCS[node.func.id]} {to_lean(node.args[0])})"
        raise Refused(f"call {ast.unparse(node.func)}")
    if isinstance(node, ast.Compare):
        if len(node.ops) == 1 and len(node.comparators) == 1:
            a, b = to_lean(node.left), to_lean(node.comparators[0])
            if isinstance(node.ops[0], ast.Gt):
                return f"(gt {a} {b})"
            if isinstance(node.ops[0], ast.Lt):
                return f"(gt {b} {a})"
        raise Refused(f"comparison {ast.unparse(node)}")
    raise Refused(f"syntax {type(node).__name__}")


def rbf_source_file() -> Path:
    """The rbf.py actually imported by this process (PYTHONPATH may point to a scratch worktree)."""
    import importlib.util

    spec = importlib.util.find_spec("gemseo.mlearning.regression.algos.rbf")
    return Path(spec.origin)


def extract(rbf_py: Path) -> dict[str, dict[str, str]]:
    """kernel -> {"source": python expression, "lean": term} or {"refused": reason}."""
    src = rbf_py.read_text()
    tree = ast.parse(src)
    out: dict[str, dict[str, str]] = {}
    ders = None
    for node in ast.walk(tree):
        if isinstance(node, ast.ClassDef) and node.name == "RBFDerivatives":
            ders = node
    if ders is None:
        return {k: {"refused": "class RBFDerivatives not found"} for k in KERNELS}
    methods = {n.name: n for n in ders.body if isinstance(n, ast.FunctionDef)}
    # the module must bind sqrt/exp/log to NumPy's functions
    imported = set()
    for node in tree.body:
        if isinstance(node, ast.ImportFrom) and node.module == "numpy":
            for a in node.names:
                imported.add(a.asname or a.name)
    for k in KERNELS:
        m = methods.get(f"der_{k}")
        if m is None:
            out[k] = {"refused": f"method der_{k} not found"}
            continue
        try:
            args = [a.arg for a in m.args.args]
            if args != ["cls", "input_data", "norm_input_data", "eps"] or m.args.vararg or m.args.kwarg or m.args.kwonlyargs:
                raise Refused(f"signature {args}")
            body = list(m.body)
            if body and isinstance(body[0], ast.Expr) and isinstance(body[0].value, ast.Constant) and isinstance(body[0].value.value, str):
                body = body[1:]
            if len(body) != 1 or not isinstance(body[0], ast.Return) or body[0].value is None:
                raise Refused("body is not a single return statement")
            expr = body[0].value
            for n in ast.walk(expr):
                if isinstance(n, ast.Call) and isinstance(n.func, ast.Name) and n.func.id not in imported:
                    raise Refused(f"{n.func.id} is not imported from numpy")
            out[k] = {"source": ast.unparse(expr), "lean": to_lean(expr)}
        except Refused as e:
            out[k] = {"refused": str(e)}
    return out


def render(table: dict[str, dict[str, str]]) -> str:
    lines = [
        "/-",
        "GENERATED by harness/translate_c18.py from the bodies of",
        "`RBFRegressor.RBFDerivatives.der_*` (src/gemseo/mlearning/regression/algos/rbf.py) — do not edit.",
        "var 0 = input_data, var 1 = norm_input_data, var 2 = eps, var 3 = cls.TOL",
        "-/",
        "import GemseoVerif.Model.C18",
        "",
        "namespace GV.C18.Gen",
        "open GV.C18 GV.C18.Expr",
        "",
    ]
    ok = []
    for k in KERNELS:
        e = table[k]
        if "lean" in e:
            lines.append(f"/-- `{e['source']}` -/")
            lines.append(f"def der_{k} : Expr :=")
            lines.append(f"  {e['lean']}")
            lines.append("")
            ok.append(k)
        else:
            lines.append(f"-- der_{k}: REFUSED by the translator ({e['refused']}); no definition is generated,")
            lines.append(f"-- the theorem `der_{k}_correct` can therefore not be checked.")
            lines.append("")
    lines.append("/-- The translated formulas by kernel name (used by the driver). -/")
    lines.append("def table : List (String × Expr) :=")
    lines.append("  [" + ", ".join(f'("{k}", der_{k})' for k in ok) + "]")
    lines.append("")
    lines.append("end GV.C18.Gen")
    return "\n".join(lines) + "\n"


def regenerate(rbf_py: Path, lean_dir: Path) -> dict[str, dict[str, str]]:
    table = extract(rbf_py)
    text = render(table)
    out = lean_dir / "GemseoVerif" / "Gen" / "C18Kernels.lean"
    out.parent.mkdir(parents=True, exist_ok=True)
    if not out.exists() or out.read_text() != text:
        out.write_text(text)
    table["_sha256"] = {"value": hashlib.sha256(text.encode()).hexdigest()}
    return table


if __name__ == "__main__":
    import sys

    t = regenerate(Path(sys.argv[1]) if len(sys.argv) > 1 else rbf_source_file(), Path(__file__).resolve().parent.parent / "lean")
    for k, v in t.items():
        print(k, v)
