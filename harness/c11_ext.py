"""C11, second generation of the oracle-only streams (problem descriptions and sparse Jacobians in caches).

`pbd` cases: optimization problems built by hand from a generated *specification* of every piece of
information `OptimizationProblem.to_hdf` writes: the design variables (1-3 variables whose names have
one or several characters), the description of every function (name, f_type, expr, input_names,
output_names with 1, 2 and 3 names of one and several characters, dim, special_repr), the
optimization description (minimize flag, linearity with MDOLinearFunction objective/constraints,
differentiation method and step, constraint tolerances incl. 0) and a solution given field by field
(incl. the falsy scalars 0, 0.0, False, and None). The oracle compares the reloaded problem with the
in-memory one field by field AND with the specification for the fields the specification fixes.

`jac` cases: HDF5Cache files whose Jacobian blocks are dense arrays or SciPy sparse containers of
every format (CSR, CSC, COO, LIL, DOK, DIA, BSR; array and matrix flavours), square non-symmetric and
rectangular, several blocks per entry, 1-2 nodes per file; a NEW HDF5Cache on the same file and
node must give back the cached values (entry by entry through `cache[inputs]`, `get_all_entries`
and `last_entry`).
"""

from __future__ import annotations

import json
import os
import shutil
from fractions import Fraction
from pathlib import Path
from typing import Any

import numpy as np

from harness import common
from harness.common import rat

# =========================================================================== problem descriptions

VAR_NAMES = ["x", "y", "z", "a", "alpha", "x_shared", "y_long", "Mach", "x10", "x_1"]
OUT_NAMES = ["f", "o", "y", "obj_out", "y_1", "lift", "cl", "out10", "out2"]
FUNC_NAMES = ["f", "obj", "cost", "g", "c_1", "h10", "h2", "lift_cstr", "B", "o", "obs_2", "zz"]
EXPRS = ["", "", "alpha**2", "sum((x-0.25)**2)", "x[0]+2*y", "1"]
SPECIAL_REPRS = ["", "", "", "my f(x) = something", "F"]
MESSAGES = [None, "", "ok", "converged: |df| < 1e-6", "Positive directional derivative for linesearch", "8"]
OPTIMIZERS = [None, "SLSQP", "A", "by_hand"]
DIFF_METHODS = ["user", "user", "finite_differences", "complex_step", "centered_differences"]


def _names(rng, pool, n, one_char: bool | None = None):
    if one_char is True:
        pool = [p for p in pool if len(p) == 1]
    elif one_char is False:
        pool = [p for p in pool if len(p) > 1]
    return rng.sample(pool, min(n, len(pool)))


def gen_func(rng, name: str, var_names: list[str], linear: bool, mono: bool = False) -> dict[str, Any]:
    n_in = rng.pick([1, 1, 1, 2, 3, 0]) if not linear else rng.pick([len(var_names), len(var_names), 0])
    if n_in and n_in <= len(var_names) and rng.chance(0.8):
        # names of design variables: a subset in the order of the design space
        idx = sorted(rng.sample(list(range(len(var_names))), n_in))
        input_names = [var_names[i] for i in idx]
    else:
        input_names = _names(rng, VAR_NAMES, n_in, rng.pick([None, True, False]))
    n_out = rng.pick([0, 1, 1, 1, 2, 3]) if not mono else rng.pick([0, 1, 1])
    output_names = _names(rng, OUT_NAMES, n_out, rng.pick([None, None, True, False]))
    dim = rng.pick([0, 1, 1, 1, 2, 3]) if not output_names else rng.pick([len(output_names), len(output_names), 0, 1])
    if mono:
        dim = rng.pick([0, 1, 1])
    return {
        "name": name,
        "input_names": input_names,
        "output_names": output_names,
        "dim": dim,  # 0: left to the first evaluation
        "out_size": dim or max(1, len(output_names)),
        "expr": rng.pick(EXPRS) if not linear else rng.pick([None, None, "lin(x)"]),
        "special_repr": rng.pick(SPECIAL_REPRS),
        "coef": [rat(Fraction(rng.randint(-8, 8), 4)) for _ in range(6)],
    }


def gen_solution(rng, spec) -> dict[str, Any] | None | str:
    r = rng.random()
    if r < 0.15:
        return None
    if r < 0.45:
        return {"from_problem": True, "optimizer_name": rng.pick(OPTIMIZERS), "message": rng.pick(MESSAGES),
                "status": rng.pick([None, 0, 0, 1, 8])}
    n = sum(v["size"] for v in spec["vars"])

    def vec(k):
        return [rat(Fraction(rng.pick([0, 0, 1, -2, 3, 5]), rng.pick([1, 2, 8]))) for _ in range(k)]

    cnames = [c["name"] for c in spec["cstr"]]
    x0, xo = rng.pick([None, vec(n), vec(n)]), rng.pick([None, vec(n), vec(n)])
    return {
        "x_0": x0,
        "x_opt": xo,
        "dicts": rng.chance(0.7),  # x_0_as_dict / x_opt_as_dict given (split per variable)
        "f_opt": rng.pick([None, "0", "0", "3/2", "-2"]),
        "f_opt_array": rng.chance(0.2),
        "objective_name": rng.pick(["", spec["obj"]["name"], "-" + spec["obj"]["name"]]),
        "status": rng.pick([None, 0, 0, 1, 8]),
        "optimizer_name": rng.pick(OPTIMIZERS),
        "message": rng.pick(MESSAGES),
        "n_obj_call": rng.pick([None, 0, 0, 5, 12]),
        "n_grad_call": rng.pick([None, 0, 3]),
        "n_constr_call": rng.pick([None, 0, 7]),
        "is_feasible": rng.chance(0.5),
        "optimum_index": rng.pick([None, 0, 0, 2, 11]),
        "constraint_values": None if (not cnames or rng.chance(0.3)) else {c: vec(rng.pick([1, 1, 2])) for c in cnames},
        "constraints_grad": None if (not cnames or rng.chance(0.5)) else {c: vec(n) for c in cnames},
    }


def gen_pbd_case(rng) -> dict[str, Any]:
    n_vars = rng.pick([1, 1, 1, 2, 2, 3])
    style = rng.pick([None, True, False])
    vars_ = [{"name": nm, "size": rng.pick([1, 1, 2])} for nm in _names(rng, VAR_NAMES, n_vars, style)]
    var_names = [v["name"] for v in vars_]
    linear = rng.chance(0.35)
    fnames = rng.sample(FUNC_NAMES, 6)
    n_c = rng.pick([0, 1, 1, 2, 3])
    n_o = rng.pick([0, 0, 1, 2])
    spec: dict[str, Any] = {
        "kind": "pbd",
        "node": rng.pick(["", "", "node", "a/b"]),
        "append": rng.chance(0.25),
        "pathlib": rng.chance(0.4),
        "vars": vars_,
        "linear": linear,
        "obj": gen_func(rng, fnames[0], var_names, linear, mono=True),
        "cstr": [
            {**gen_func(rng, fnames[1 + k], var_names, linear), "type": rng.pick(["eq", "ineq", "ineq"]),
             "positive": rng.chance(0.25), "value": rat(rng.pick([Fraction(0), Fraction(0), Fraction(1, 2), Fraction(-1, 4)]))}
            for k in range(n_c)
        ],
        "obs": [gen_func(rng, fnames[4 + k], var_names, False) for k in range(n_o)],
        "minimize": rng.chance(0.7),
        "diff_method": rng.pick(DIFF_METHODS),
        "diff_step": rng.pick([None, None, "1/1024", "1/1048576"]),
        "tols": None if rng.chance(0.4) else [rat(rng.pick([Fraction(1, 8), Fraction(1, 1024), Fraction(0)])),
                                              rat(rng.pick([Fraction(1, 4), Fraction(1, 4096), Fraction(0)]))],
        "preprocess": rng.chance(0.6),
        "points": [[rat(Fraction(rng.randint(-8, 8), 8)) for _ in range(6)] for _ in range(rng.pick([0, 1, 2, 3]))],
    }
    # the objective is scalar: a multi-output objective with a solution makes from_hdf rebuild a Pareto front
    spec["solution"] = gen_solution(rng, spec)
    if spec["solution"] is not None and not spec["obj"]["output_names"]:
        # a solution belongs to a problem whose objective has a known dimension (from_hdf takes an
        # objective of undetermined dimension for a multi-objective one and rebuilds a Pareto front)
        spec["obj"]["dim"] = 1
    return spec


def _func(spec, n: int, linear: bool, f_type=None):
    from gemseo.core.mdo_functions.mdo_function import MDOFunction
    from gemseo.core.mdo_functions.mdo_linear_function import MDOLinearFunction

    m = spec["out_size"]
    coef = [float(Fraction(t)) for t in spec["coef"]]
    a = np.array([[coef[(i + 2 * j) % 6] for j in range(n)] for i in range(m)])
    b = np.array([coef[(i + 3) % 6] for i in range(m)])
    if linear:
        kw = {}
        if spec["expr"] is not None:
            kw["expr"] = spec["expr"]
        fn = MDOLinearFunction(a, spec["name"], input_names=spec["input_names"], value_at_zero=b,
                               output_names=spec["output_names"], **kw)
        if spec["special_repr"]:
            fn.special_repr = spec["special_repr"]
        return fn

    def func(x, a=a, b=b, m=m):
        v = a @ x + b + (x[0] ** 2)
        return float(v[0]) if m == 1 else v

    def jac(x, a=a, m=m, n=n):
        j = a + 2 * x[0] * np.eye(1, n, 0)
        return j[0] if m == 1 else j

    return MDOFunction(func, spec["name"], jac=jac, expr=spec["expr"] or "", input_names=spec["input_names"],
                       dim=spec["dim"], output_names=spec["output_names"], special_repr=spec["special_repr"])


def build_pbd(case):
    """The in-memory problem of a `pbd` specification (every statement is plain public API)."""
    from gemseo.algos.design_space import DesignSpace
    from gemseo.algos.optimization_problem import OptimizationProblem
    from gemseo.algos.optimization_result import OptimizationResult
    from gemseo.core.mdo_functions.mdo_function import MDOFunction

    ds = DesignSpace()
    for v in case["vars"]:
        ds.add_variable(v["name"], size=v["size"], lower_bound=-4.0, upper_bound=4.0, value=np.full(v["size"], 0.5))
    n = ds.dimension
    pb = OptimizationProblem(ds, is_linear=case["linear"])
    pb.differentiation_method = case["diff_method"]
    if case["diff_step"]:
        pb.differentiation_step = float(Fraction(case["diff_step"]))
    pb.objective = _func(case["obj"], n, case["linear"])
    for c in case["cstr"]:
        pb.add_constraint(_func(c, n, case["linear"]), value=float(Fraction(c["value"])), positive=c["positive"],
                          constraint_type=MDOFunction.ConstraintType.EQ if c["type"] == "eq" else MDOFunction.ConstraintType.INEQ)
    for o in case["obs"]:
        pb.add_observable(_func(o, n, False))
    if not case["minimize"]:
        pb.minimize_objective = False
    if case["tols"]:
        pb.tolerances.equality = float(Fraction(case["tols"][0]))
        pb.tolerances.inequality = float(Fraction(case["tols"][1]))
    if case["preprocess"] or case["points"]:
        pb.preprocess_functions()
    for p in case["points"]:
        x = np.array([float(Fraction(t)) for t in (p * 2)[:n]])
        pb.evaluate_functions(design_vector=x, design_vector_is_normalized=False, jacobian_functions=())
    sol = case["solution"]
    if sol is None:
        return pb
    if sol.get("from_problem"):
        kw = {k: sol[k] for k in ("optimizer_name", "message", "status") if sol[k] is not None}
        pb.solution = OptimizationResult.from_optimization_problem(pb, **kw)
        return pb

    def arr(v):
        return None if v is None else np.array([float(Fraction(t)) for t in v])

    kw = {}
    for k in ("x_0", "x_opt"):
        if sol[k] is not None:
            kw[k] = arr(sol[k])
            if sol["dicts"]:
                kw[k + "_as_dict"] = ds.convert_array_to_dict(kw[k])
    if sol["f_opt"] is not None:
        f = float(Fraction(sol["f_opt"]))
        kw["f_opt"] = np.array([f]) if sol["f_opt_array"] else f
    for k in ("objective_name", "status", "optimizer_name", "message", "n_obj_call", "n_grad_call", "n_constr_call",
              "is_feasible", "optimum_index"):
        if sol[k] is not None:
            kw[k] = sol[k]
    for k in ("constraint_values", "constraints_grad"):
        if sol[k] is not None:
            kw[k] = {c: arr(v) for c, v in sol[k].items()}
    pb.solution = OptimizationResult(**kw)
    return pb


def _plain(v):
    """Plain, comparable image of a value that keeps the distinctions the property talks about:
    None / bool / int / float / str / list of str / numeric array (shape + values) / mapping."""
    if isinstance(v, np.ndarray) and v.dtype.kind in "USO":
        return ["strs", [t.decode() if isinstance(t, bytes) else str(t) for t in v.ravel().tolist()]]
    if isinstance(v, np.ndarray):
        return ["nd", list(v.shape), [repr(float(t)) for t in np.real(v).astype(float).ravel().tolist()]]
    if isinstance(v, (np.bool_, bool)):
        return bool(v)
    if isinstance(v, (np.floating, float)):
        return repr(float(v))
    if isinstance(v, (np.integer, int)):
        return int(v)
    if isinstance(v, dict):
        return {str(k): _plain(w) for k, w in v.items()}
    if isinstance(v, (list, tuple)):
        return [_plain(w) for w in v]
    if isinstance(v, bytes):
        return v.decode()
    return None if v is None else str(v)


FUNC_FIELDS = ("name", "f_type", "expr", "input_names", "dim", "special_repr", "output_names")

SOLUTION_FIELDS = ("x_0", "x_0_as_dict", "x_opt", "x_opt_as_dict", "f_opt", "objective_name", "status", "optimizer_name",
                   "message", "n_obj_call", "n_grad_call", "n_constr_call", "is_feasible", "optimum_index",
                   "constraint_values", "constraints_grad")


def func_desc(f) -> dict[str, Any]:
    return {k: _plain(getattr(f, k, None)) for k in FUNC_FIELDS}


def _norm_sol(field: str, v):
    """Same information, different container: a mapping without any value == None (None entries are
    not written); an empty string == no string; a number held in a 0-d/size-1 array or a Python/NumPy
    scalar is the same number (`f_opt`)."""
    if field in ("constraint_values", "constraints_grad", "x_0_as_dict", "x_opt_as_dict"):
        if isinstance(v, dict):
            v = {k: w for k, w in v.items() if w is not None}
        return v or None
    if field in ("message", "optimizer_name", "objective_name"):
        return v or None
    if field == "f_opt" and isinstance(v, list) and v and v[0] == "nd" and len(v[2]) == 1:
        return v[2][0]
    return v


def pbd_desc(pb) -> dict[str, Any]:
    from harness import c11

    sol = pb.solution
    return {
        "objective": func_desc(pb.objective),
        "constraints": [func_desc(c) for c in pb.constraints],
        "observables": [func_desc(c) for c in pb.observables],
        "minimize_objective": _plain(pb.minimize_objective),
        "is_linear": _plain(pb.is_linear),
        "differentiation_method": str(pb.differentiation_method),
        "differentiation_step": _plain(pb.differentiation_step),
        "tolerances": [_plain(pb.tolerances.equality), _plain(pb.tolerances.inequality)],
        "solution": None if sol is None else {k: _norm_sol(k, _plain(getattr(sol, k, None))) for k in SOLUTION_FIELDS},
        "database": c11.canon_db(pb.database),
        "design_space": c11.canon_ds(pb.design_space),
    }


def pbd_observe(case) -> dict[str, Any]:
    from gemseo.algos.optimization_problem import OptimizationProblem

    from harness import c11

    d = c11.fresh_dir()
    obs: dict[str, Any] = {}
    try:
        try:
            pb = build_pbd(case)
        except Exception as e:  # noqa: BLE001
            obs["build_exc"] = common.exc_class(e) + ": " + repr(e)[:160]
            return obs
        p = os.path.join(d, "pb.h5")
        try:
            obs["orig"] = pbd_desc(pb)
            line = pb_tokens(pb, stored_only=False)
            pb.to_hdf(Path(p) if case["pathlib"] else p, append=case["append"], hdf_node_path=case["node"])
            obs["orig_after"] = pbd_desc(pb)
            pb2 = OptimizationProblem.from_hdf(p, hdf_node_path=case["node"])
            obs["back"] = pbd_desc(pb2)
            back = pb_tokens(pb2, stored_only=True)
            if line is not None and back is not None:
                obs["line"] = "pbd " + line
                obs["impl"] = "file=" + raw_pb_file(p, case["node"]) + " back=" + back
        except Exception as e:  # noqa: BLE001
            obs["exc"] = common.exc_class(e) + ": " + repr(e)[:160]
    finally:
        shutil.rmtree(d, ignore_errors=True)
    return obs


def _spec_solution(case) -> dict[str, Any] | None:
    """What the specification says about the solution (explicit solutions only)."""
    sol = case["solution"]
    if sol is None or sol.get("from_problem"):
        return None
    out: dict[str, Any] = {}
    for k in ("status", "n_obj_call", "n_grad_call", "n_constr_call", "optimum_index"):
        out[k] = sol[k]
    out["is_feasible"] = bool(sol["is_feasible"])
    out["f_opt"] = None if sol["f_opt"] is None else repr(float(Fraction(sol["f_opt"])))
    for k in ("message", "optimizer_name", "objective_name"):
        out[k] = sol[k] or None
    for k in ("x_0", "x_opt"):
        out[k] = None if sol[k] is None else ["nd", [len(sol[k])], [repr(float(Fraction(t))) for t in sol[k]]]
    return out


def pbd_oracle(case, obs) -> list[tuple[str, str]]:
    """Clauses of the property broken by the reloaded problem: [(key, message)]."""
    if "build_exc" in obs:
        return []  # the specification could not be built (counted, never a violation)
    if "exc" in obs:
        return [("pb-roundtrip-raises", f"problem to_hdf/from_hdf raised {obs['exc']}")]
    bad = []
    a, b = obs["orig"], obs["back"]
    if obs["orig_after"] != a:
        bad.append(("pb-to-hdf-changes-problem", "to_hdf changed the in-memory problem"))
    specs = {"objective": [case["obj"]], "constraints": case["cstr"], "observables": case["obs"]}
    for grp in ("objective", "constraints", "observables"):
        fa = [a[grp]] if grp == "objective" else a[grp]
        fb = [b[grp]] if grp == "objective" else b[grp]
        if len(fa) != len(fb):
            bad.append((f"pb-{grp}-differ", f"{len(fb)} {grp} instead of {len(fa)}"))
            continue
        if grp != "objective" and [f["name"] for f in fa] != [f["name"] for f in fb] and \
                sorted(f["name"] for f in fa) == sorted(f["name"] for f in fb):
            bad.append((f"pb-{grp}-order", f"{grp} reloaded in order {[f['name'] for f in fb]} instead of {[f['name'] for f in fa]}"))
            continue
        for s, x, y in zip(specs[grp], fa, fb):
            for k in FUNC_FIELDS:
                if x[k] != y[k]:
                    bad.append((f"pb-function-{k}", f"{grp} {x['name']!r}: {k} reloaded as {y[k]!r} instead of {x[k]!r}"))
                    break
            else:
                # against the specification: the names given to the function are the ones read back
                if x["input_names"] == s["input_names"] and y["input_names"] != s["input_names"]:
                    bad.append(("pb-function-input_names", f"{grp} {x['name']!r}: input names {y['input_names']!r}, specified {s['input_names']!r}"))
    for k, label in (("minimize_objective", "pb-minimize-differs"), ("is_linear", "pb-is-linear-differs"),
                     ("differentiation_method", "pb-differentiation-differs"), ("differentiation_step", "pb-differentiation-differs"),
                     ("tolerances", "pb-tolerances-differ")):
        if a[k] != b[k]:
            bad.append((label, f"{k}: {b[k]!r} instead of {a[k]!r}"))
    if a["is_linear"] is not True and case["linear"]:
        pass  # the in-memory problem already lost the flag: nothing to say about the file
    if case["tols"] and b["tolerances"] != [repr(float(Fraction(t))) for t in case["tols"]]:
        bad.append(("pb-tolerances-differ", f"tolerances {b['tolerances']} instead of the specified {case['tols']}"))
    if _plain(bool(case["minimize"])) != b["minimize_objective"]:
        bad.append(("pb-minimize-differs", f"minimize_objective {b['minimize_objective']!r}, specified {case['minimize']!r}"))
    if (a["solution"] is None) != (b["solution"] is None):
        bad.append(("pb-solution-presence", "solution present on one side only"))
    elif a["solution"] is not None:
        for k in SOLUTION_FIELDS:
            if a["solution"][k] != b["solution"][k]:
                bad.append(("pb-solution-" + k, f"solution field {k}: {b['solution'][k]!r} instead of {a['solution'][k]!r}"))
                break
        else:
            spec = _spec_solution(case)
            for k, w in (spec or {}).items():
                if b["solution"][k] != w:
                    bad.append(("pb-solution-" + k, f"solution field {k}: {b['solution'][k]!r}, specified {w!r}"))
                    break
    if a["database"] != b["database"]:
        bad.append(("pb-database-differs", "the database of the reloaded problem differs"))
    if a["design_space"] != b["design_space"]:
        bad.append(("pb-design-space-differs", f"design space {b['design_space']} instead of {a['design_space']}"))
    return bad


# --------------------------------------------------------------------------- correspondence with the Lean model


def hx(s) -> str:
    s = str(s)
    return s.encode().hex() if s else "-"


def names_tok(names) -> str:
    return "+".join(hx(t) for t in names) if names else "[]"


def func_tok(d: dict[str, Any]) -> str:
    return ":".join([hx(d["name"]), hx(d["f_type"] or ""), hx(d["expr"] or ""), names_tok(d["input_names"]), str(int(d["dim"] or 0)),
                     hx(d["special_repr"] or ""), names_tok(d["output_names"])])


def _shape_tok(shape) -> str:
    return "x".join(str(t) for t in shape) if len(shape) else "_"


def _rats(values) -> str:
    return ",".join(rat(float(t)) for t in values) if len(values) else "[]"


def pyv_tok(v) -> str | None:
    """Token of a Python value handed to the writers (None when it has no image in the model)."""
    if v is None:
        return "N"
    if isinstance(v, (bool, np.bool_)):
        return "t:1" if v else "t:0"
    if isinstance(v, (int, np.integer)):
        return f"i:{int(v)}"
    if isinstance(v, (float, np.floating)):
        return "f:" + rat(float(v)) if np.isfinite(v) else None
    if isinstance(v, str):
        return "s:" + hx(v)
    if isinstance(v, np.ndarray) and v.dtype.kind in "fiu" and v.ndim >= 1 and np.isfinite(v.astype(float)).all():
        return "n:" + _shape_tok(v.shape) + ":" + _rats(v.astype(float).ravel().tolist())
    return None


def _is_empty(v) -> bool:
    return v is None or (isinstance(v, str) and not v) or (isinstance(v, np.ndarray) and v.ndim >= 1 and len(v) == 0)


def solution_items(sol, stored_only: bool) -> str | None:
    """The flat fields of `OptimizationResult.to_dict()` (mappings go to other groups, not modelled)."""
    toks = []
    for k, v in sorted(sol.to_dict().items()):
        if isinstance(v, dict):
            continue
        if stored_only and _is_empty(v):
            continue
        t = pyv_tok(v)
        if t is None:
            return None
        toks.append(hx(k) + "~" + t)
    return ";".join(toks) if toks else "-"


def pb_tokens(pb, stored_only: bool) -> str | None:
    """`<min> <lin> <method> <step> <ineq> <eq> obj=.. c=.. o=.. [sol=..]` of a real problem (public API)."""
    toks = ["1" if pb.minimize_objective else "0", "1" if pb.is_linear else "0", hx(str(pb.differentiation_method)),
            rat(float(pb.differentiation_step)), rat(float(pb.tolerances.inequality)), rat(float(pb.tolerances.equality)),
            "obj=" + func_tok(func_desc(pb.objective))]
    toks += ["c=" + func_tok(func_desc(c)) for c in pb.constraints]
    toks += ["o=" + func_tok(func_desc(c)) for c in pb.observables]
    if pb.solution is not None:
        items = solution_items(pb.solution, stored_only)
        if items is None:
            return None
        toks.append("sol=" + items)
    return " ".join(toks)


def _raw_dataset(ds) -> str:
    v = ds[()]
    if isinstance(v, (bytes, str)):
        return "b:" + hx(v.decode() if isinstance(v, bytes) else v)
    if isinstance(v, np.ndarray) and v.dtype.kind in "OSU":
        return "A:" + names_tok([t.decode() if isinstance(t, bytes) else str(t) for t in v.ravel().tolist()])
    if isinstance(v, np.ndarray):
        return "n:" + _shape_tok(v.shape) + ":" + _rats(v.astype(float).ravel().tolist())
    t = pyv_tok(v)
    return t if t is not None else "?"


def _raw_group(g) -> str:
    import h5py

    return "{" + "&".join(f"{k}={_raw_dataset(g[k])}" for k in sorted(g) if isinstance(g[k], h5py.Dataset)) + "}"


def raw_pb_file(path: str, node: str) -> str:
    """The groups `to_hdf` wrote about the problem, read through h5py."""
    import h5py

    with h5py.File(path, "r") as h5:
        g = h5[node] if node else h5
        out = "desc" + _raw_group(g["opt_description"]) + "obj" + _raw_group(g["objective"])
        for label, name in (("cstr", "constraints"), ("obs", "observables")):
            out += label + "[" + ("".join(hx(k) + _raw_group(g[name][k]) for k in g[name]) if name in g else "") + "]"
        out += "sol" + (_raw_group(g["solution"]) if "solution" in g else "-")
    return out


def shrink_pbd(case, key):
    def fails(c):
        try:
            return any(k == key for k, _ in pbd_oracle(c, pbd_observe(c)))
        except Exception:  # noqa: BLE001
            return False

    cur = case
    for k, v in (("obs", []), ("cstr", []), ("points", []), ("solution", None), ("append", False), ("pathlib", False),
                 ("minimize", True), ("diff_method", "user"), ("diff_step", None), ("tols", None), ("preprocess", False),
                 ("node", ""), ("linear", False)):
        if cur.get(k) != v:
            cand = {**cur, k: v}
            if k == "cstr" and isinstance(cur.get("solution"), dict) and not cur["solution"].get("from_problem"):
                cand["solution"] = {**cur["solution"], "constraint_values": None, "constraints_grad": None}
            if k == "linear":
                cand["obj"] = {**cur["obj"], "expr": cur["obj"]["expr"] or ""}
                cand["cstr"] = [{**c, "expr": c["expr"] or ""} for c in cur["cstr"]]
            if fails(cand):
                cur = cand
    for grp in ("cstr", "obs"):
        if len(cur[grp]) > 1:
            cur = {**cur, grp: common.shrink_list(cur[grp], lambda fs, grp=grp: fails({**cur, grp: fs}), budget=8)}
    if len(cur["vars"]) > 1 and not (isinstance(cur["solution"], dict) and not cur["solution"].get("from_problem")):
        for i in range(len(cur["vars"]) - 1, -1, -1):
            if len(cur["vars"]) > 1:
                cand = {**cur, "vars": cur["vars"][:i] + cur["vars"][i + 1:]}
                if fails(cand):
                    cur = cand
    return cur


def pbd_neighbours(case):
    for grp in ("cstr", "obs"):
        for i in range(len(case[grp])):
            yield {**case, grp: case[grp][:i] + case[grp][i + 1:]}
    yield {**case, "node": "" if case["node"] else "a/b"}
    yield {**case, "solution": None}
    yield {**case, "minimize": not case["minimize"]}
    yield {**case, "points": []}


def check_pbd_cases(res, cases, pid: str = "C11") -> None:
    observed = [(case, pbd_observe(case)) for case in cases]
    lines = [obs["line"] for _, obs in observed if "line" in obs]
    answers = iter(common.run_lean_driver(pid, lines)) if lines else iter(())
    for case, obs in observed:
        res.evaluations += 1
        model = next(answers) if "line" in obs else None
        if "build_exc" in obs:
            res.count("pbd:specification-not-buildable:" + obs["build_exc"].split(":")[0])
            continue
        res.count("pbd:node=" + ("root" if not case["node"] else "nested"))
        res.count("pbd:linear" if case["linear"] else "pbd:non-linear")
        if "orig" in obs and obs["orig"]["is_linear"] is True:
            res.count("pbd:is_linear=True-when-written")
        if not case["minimize"]:
            res.count("pbd:maximize")
        for f in [case["obj"], *case["cstr"], *case["obs"]]:
            for what in ("input_names", "output_names"):
                ns = f[what]
                res.count(f"pbd:function-{what}={len(ns)}" + ("" if not ns else
                          ":1-char" if all(len(t) == 1 for t in ns) else ":multi-char" if all(len(t) > 1 for t in ns) else ":mixed"))
            res.count(f"pbd:function-dim={f['dim']}")
            if f["special_repr"]:
                res.count("pbd:function-special_repr")
            if f["expr"]:
                res.count("pbd:function-expr")
        sol = case["solution"]
        res.count("pbd:solution=" + ("none" if sol is None else "from-problem" if sol.get("from_problem") else "field-by-field"))
        if "orig" in obs and obs["orig"]["solution"] is not None:
            so = obs["orig"]["solution"]
            for k in ("f_opt", "status", "optimum_index", "n_obj_call", "n_grad_call", "n_constr_call"):
                if so[k] in (0, "0.0") and so[k] is not False:
                    res.count(f"pbd:solution-{k}=0")
            if so["is_feasible"] is False:
                res.count("pbd:solution-is_feasible=False")
        if case["tols"] and "0" in case["tols"]:
            res.count("pbd:zero-tolerance")
        res.count(f"pbd:points={len(case['points'])}")
        if case["cstr"] or case["obs"]:
            res.nontrivial("pbd:" + json.dumps(case, sort_keys=True))
        res.sample({"case": "pbd", "protocol": (obs.get("line") or "")[:300], "impl": (obs.get("impl") or "")[:300], "model": (model or "")[:300]})
        bad = pbd_oracle(case, obs)
        for key, msg in bad:
            res.count("pbd:oracle-fail:" + key)
            if not any(v.key == key and v.kind == "oracle" for v in res.violations):
                res.violate("oracle", key, msg, {"case": shrink_pbd(case, key)})
        if model is None:
            res.count("pbd:not-compared-with-the-model")
            continue
        if obs["impl"] == model:
            res.traces_validated += 1
            continue
        res.disagreements += 1
        res.count("pbd:model-disagreement")
        if bad or any(v.kind in ("oracle", "correspondence") and v.key.startswith("pb") for v in res.violations):
            continue
        found = False
        for nb in pbd_neighbours(case):
            o2 = pbd_observe(nb)
            b2 = pbd_oracle(nb, o2)
            if b2:
                res.violate("oracle", b2[0][0], b2[0][1], {"case": shrink_pbd(nb, b2[0][0])})
                found = True
                break
        if not found:
            res.violate("correspondence", "pbd-model-vs-impl",
                        "problem to_hdf/from_hdf differs from the Lean model of the attribute groups (no property-violating input found among the neighbours)",
                        {"case": case, "protocol_line": obs["line"], "impl": obs["impl"], "model": model,
                         "correspondence": "Driver/C11.lean `pbd`"})


def replay_pbd(case) -> int:
    obs = pbd_observe(case)
    for part in ("orig", "back"):
        print(part, ":", json.dumps(obs.get(part), indent=1, default=str)[:3000])
    for k in ("build_exc", "exc"):
        if k in obs:
            print(k, ":", obs[k])
    if "line" in obs:
        print("line :", obs["line"])
        print("impl :", obs["impl"])
        print("model:", common.run_lean_driver("C11", [obs["line"]])[0])
    bad = pbd_oracle(case, obs)
    for k, m in bad:
        print("ORACLE FAILS:", k, m)
    return 1 if bad else 0


# =========================================================================== caches with sparse Jacobians
# case = {"kind": "jac", "nodes": [str], "sizes": {"x": n, "p": n, "y": n, "z": n},
#         "entries": [{"node": i, "x": [rat], "p": [rat], "order": "oj"|"jo"|"j"|"o",
#                      "jac": {out: {inp: {"fmt", "flavour", "data": [rat] (row major, zeros included)}}}}]}

SPARSE_FORMATS = ["csr", "csc", "coo", "lil", "dok", "dia", "bsr"]


def gen_block(rng, rows: int, cols: int, fmt: str | None = None) -> dict[str, Any]:
    if fmt is None:
        fmt = rng.pick(["dense", "dense", "csr", "csr", "csc", "csc", "csc", "coo", "coo", "lil", "dok", "dia", "bsr"])
    dens = rng.pick([0.3, 0.5, 0.8, 1.0])
    data = [rat(Fraction(rng.randint(-16, 16) or 1, rng.pick([1, 2, 4]))) if rng.chance(dens) else "0" for _ in range(rows * cols)]
    return {"fmt": fmt, "flavour": rng.pick(["array", "array", "matrix"]), "data": data}


def gen_jac_case(rng) -> dict[str, Any]:
    nodes = rng.pick([["node"], ["node"], ["a/b"], ["n1", "n2"], ["n1", "g/n2"]])
    square = rng.chance(0.5)
    sizes = {"x": rng.pick([2, 3]), "p": rng.pick([1, 2, 3]), "y": rng.pick([1, 2, 3]), "z": rng.pick([1, 2])}
    if square:
        sizes["y"] = sizes["x"]
    one_fmt = rng.pick([None, None, "csc", "csr", "coo", "dense"])
    entries = []
    seen = set()
    for _ in range(rng.pick([1, 2, 2, 3, 4, 11])):
        ni = rng.randrange(len(nodes))
        while True:
            x = [rat(Fraction(rng.randint(-8, 8), 2)) for _ in range(sizes["x"])]
            p = [rat(Fraction(rng.randint(-8, 8), 4)) for _ in range(sizes["p"])]
            if (ni, tuple(x), tuple(p)) not in seen:
                seen.add((ni, tuple(x), tuple(p)))
                break
        order = rng.pick(["oj", "oj", "jo", "j", "o"])
        jac: dict[str, dict[str, Any]] = {}
        if "j" in order:
            # every differentiated output w.r.t. every differentiated input (what a discipline caches;
            # `nest_flat_bilevel_dict` documents that the sub-dictionaries have the same keys)
            outs = rng.pick([["y"], ["y", "z"], ["y", "z"], ["z"]])
            inps = rng.pick([["x"], ["x", "p"], ["x", "p"], ["p"]])
            for o in outs:
                for i in inps:
                    jac.setdefault(o, {})[i] = gen_block(rng, sizes[o], sizes[i], one_fmt)
        entries.append({"node": ni, "x": x, "p": p, "order": order, "jac": jac})
    return {"kind": "jac", "nodes": nodes, "sizes": sizes, "entries": entries, "strings": rng.chance(0.2)}


def dense_of(block, rows: int, cols: int) -> np.ndarray:
    return np.array([float(Fraction(t)) for t in block["data"]], dtype=float).reshape(rows, cols)


def build_block(block, rows: int, cols: int):
    """The object handed to `cache_jacobian`: a dense array or a SciPy sparse container."""
    import scipy.sparse as sp

    a = dense_of(block, rows, cols)
    if block["fmt"] == "dense":
        return a
    suffix = "_array" if block["flavour"] == "array" else "_matrix"
    cls = getattr(sp, block["fmt"] + suffix)
    if block["fmt"] == "bsr":
        return cls(a, blocksize=(1, 1))
    return cls(a)


def _entry_inputs(case, e) -> dict[str, np.ndarray]:
    inp = {"x": np.array([float(Fraction(t)) for t in e["x"]]), "p": np.array([float(Fraction(t)) for t in e["p"]])}
    if case.get("strings"):
        inp["tag"] = np.array(["ab", "c"])
    return inp


def _entry_outputs(case, e) -> dict[str, np.ndarray]:
    s = case["sizes"]
    x0 = float(Fraction(e["x"][0]))
    return {"y": np.arange(s["y"], dtype=float) / 4 + x0, "z": np.full(s["z"], -x0 / 2)}


def _cmp_array(label: str, got, want: np.ndarray, want_sparse: bool | None) -> str | None:
    """Positive comparison of a value read from the cache with the expected dense array."""
    is_sparse = hasattr(got, "toarray") and hasattr(got, "tocsr")
    if want_sparse is not None and is_sparse != want_sparse:
        return f"{label}: read as {type(got).__name__}, cached as a {'sparse' if want_sparse else 'dense'} array"
    try:
        g = np.asarray(got.toarray() if is_sparse else got)
    except Exception as e:  # noqa: BLE001
        return f"{label}: cannot be densified: {common.exc_class(e)}"
    if g.dtype.kind in "US" or want.dtype.kind in "US":
        ok = g.shape == want.shape and g.dtype.kind == want.dtype.kind and g.tolist() == want.tolist()
        return None if ok else f"{label}: {g.tolist()} instead of {want.tolist()}"
    if g.shape != want.shape:
        return f"{label}: shape {list(g.shape)} instead of {list(want.shape)}"
    gl, wl = np.real(g).astype(float).ravel().tolist(), want.ravel().tolist()
    if not all(a == b for a, b in zip(gl, wl)):  # positive: NaN never passes
        return f"{label}: values {g.tolist()} instead of {want.tolist()}"
    return None


def _cmp_entry(case, e, entry, label: str) -> str | None:
    s = case["sizes"]
    want_in = _entry_inputs(case, e)
    if set(entry.inputs) != set(want_in):
        return f"{label}: input names {sorted(entry.inputs)}"
    for k, w in want_in.items():
        m = _cmp_array(f"{label}: input {k}", entry.inputs[k], w, False)
        if m:
            return m
    want_out = _entry_outputs(case, e) if "o" in e["order"] else {}
    got_out = entry.outputs or {}
    if set(got_out) != set(want_out):
        return f"{label}: output names {sorted(got_out)} instead of {sorted(want_out)}"
    for k, w in want_out.items():
        m = _cmp_array(f"{label}: output {k}", got_out[k], w, False)
        if m:
            return m
    got_jac = entry.jacobian or {}
    if set(got_jac) != set(e["jac"]):
        return f"{label}: Jacobian output names {sorted(got_jac)} instead of {sorted(e['jac'])}"
    for o, sub in e["jac"].items():
        if set(got_jac[o]) != set(sub):
            return f"{label}: Jacobian input names of {o} {sorted(got_jac[o])} instead of {sorted(sub)}"
        for i, blk in sub.items():
            m = _cmp_array(f"{label}: d{o}/d{i} (cached as {blk['fmt']}_{blk['flavour']}, {s[o]}x{s[i]})",
                           got_jac[o][i], dense_of(blk, s[o], s[i]), blk["fmt"] != "dense")
            if m:
                return m
    return None


def _raw_sparse_block(h5, node: str, index: int, o: str, i: str) -> str | None:
    """`data|indices|indptr|shape` of the sparse dataset of d`o`/d`i` in entry `index` of the node."""
    grp = h5[node][str(index)]["jacobian"]
    names = [k for k in grp if k.startswith(o) and k.endswith(i) and len(k) > len(o) + len(i)]
    if len(names) != 1:
        return None
    ds = grp[names[0]]
    if not ds.attrs.get("sparse"):
        return "not-sparse"
    ints = lambda a: ",".join(str(int(t)) for t in np.asarray(a).ravel().tolist()) or "[]"  # noqa: E731
    shape = np.asarray(ds.attrs.get("shape")).ravel().tolist()
    return "|".join([_rats(np.asarray(ds[()]).astype(float).ravel().tolist()), ints(ds.attrs.get("indices")),
                     ints(ds.attrs.get("indptr")), "x".join(str(int(t)) for t in shape)])


def jac_observe(case, with_lines: bool = False):
    """Clauses broken by the caches of this case: [(key, message)] (+ the protocol lines of the sparse
    blocks with the implementation's answers when `with_lines`)."""
    from gemseo.caches.hdf5_cache import HDF5Cache

    from harness import c11

    d = c11.fresh_dir()
    p = os.path.join(d, "cache.h5")
    s = case["sizes"]
    bad: list[tuple[str, str]] = []
    lines: list[tuple[str, str]] = []
    try:
        caches = [HDF5Cache(hdf_file_path=p, hdf_node_path=n) for n in case["nodes"]]
        for e in case["entries"]:
            cache = caches[e["node"]]
            inp = _entry_inputs(case, e)
            jac = {o: {i: build_block(b, s[o], s[i]) for i, b in sub.items()} for o, sub in e["jac"].items()}
            for step in e["order"]:
                if step == "o":
                    cache.cache_outputs(inp, _entry_outputs(case, e))
                else:
                    cache.cache_jacobian(inp, jac)
        for ni, node in enumerate(case["nodes"]):
            mine = [e for e in case["entries"] if e["node"] == ni]
            re = HDF5Cache(hdf_file_path=p, hdf_node_path=node)
            for label, cache in (("live cache", caches[ni]), ("new HDF5Cache on the same file and node", re)):
                key = "cache-live-differs" if label == "live cache" else "cache-reopen-content"
                try:
                    if len(cache) != len(mine):
                        bad.append((key, f"{label} (node {node!r}): {len(cache)} entries instead of {len(mine)}"))
                        continue
                    msg = None
                    for k, e in enumerate(mine):
                        msg = _cmp_entry(case, e, cache[_entry_inputs(case, e)], f"{label} (node {node!r}), entry {k + 1} read with cache[inputs]")
                        if msg:
                            break
                    if not msg and mine and cache is re:
                        got = list(cache.get_all_entries())
                        if len(got) != len(mine):
                            msg = f"{label} (node {node!r}): get_all_entries lists {len(got)} entries instead of {len(mine)}"
                        else:
                            for k, (e, g) in enumerate(zip(mine, got)):
                                msg = _cmp_entry(case, e, g, f"{label} (node {node!r}), entry {k + 1} of get_all_entries")
                                if msg:
                                    break
                    if msg:
                        bad.append((key, msg))
                except Exception as e:  # noqa: BLE001
                    bad.append(("cache-read-raises", f"{label} (node {node!r}): reading raised {common.exc_class(e)}: {repr(e)[:120]}"))
            if with_lines and len(lines) < 8:
                import h5py

                with h5py.File(p, "r") as h5:
                    for k, e in enumerate(mine):
                        for o, sub in e["jac"].items():
                            for i, blk in sub.items():
                                if blk["fmt"] == "dense" or len(lines) >= 8:
                                    continue
                                line = f"jac {s[o]} {s[i]} " + (",".join(blk["data"]) or "[]")
                                try:
                                    raw = _raw_sparse_block(h5, node, k + 1, o, i)
                                    got = re[_entry_inputs(case, e)].jacobian[o][i]
                                    dense = np.asarray(got.toarray() if hasattr(got, "toarray") else got, dtype=float)
                                    lines.append((line, f"file={raw} read={_rats(dense.ravel().tolist())}"))
                                except Exception as exc:  # noqa: BLE001
                                    lines.append((line, "E:" + common.exc_class(exc)))
    except Exception as e:  # noqa: BLE001
        bad.append(("cache-raises", "HDF5Cache raised " + common.exc_class(e) + ": " + repr(e)[:120]))
    finally:
        shutil.rmtree(d, ignore_errors=True)
    # one message per key
    out, seen = [], set()
    for k, m in bad:
        if k not in seen:
            seen.add(k)
            out.append((k, m))
    return (out, lines) if with_lines else out


def shrink_jac(case, key):
    def fails(c):
        try:
            return any(k == key for k, _ in jac_observe(c))
        except Exception:  # noqa: BLE001
            return False

    cur = case
    if len(cur["entries"]) > 1:
        cur = {**cur, "entries": common.shrink_list(cur["entries"], lambda es: bool(es) and fails({**cur, "entries": es}), budget=25)}
    if len(cur["nodes"]) > 1:
        used = sorted({e["node"] for e in cur["entries"]})
        cand = {**cur, "nodes": [cur["nodes"][i] for i in used], "entries": [{**e, "node": used.index(e["node"])} for e in cur["entries"]]}
        if fails(cand):
            cur = cand
    if cur.get("strings") and fails({**cur, "strings": False}):
        cur = {**cur, "strings": False}
    # drop a whole output (row of blocks) or a whole input (column of blocks): the set of blocks stays rectangular
    changed = True
    while changed:
        changed = False
        for k, e in enumerate(cur["entries"]):
            outs = list(e["jac"])
            inps = list(next(iter(e["jac"].values()))) if outs else []
            cands = []
            if len(outs) > 1:
                cands += [{o: sub for o, sub in e["jac"].items() if o != drop} for drop in outs]
            if len(inps) > 1:
                cands += [{o: {i: b for i, b in sub.items() if i != drop} for o, sub in e["jac"].items()} for drop in inps]
            for jac in cands:
                cand = {**cur, "entries": cur["entries"][:k] + [{**e, "jac": jac}] + cur["entries"][k + 1:]}
                if fails(cand):
                    cur, changed = cand, True
                    break
            if changed:
                break
    return cur


def check_jac_cases(res, cases, pid: str = "C11") -> None:
    observed = [(case, *jac_observe(case, with_lines=True)) for case in cases]
    all_lines = [ln for _, _, lines in observed for ln, _ in lines]
    answers = iter(common.run_lean_driver(pid, all_lines)) if all_lines else iter(())
    for case, bad, lines in observed:
        res.evaluations += 1
        s = case["sizes"]
        res.count(f"jac:nodes={len(case['nodes'])}")
        res.count(f"jac:entries={min(len(case['entries']), 10)}" + ("+" if len(case["entries"]) >= 10 else ""))
        n_blocks = 0
        for e in case["entries"]:
            res.count("jac:entry-order=" + e["order"])
            for o, sub in e["jac"].items():
                for i, b in sub.items():
                    n_blocks += 1
                    shape = "square" if s[o] == s[i] and s[o] > 1 else "row" if s[o] == 1 else "column" if s[i] == 1 else "rectangular"
                    res.count(f"jac:block={b['fmt']}:{shape}")
                    if b["fmt"] != "dense":
                        res.count("jac:flavour=" + b["flavour"])
                    if s[o] == s[i] and s[o] > 1:
                        a = dense_of(b, s[o], s[i])
                        res.count("jac:square-" + ("symmetric" if (a == a.T).all() else "non-symmetric"))
        if case.get("strings"):
            res.count("jac:string-input")
        if n_blocks >= 2:
            res.nontrivial("jac:" + json.dumps(case, sort_keys=True))
        for key, msg in bad:
            res.count("jac:oracle-fail:" + key)
            if not any(v.key == key and v.kind == "oracle" for v in res.violations):
                res.violate("oracle", key, msg, {"case": shrink_jac(case, key)})
        first = True
        for line, impl in lines:
            model = next(answers)
            if first:
                res.sample({"case": "jac", "protocol": line[:200], "impl": impl[:300], "model": model[:300]})
                first = False
            res.count("jac:sparse-block-compared-with-the-model")
            if impl == model:
                res.traces_validated += 1
                continue
            res.disagreements += 1
            res.count("jac:model-disagreement")
            if bad or any(v.key.startswith("cache") or v.key == "jac-model-vs-impl" for v in res.violations):
                continue
            # neighbours: the same block alone, cached in every format
            found = False
            r, c = (int(t) for t in line.split()[1:3])
            data = line.split()[3].split(",") if line.split()[3] != "[]" else []
            for fmt in SPARSE_FORMATS:
                nb = {"kind": "jac", "nodes": ["n"], "sizes": {"x": c, "p": 1, "y": r, "z": 1}, "strings": False,
                      "entries": [{"node": 0, "x": ["1"] * c, "p": ["0"], "order": "oj",
                                   "jac": {"y": {"x": {"fmt": fmt, "flavour": "array", "data": data}}}}]}
                b2 = jac_observe(nb)
                if b2:
                    res.violate("oracle", b2[0][0], b2[0][1], {"case": nb})
                    found = True
                    break
            if not found:
                res.violate("correspondence", "jac-model-vs-impl",
                            "the sparse Jacobian block written to the cache file differs from the Lean model of the CSR layout (no property-violating input found among the neighbours)",
                            {"case": case, "protocol_line": line, "impl": impl, "model": model, "correspondence": "Driver/C11.lean `jac`"})


def replay_jac(case) -> int:
    bad = jac_observe(case)
    for k, m in bad:
        print("ORACLE FAILS:", k, m)
    if not bad:
        print("all the entries of the re-instantiated caches equal what was cached")
    return 1 if bad else 0
