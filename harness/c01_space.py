"""C01 helper: design spaces built through edit histories, Jacobian containers.

The design space of a C01 case is the result of a history of public edits written as C02 protocol
lines (`add`, `setlb`, `setub`, `rename`, `remove`, `filter`, `filterdim`, `intnorm`, `setarr`,
`setvar`, `setdict`, `initmissing`) plus two implementation-only markers: `problem` (the
OptimizationProblem is created here, the following edits go through `problem.design_space`) and
query lines (`probe ...`, `view`) that only fill the caches of the implementation between two edits.
The reference semantics of the edits is the `Shadow` of harness/c02.py (from the API documentation);
the Lean side replays the same edits with `GV.C02.DS.apply`.

Exact stream: every finite range `ub - lb` is 0 or a power of two (1/2 .. 8), bounds and values are
dyadic, so every float intermediate of (un)normalisation is exact.
"""

from __future__ import annotations

import math
from fractions import Fraction

import numpy as np

from harness.c02 import Shadow
from harness.c02 import apply_shadow
from harness.c02 import impl_add
from harness.c02 import impl_step
from harness.c02 import np_value
from harness.c02 import olist
from harness.c02 import parse_olist
from harness.c02 import parse_rlist
from harness.c02 import probe_line
from harness.c02 import to_np_bound
from harness.c02 import valid_line
from harness.c02 import varspec
from harness.common import rats

NAMES = ["x", "yy", "z_1", "ab", "q"]
F_RANGES = [Fraction(1, 2), Fraction(1), Fraction(2), Fraction(4)]
I_RANGES = [Fraction(1), Fraction(2), Fraction(4), Fraction(8)]
MUTATING = {"add", "remove", "filter", "filterdim", "rename", "extend", "setlb", "setub", "setarr", "setdict",
            "setvar", "initmissing", "intnorm"}
MAX_DIM = 6

# --------------------------------------------------------------------------- generation


def gen_bounds(rng, size, is_int):
    lb, ub = [], []
    for _ in range(size):
        k = rng.random()
        l = Fraction(rng.randint(-4, 4)) if is_int else Fraction(rng.randint(-16, 16), 4)
        rg = rng.pick(I_RANGES) if is_int else rng.pick(F_RANGES)
        if k < 0.12:
            lb.append(None), ub.append(l + rg)
        elif k < 0.24:
            lb.append(l), ub.append(None)
        elif k < 0.3:
            lb.append(None), ub.append(None)
        elif k < 0.4:
            lb.append(l), ub.append(l)  # equal bounds: inert normalized coordinate
        else:
            lb.append(l), ub.append(l + rg)
    return lb, ub


def gen_value(rng, lb, ub, is_int):
    out = []
    for l, u in zip(lb, ub):
        lo = l if l is not None else ((u - 4) if u is not None else Fraction(-2))
        hi = u if u is not None else lo + 4
        if is_int:
            out.append(Fraction(rng.randint(math.ceil(lo), math.floor(hi))))
        else:
            out.append(lo + (hi - lo) * Fraction(rng.randint(0, 8), 8))
    return out


def _new_bound(rng, v, lower, flip_p):
    """New lower/upper bound list of a variable: finiteness flipped with probability `flip_p` per
    component, finite ranges stay 0 or powers of two, the current value stays inside."""
    ranges = I_RANGES if v.is_int else F_RANGES
    nb = []
    flipped = False
    for i in range(v.size):
        cur = (v.lb if lower else v.ub)[i]
        other = (v.ub if lower else v.lb)[i]
        val = None if v.value is None else v.value[i]
        sign = -1 if lower else 1

        def finite():
            if other is not None:
                cands = [other + sign * r for r in [*ranges, Fraction(0)]
                         if val is None or (other + sign * r - val) * sign >= 0]
                return rng.pick(cands) if cands else cur
            base = val if val is not None else Fraction(rng.randint(-4, 4))
            b = Fraction(math.floor(base) if lower else math.ceil(base)) + sign * rng.pick([0, 1, 2])
            return b

        if rng.chance(flip_p):
            new = finite() if cur is None else None
        elif cur is None:
            new = None
        else:
            new = finite()
        flipped = flipped or ((new is None) != (cur is None))
        nb.append(new)
    return nb, flipped


def gen_hist(rng):
    """Return (lines, tags): a valid edit history building a non-empty design space of dimension
    <= MAX_DIM, and the histogram tags describing it."""
    sh = Shadow()
    lines: list[str] = []
    tags: list[str] = []
    mode = rng.pick(["plain", "edited", "edited", "edited", "allint", "allint"])
    noisy = rng.chance(0.5)
    tags.append("space:" + mode)
    tags.append("space-queries-between-edits" if noisy else "space-no-query-between-edits")

    def emit(line):
        if not valid_line(sh, line):
            return False
        lines.append(line)
        apply_shadow(sh, line)
        if noisy and sh.vars and rng.chance(0.6):
            lines.append(probe_line(rng, sh) if rng.chance(0.7) else "view")
        return True

    def add_var(name, is_int, with_value):
        size = rng.pick([1, 1, 1, 2, 2, 3])
        size = max(1, min(size, MAX_DIM - sh.dim()))
        lb, ub = gen_bounds(rng, size, is_int)
        val = gen_value(rng, lb, ub, is_int) if with_value else None
        return emit("add " + varspec(name, is_int, lb, ub, val))

    allint = mode == "allint"
    value_mode = rng.pick(["all", "all", "late", "none", "none"]) if allint else rng.pick(["all", "some", "some", "late", "none", "none"])
    names = rng.sample(NAMES, rng.pick([1, 2, 2, 3]))
    for n in names:
        if sh.dim() >= MAX_DIM:
            break
        is_int = allint or rng.chance(0.3)
        add_var(n, is_int, value_mode == "all" or (value_mode == "some" and rng.chance(0.5)))
    if not sh.vars:  # cannot happen (the first add is always valid), kept as a guard
        emit("add " + varspec("x", allint, [Fraction(0)], [Fraction(1)], None))
    problem_at = rng.pick(["start", "start", "end"])
    if problem_at == "start":
        lines.append("problem")
    tags.append("problem-created-" + ("before-edits" if problem_at == "start" else "after-edits"))

    n_edits = 0 if mode == "plain" else (rng.pick([0, 1, 2]) if allint else rng.pick([1, 2, 3, 4]))
    for _ in range(n_edits):
        r = rng.random()
        names_now = sh.names()
        v = rng.pick(sh.vars)
        if r < 0.45:
            lower = rng.chance(0.5)
            nb, flipped = _new_bound(rng, v, lower, 0.7)
            if emit(f"{'setlb' if lower else 'setub'} {v.name} {olist(nb)}"):
                tags.append("edit:bound-finiteness-flipped" if flipped else "edit:bound-finite-to-finite")
        elif r < 0.53:
            lower = rng.chance(0.5)
            nb, flipped = _new_bound(rng, v, lower, 0.0)
            if emit(f"{'setlb' if lower else 'setub'} {v.name} {olist(nb)}"):
                tags.append("edit:bound-finite-to-finite")
        elif r < 0.63:
            free = [n for n in NAMES if n not in names_now]
            if free and emit(f"rename {v.name} {rng.pick(free)}"):
                tags.append("edit:rename")
        elif r < 0.73:
            # remove + add again under the same name with other bounds / type
            if len(sh.vars) > 1 and emit(f"remove {v.name}"):
                add_var(v.name, allint or rng.chance(0.3), value_mode == "all")
                tags.append("edit:remove+add")
        elif r < 0.78:
            if len(sh.vars) > 1:
                keep = rng.subset(names_now, 0.6) or [rng.pick(names_now)]
                rng.shuffle(keep)
                if emit("filter " + ",".join(keep)):
                    tags.append("edit:filter")
        elif r < 0.83:
            cands = [w for w in sh.vars if w.size > 1]
            if cands:
                w = rng.pick(cands)
                dims = sorted(rng.subset(list(range(w.size)), 0.6)) or [rng.randrange(w.size)]
                if emit(f"filterdim {w.name} {','.join(map(str, dims))}"):
                    tags.append("edit:filterdim")
        elif r < 0.93:
            if emit(f"intnorm {0 if sh.int_norm else 1}"):
                tags.append("edit:intnorm-toggle")
        else:
            if emit(f"setvar {v.name} {rats(gen_value(rng, v.lb, v.ub, v.is_int))}"):
                tags.append("edit:setvar")
    if value_mode == "late":
        if rng.chance(0.5):
            emit("initmissing")
        else:
            emit("setarr " + rats([c for v in sh.vars for c in gen_value(rng, v.lb, v.ub, v.is_int)]))
    if allint and rng.chance(0.25) and not sh.int_norm:
        if emit("intnorm 1"):
            tags.append("edit:intnorm-toggle")
    if problem_at == "end":
        lines.append("problem")
    if all(v.is_int for v in sh.vars):
        tags.append("space-all-integer:" + ("with-current-value" if sh.has_value() else "without-current-value"))
    elif any(v.is_int for v in sh.vars):
        tags.append("space-mixed-float-integer")
    else:
        tags.append("space-float-only")
    if sh.int_norm and any(v.is_int for v in sh.vars):
        tags.append("space-integer-normalization-enabled")
    return lines, tags


def hist_of_vars(vars_):
    """Legacy cases (`vars`: [[name, is_int, lb, ub]...]): one `add` without value per variable."""
    return [f"add {n}:{'i' if it else 'f'}:{l}:{u}:_" for n, it, l, u in vars_] + ["problem"]


def shadow_of(hist) -> Shadow:
    sh = Shadow()
    for line in hist:
        if line.split()[0] in MUTATING:
            apply_shadow(sh, line)
    return sh


def model_lines(hist) -> list[str]:
    """Lean driver lines: empty design space, then one `dsop` per edit (markers/queries skipped)."""
    return ["ds"] + ["dsop " + line for line in hist if line.split()[0] in MUTATING]


# --------------------------------------------------------------------------- implementation side


class EditRejected(Exception):
    pass


def _quiet_step(ds, line):
    """The edit through the public API, without any query afterwards."""
    toks = line.split()
    op = toks[0]
    if op == "add":
        impl_add(ds, toks[1])
    elif op == "remove":
        ds.remove_variable(toks[1])
    elif op == "filter":
        ds.filter(toks[1].split(","))
    elif op == "filterdim":
        ds.filter_dimensions(toks[1], [int(t) for t in toks[2].split(",")])
    elif op == "rename":
        ds.rename_variable(toks[1], toks[2])
    elif op in ("setlb", "setub"):
        arr = to_np_bound(parse_olist(toks[2]), op == "setlb")
        (ds.set_lower_bound if op == "setlb" else ds.set_upper_bound)(toks[1], arr)
    elif op == "setarr":
        ds.set_current_value(np.array([float(Fraction(t)) for t in toks[1].split(",")]))
    elif op == "setdict":
        d = {}
        for kv in toks[1:]:
            k, v = kv.split("=")
            d[k] = np_value(parse_rlist(v), str(ds.variable_types[k]) == "integer")
        ds.set_current_value(d)
    elif op == "setvar":
        ds.set_current_variable(toks[1], np_value(parse_rlist(toks[2]), str(ds.variable_types[toks[1]]) == "integer"))
    elif op == "initmissing":
        ds.initialize_missing_current_values()
    elif op == "intnorm":
        ds.enable_integer_variables_normalization = toks[1] == "1"
    else:
        raise ValueError(line)


def build_space(hist, problem_class):
    """Replay the history on a real DesignSpace; return the problem (created at the `problem` marker)."""
    from gemseo.algos.design_space import DesignSpace

    ds = DesignSpace()
    pb = None
    holder: dict = {}
    noisy = any(line.split()[0] in ("probe", "view") for line in hist)
    for line in hist:
        if line == "problem":
            pb = problem_class(ds)
            continue
        target = ds if pb is None else pb.design_space
        if noisy or line.split()[0] not in MUTATING:
            if impl_step(target, line, holder) == "E":
                raise EditRejected(f"{line}: {holder.get('last_exc')}")
        else:
            try:
                _quiet_step(target, line)
            except (ValueError, KeyError, TypeError, IndexError) as e:
                raise EditRejected(f"{line}: {e!r}"[:300]) from e
    if pb is None:
        pb = problem_class(ds)
    return pb


# --------------------------------------------------------------------------- Jacobian containers

SPARSE_FORMATS = ["csr_array", "csc_array", "coo_array", "csr_matrix", "csc_matrix", "coo_matrix", "lil_array"]


def to_container(j: np.ndarray, fmt):
    """The user's Jacobian in the container the user's callable returns."""
    if not fmt or fmt == "dense":
        return j
    import scipy.sparse as sp

    if fmt is True:
        fmt = "csr_array"
    return getattr(sp, fmt)(np.atleast_2d(j))
