"""C14 — histories: DOEs on ONE design-space object and ONE library object that were used before.

The property quantifies over "all dimensions, bounds, mixed types, sample counts and seeds": the design space
given to a DOE is whatever its variables, bounds and types are *now*, and the library is whatever object the
user holds — possibly a design space that has already been sampled (which fills the private normalisation
arrays of ``DesignSpace``) and edited since (``remove_variable`` / ``add_variable`` / ``set_lower_bound`` /
``filter`` / ``rename_variable`` / ...), and a library whose seed counter has advanced.

A *session* is a list of operations on one ``DesignSpace`` object and one library object:

* edits inside the quantifier (the space stays bounded and non-empty): ``add``, ``rm``, ``lb``, ``ub``,
  ``ren``, ``keep`` (filter), ``fdim`` (filter_dimensions), ``setint`` (the switch), ``setval``;
  compound edits that move the integer components at constant dimension (``swap``: remove a variable and add
  one of the other type; ``retype``: remove a variable and add it again with the other type);
* ``q``: a normalisation query (``unnormalize_vect``), which fills the cache between two edits;
* ``doe``: ``compute_doe`` / ``compute_doe(unit_sampling=True)`` / ``execute`` with explicit seeds (0 included)
  or the default seed; ``newlib``: a new library object (possibly of another algorithm).

Judged after every DOE by the independent oracle of ``harness/c14.py`` evaluated on the harness's own record of
the variables as they are now (bounds, integrality, variable order, count, image of the unit samples, equality
with the generation of a *fresh* library on a *fresh* design space with the same effective seed), and compared
op by op with the Lean session (``Driver/C14.lean`` ``sess``: the model with the cache, proved equal to the
cache-free specification — ``session_refines_spec``).
"""

from __future__ import annotations

import copy
import json
from fractions import Fraction
from typing import Any

import numpy as np

from harness import c14 as B
from harness import common
from harness.common import F
from harness.common import rat

EXTRA_NAMES = ["w", "v2", "t", "q_3", "u", "p", "r0", "s"]
SEEDS = [0, 0, 0, 1, 7, 123, None, None]
MAX_DIM = 5  # resource bound of the check (SciPy's PoissonDisk allocates (sqrt(d)/radius)^d cells), not of the property


class Invalid(Exception):
    """The operation is not applicable to the recorded space (generator/shrinker guard)."""


# --------------------------------------------------------------------------- the harness's own record of the space


def apply_spec(space: dict[str, Any], op: dict[str, Any]) -> dict[str, Any]:
    """The space after a public edit, from the documentation of ``DesignSpace`` (independent of the code)."""
    sp = copy.deepcopy(space)
    vs = sp["vars"]
    names = [v["name"] for v in vs]
    kind = op["op"]

    def find(name):
        if name not in names:
            raise Invalid(f"unknown variable {name}")
        return vs[names.index(name)]

    if kind == "add":
        v = op["var"]
        if v["name"] in names or not v["lb"] or len(v["lb"]) != len(v["ub"]):
            raise Invalid("add")
        vs.append(copy.deepcopy(v))  # a new variable goes last
    elif kind == "rm":
        v = find(op["name"])
        if len(vs) < 2:
            raise Invalid("would empty the space")
        vs.remove(v)
    elif kind in ("lb", "ub"):
        v = find(op["name"])
        if len(op["b"]) != len(v["lb"]):
            raise Invalid("size")
        v[kind] = list(op["b"])
        for i, (l, u) in enumerate(zip(v["lb"], v["ub"])):
            if Fraction(l) > Fraction(u):
                raise Invalid("lb > ub")
            if v["value"] is not None and not Fraction(l) <= Fraction(v["value"][i]) <= Fraction(u):
                raise Invalid("current value outside the new bounds")
    elif kind == "ren":
        v = find(op["old"])
        if op["new"] in names:
            raise Invalid("name taken")
        v["name"] = op["new"]  # in place: the position is kept
    elif kind == "keep":
        if not op["names"] or any(n not in names for n in op["names"]):
            raise Invalid("keep")
        sp["vars"] = [v for v in vs if v["name"] in op["names"]]  # design-space order
    elif kind == "fdim":
        v = find(op["name"])
        dims = op["dims"]
        if not dims or any(i >= len(v["lb"]) for i in dims) or dims != sorted(set(dims)):
            raise Invalid("fdim")
        v["lb"] = [v["lb"][i] for i in dims]
        v["ub"] = [v["ub"][i] for i in dims]
        if v["value"] is not None:
            v["value"] = [v["value"][i] for i in dims]
    elif kind == "setint":
        sp["int0"] = bool(op["b"])
    elif kind == "setval":
        x = op["x"]
        if len(x) != B.space_dim(sp):
            raise Invalid("setval size")
        k = 0
        for v in vs:
            size = len(v["lb"])
            blk = x[k:k + size]
            for t, l, u in zip(blk, v["lb"], v["ub"]):
                if not Fraction(l) <= Fraction(t) <= Fraction(u) or (v["int"] and Fraction(t).denominator != 1):
                    raise Invalid("setval value")
            v["value"] = list(blk)
            k += size
    elif kind in ("q", "newlib", "doe"):
        pass
    else:
        raise Invalid(kind)
    return sp


def after_exec(space: dict[str, Any]) -> dict[str, Any]:
    """``execute`` stores the best point as the current value: the record forgets the values until the next
    ``setval`` (the generator always emits one right after an ``execute``)."""
    sp = copy.deepcopy(space)
    for v in sp["vars"]:
        v["value"] = None
    return sp


def int_mask(space) -> list[bool]:
    return [c[0] for c in B.flat(space)]


# --------------------------------------------------------------------------- generation


def gen_var(rng: common.Rng, name: str, is_int: bool, size: int, stream: str) -> dict[str, Any]:
    lb, ub = [], []
    shift = rng.pick([0, 0, 40, 80, -40])
    for _ in range(size):
        if is_int:
            lo = rng.randint(-9, 9) + shift
            rg = rng.pick([1, 2, 3, 5, 7, 8, 100])
            lb.append(Fraction(lo))
            ub.append(Fraction(lo + rg))
        elif stream == "exact":
            lo = Fraction(rng.randint(-64, 64), 8) + shift
            lb.append(lo)
            ub.append(lo + Fraction(2) ** rng.randint(-2, 4))
        else:
            lo = F(float(rng.pick([0.1, -0.3, 2.7, -7.25, 1e-3, 123.456, 0.0]) + shift))
            lb.append(lo)
            ub.append(F(float(lo) + rng.pick([0.3, 1.1, 1e-2, 7.0, 0.5])))
    return {"name": name, "int": is_int, "lb": [rat(b) for b in lb], "ub": [rat(b) for b in ub], "value": None}


def fresh_name(rng: common.Rng, space) -> str:
    used = {v["name"] for v in space["vars"]}
    pool = [n for n in B.NAMES + EXTRA_NAMES if n not in used]
    return rng.pick(pool)


def inside_point(rng: common.Rng, space) -> list[str]:
    out = []
    for v in space["vars"]:
        for i, (l, u) in enumerate(zip(v["lb"], v["ub"])):
            l, u = Fraction(l), Fraction(u)
            if v["value"] is not None and l <= Fraction(v["value"][i]) <= u and rng.chance(0.5):
                out.append(v["value"][i])
            elif v["int"]:
                out.append(rat(Fraction(rng.randint(int(l), int(u)))))
            else:
                out.append(rat(rng.pick([l, u, F((float(l) + float(u)) / 2)])))
    return out


def gen_edit(rng: common.Rng, cur, stream: str) -> list[dict[str, Any]]:
    """One user-level edit (1 or 2 operations) applicable to `cur`; the space stays bounded and non-empty."""
    vs = cur["vars"]
    kinds = ["swap"] * 4 + ["retype"] * 3 + ["add"] * 2 + ["lb", "ub", "ren", "setint", "setval", "q"]
    if len(vs) >= 2:
        kinds += ["rm", "keep"]
    if any(len(v["lb"]) >= 2 for v in vs):
        kinds += ["fdim"]
    kind = rng.pick(kinds)
    if kind in ("swap", "retype") and len(vs) < 2:
        kind = "add"
    if kind == "add" and B.space_dim(cur) >= MAX_DIM:
        kind = "swap" if len(vs) >= 2 else "lb"
    if kind == "swap":
        v = rng.pick(vs)
        new = gen_var(rng, fresh_name(rng, cur), not v["int"], len(v["lb"]), stream)
        return [{"op": "rm", "name": v["name"]}, {"op": "add", "var": new}]
    if kind == "retype":
        v = rng.pick(vs)
        new = gen_var(rng, v["name"], not v["int"], len(v["lb"]), stream)
        return [{"op": "rm", "name": v["name"]}, {"op": "add", "var": new}]
    if kind == "add":
        size = min(rng.pick([1, 1, 2]), MAX_DIM - B.space_dim(cur))
        return [{"op": "add", "var": gen_var(rng, fresh_name(rng, cur), rng.chance(0.5), size, stream)}]
    if kind == "rm":
        return [{"op": "rm", "name": rng.pick(vs)["name"]}]
    if kind in ("lb", "ub"):
        v = rng.pick(vs)
        b = []
        for i, (l, u) in enumerate(zip(v["lb"], v["ub"])):
            l, u = Fraction(l), Fraction(u)
            val = None if v["value"] is None else Fraction(v["value"][i])
            step = Fraction(rng.randint(-3, 3)) if v["int"] else Fraction(rng.randint(-12, 12), 4)
            if kind == "lb":
                t = min(l + step, u if val is None else min(u, val))
            else:
                t = max(u + step, l if val is None else max(l, val))
            b.append(rat(t if v["int"] else F(float(t))))  # the exact value of the float given to GEMSEO
        return [{"op": kind, "name": v["name"], "b": b}]
    if kind == "ren":
        return [{"op": "ren", "old": rng.pick(vs)["name"], "new": fresh_name(rng, cur)}]
    if kind == "keep":
        keep = [v["name"] for v in vs if rng.chance(0.6)] or [vs[0]["name"]]
        rng.shuffle(keep)  # the order of the argument is irrelevant: the design-space order is kept
        return [{"op": "keep", "names": keep}]
    if kind == "fdim":
        v = rng.pick([v for v in vs if len(v["lb"]) >= 2])
        dims = sorted(set(rng.sample(range(len(v["lb"])), rng.randint(1, len(v["lb"]) - 1))))
        return [{"op": "fdim", "name": v["name"], "dims": dims}]
    if kind == "setint":
        return [{"op": "setint", "b": not cur["int0"]}]
    if kind == "setval":
        return [{"op": "setval", "x": inside_point(rng, cur)}]
    return [gen_query(rng, cur)]


def gen_query(rng: common.Rng, cur) -> dict[str, Any]:
    return {"op": "q", "u": [rat(Fraction(rng.randint(0, 16), 16)) for _ in range(B.space_dim(cur))]}


def gen_doe(rng: common.Rng, algo: str, cur, mode: str | None = None) -> dict[str, Any] | None:
    """A request valid for the space as it is now (None when this algorithm has none in that dimension)."""
    d = B.space_dim(cur)
    if d < B.ALGOS[algo].get("min_dim", 1):
        return None
    for _ in range(6):
        n = rng.pick([2, 3, 5, 8, 12, 17] + ([4 * (d + 1) + 2 * d] if algo == "OT_SOBOL_INDICES" else []))
        seed = rng.pick(SEEDS) if B.ALGOS[algo]["seed"] is not None else None
        if seed is not None:
            seed = max(seed, B.ALGOS[algo].get("seed_min", 0))
        req = {"algo": algo, "n": n, "seed": seed, "opts": B.gen_opts(rng, algo, cur, n)}
        if not B.valid_request(cur, req):
            continue
        rule, cnt = B.documented_count(cur, req)
        if cnt is None or B.count_key(cur, req) != "count":
            continue  # no design of that size / the recorded finding of OT_SOBOL_INDICES in dimension 1
        modes = ["compute"] * 6 + ["exec"] * 3 + ([] if algo == "CustomDOE" else ["unit"])  # CustomDOE has no unit design
        return {"op": "doe", "mode": mode or rng.pick(modes), "req": req}
    return None


def gen_session(rng: common.Rng, stream: str) -> dict[str, Any]:
    dim = rng.randint(2, 4)
    for _ in range(4):
        space = B.gen_space(rng, dim, stream)
        if len(space["vars"]) >= 2 and len({v["int"] for v in space["vars"]}) > 1:
            break
    for v in space["vars"]:
        if rng.chance(0.6):
            v["value"] = None
    algo = algo_start = rng.pick(B.IN_SCOPE)  # the library object the session starts with
    ops: list[dict[str, Any]] = []
    cur = copy.deepcopy(space)

    def push(op):
        nonlocal cur
        cur = apply_spec(cur, op)
        ops.append(op)
        if op["op"] == "doe" and op["mode"] == "exec":
            cur = after_exec(cur)
            sv = {"op": "setval", "x": inside_point(rng, cur)}
            cur = apply_spec(cur, sv)
            ops.append(sv)

    def push_doe(mode=None):
        nonlocal algo
        op = gen_doe(rng, algo, cur, mode)
        if op is None:  # the algorithm has no request in this dimension: another library object
            algo = rng.pick([a for a in B.IN_SCOPE if B.ALGOS[a].get("min_dim", 1) <= B.space_dim(cur)])
            ops.append({"op": "newlib", "algo": algo})
            op = gen_doe(rng, algo, cur, mode) or gen_doe(rng, "MC", cur, mode)
            if op["req"]["algo"] != algo:
                algo = "MC"
                ops[-1]["algo"] = "MC"
        push(op)

    # something that fills the private arrays of the design space / advances the library
    first = rng.pick(["doe"] * 7 + ["q"] * 2 + ["none"])
    if first == "doe":
        push_doe()
    elif first == "q":
        push(gen_query(rng, cur))
    for _ in range(rng.randint(1, 3)):
        for _ in range(rng.randint(1, 3)):
            for op in gen_edit(rng, cur, stream):
                try:
                    push(op)
                except Invalid:
                    break
        if rng.chance(0.2):
            algo = rng.pick([a for a in B.IN_SCOPE if B.ALGOS[a].get("min_dim", 1) <= B.space_dim(cur)])
            ops.append({"op": "newlib", "algo": algo})
        push_doe()
        if rng.chance(0.3):
            push_doe()  # a second / third generation on the same objects
    return {"space": space, "algo": algo_start, "ops": ops, "stream": stream}


def valid_session(sess) -> bool:
    """Every operation is applicable and every DOE request is inside the quantifier for the space as it is then."""
    cur = copy.deepcopy(sess["space"])
    algo = sess["algo"]
    if not cur["vars"]:
        return False
    try:
        for op in sess["ops"]:
            if op["op"] == "newlib":
                algo = op["algo"]
            if op["op"] == "doe":
                req = op["req"]
                if req["algo"] != algo or not B.valid_request(cur, req) or (op["mode"] == "unit" and algo == "CustomDOE"):
                    return False
                if B.documented_count(cur, req)[1] is None or B.count_key(cur, req) != "count":
                    return False
            if op["op"] == "q" and len(op["u"]) != B.space_dim(cur):
                return False
            cur = apply_spec(cur, op)
            if op["op"] == "doe" and op["mode"] == "exec":
                cur = after_exec(cur)
    except Invalid:
        return False
    return True


# --------------------------------------------------------------------------- implementation runner


def apply_real(ds, op) -> None:
    kind = op["op"]
    if kind == "add":
        v = op["var"]
        lb = np.array([float(Fraction(b)) for b in v["lb"]])
        ub = np.array([float(Fraction(b)) for b in v["ub"]])
        kw: dict[str, Any] = {}
        if v["value"] is not None:
            vals = [Fraction(t) for t in v["value"]]
            kw["value"] = np.array([int(t) for t in vals]) if v["int"] else np.array([float(t) for t in vals])
        ds.add_variable(v["name"], size=len(lb), type_="integer" if v["int"] else "float",
                        lower_bound=lb, upper_bound=ub, **kw)
    elif kind == "rm":
        ds.remove_variable(op["name"])
    elif kind == "lb":
        ds.set_lower_bound(op["name"], np.array([float(Fraction(b)) for b in op["b"]]))
    elif kind == "ub":
        ds.set_upper_bound(op["name"], np.array([float(Fraction(b)) for b in op["b"]]))
    elif kind == "ren":
        ds.rename_variable(op["old"], op["new"])
    elif kind == "keep":
        ds.filter(list(op["names"]))
    elif kind == "fdim":
        ds.filter_dimensions(op["name"], list(op["dims"]))
    elif kind == "setint":
        ds.enable_integer_variables_normalization = bool(op["b"])
    elif kind == "setval":
        ds.set_current_value(np.array([float(Fraction(t)) for t in op["x"]]))
    else:
        raise ValueError(kind)


def state_of(ds) -> dict[str, str]:
    """Observable state of the design space (public API only), in the driver's syntax."""
    names = list(ds.variable_names)
    n2i = ds.names_to_indices
    bits = "".join(("1" if ds.get_type(n) == "integer" else "0") * ds.get_size(n) for n in names)
    lb = [F(t) for t in np.atleast_1d(ds.get_lower_bounds())]
    ub = [F(t) for t in np.atleast_1d(ds.get_upper_bounds())]
    return {
        "names": ",".join(names) or "[]",
        "idx": ",".join(f"{n}:{n2i[n].start}:{n2i[n].stop}" for n in names) or "[]",
        "int": bits or "[]",
        "lb": ",".join(rat(t) for t in lb) or "[]",
        "ub": ",".join(rat(t) for t in ub) or "[]",
        "intn": "1" if ds.enable_integer_variables_normalization else "0",
    }


def effective_seed(algo: str, seed, calls: int):
    if B.ALGOS[algo]["seed"] is None:
        return None
    return seed if seed is not None else calls + 1


def run_session(sess) -> list[dict[str, Any]]:
    """Observations op by op.  Stops at the first operation the implementation rejects."""
    from gemseo.algos.optimization_problem import OptimizationProblem
    from gemseo.core.mdo_functions.mdo_function import MDOFunction

    fac = B.factory()
    ds = B.build_space(sess["space"])
    cur = copy.deepcopy(sess["space"])
    algo = sess["algo"]
    lib = fac.create(algo)
    seed0 = lib.seed
    calls = 0
    out: list[dict[str, Any]] = []
    for op in sess["ops"]:
        o: dict[str, Any] = {"op": op, "exc": None}
        kind = op["op"]
        try:
            if kind == "newlib":
                algo = op["algo"]
                lib = fac.create(algo)
                seed0 = lib.seed
                calls = 0
                o["lseed"] = lib.seed - seed0
            elif kind == "q":
                o["x"] = np.array(ds.unnormalize_vect(np.array([float(Fraction(t)) for t in op["u"]]), no_check=True))
                o["state"] = state_of(ds)
            elif kind == "doe":
                req = op["req"]
                eff = effective_seed(algo, req.get("seed"), calls)
                req_eff = dict(req, seed=eff)
                kw = B.settings_of(cur, req)
                mode = op["mode"]
                o["int_before"] = bool(ds.enable_integer_variables_normalization)
                if mode == "exec":
                    pb = OptimizationProblem(ds)
                    pb.objective = MDOFunction(B._objective, "f")
                    lib.execute(pb, **kw)
                    o["x"] = np.array(lib.samples)
                    o["us"] = np.array(lib.unit_samples)
                    o["db"] = [np.array(k) for k in pb.database.get_x_vect_history()]
                else:
                    o["x"] = np.array(lib.compute_doe(ds, unit_sampling=(mode == "unit"), **kw))
                if B.ALGOS[algo]["seed"] is not None:
                    calls += 1
                o["int_after"] = bool(ds.enable_integer_variables_normalization)
                o["lseed"] = lib.seed - seed0
                o["names"] = list(ds.variable_names)
                o["dict0"] = None
                x = o["x"]
                if mode != "unit" and x.ndim == 2 and x.shape[0] and x.shape[1] == ds.dimension:
                    o["dict0"] = {k: np.array(v) for k, v in ds.convert_array_to_dict(x[0]).items()}
                # the same request (effective seed made explicit) on fresh objects built from the record
                kw_eff = B.settings_of(cur, req_eff)
                o["req_eff"] = req_eff
                o["space"] = copy.deepcopy(cur)
                o["ref"] = np.array(fac.create(algo).compute_doe(B.build_space(cur), **kw_eff))
                o["uref"] = np.array(fac.create(algo).compute_doe(B.build_space(cur), unit_sampling=True, **kw_eff))
            else:
                apply_real(ds, op)
                o["state"] = state_of(ds)
        except Exception as e:  # noqa: BLE001
            o["exc"] = common.exc_class(e)
            o["exc_msg"] = repr(e)[:200]
            out.append(o)
            break
        cur = apply_spec(cur, op)
        if kind == "doe" and op["mode"] == "exec":
            cur = after_exec(cur)
        out.append(o)
    return out


# --------------------------------------------------------------------------- oracle


def doe_oracle(o) -> list[tuple[str, str]]:
    """The property's clauses on one DOE of a session, from the record of the space as it is then."""
    op, space, req = o["op"], o["space"], o["req_eff"]
    algo, mode = req["algo"], op["mode"]
    x = o["x"]
    tag = f"[{mode} after {o['history']}] "
    if mode == "unit":
        bad = []
        u = o["uref"]
        d = B.space_dim(space)
        if x.ndim != 2 or x.shape[1] != d or not B.finite(x):
            return [("shape", tag + f"{algo}: unit samples of shape {x.shape} in dimension {d}")]
        if not all(0 <= t <= 1 for row in B.fmat(x) for t in row):
            bad.append(("unit-design-outside-hypercube", tag + f"{algo}: unit samples outside [0,1]"))
        if algo != "CustomDOE" and (u.shape != x.shape or not np.array_equal(u, x)):
            bad.append(("not-reproducible", tag + f"{algo}: the unit samples differ from those of a fresh library and "
                        f"a fresh design space with the same settings and seed={req.get('seed')}"))
        return bad
    obs = {
        "exc": None, "exc_msg": None, "x1": x, "x2": x, "x3": o["ref"], "u": o["uref"],
        "names": o["names"], "dict0": o["dict0"], "x4": None, "x4_exc": None,
    }
    if mode == "exec":
        obs.update({"exec_exc": None, "xs": x, "us": o["us"], "db": o["db"]})
    bad = [(k, tag + m.replace("x3 differs from the first generation",
                               "the samples differ from those of a fresh library on a fresh design space with the same settings"))
           for k, m in B.oracle(space, req, obs)]
    return bad


def history_of(ops: list[dict[str, Any]], i: int) -> str:
    return ",".join(("doe:" + o["mode"]) if o["op"] == "doe" else o["op"] for o in ops[:i]) or "nothing"


def judge(sess, obs) -> list[tuple[int, str, str]]:
    """(index of the operation, key, message) for every clause of the property that fails in the session."""
    bad: list[tuple[int, str, str]] = []
    for i, o in enumerate(obs):
        if o["exc"] is not None:
            what = o["op"]["op"] + (":" + o["op"]["mode"] if o["op"]["op"] == "doe" else "")
            bad.append((i, "valid-request-rejected",
                        f"operation {i} ({what}) of a session inside the quantifier raised {o['exc_msg']} after {history_of(sess['ops'], i)}"))
            continue
        if o["op"]["op"] == "doe":
            o["history"] = history_of(sess["ops"], i)
            for k, m in doe_oracle(o):
                bad.append((i, k, m))
    return bad


def shrink_session(sess, key: str, budget: int = 40):
    """Shorter session with the same failure (operations dropped; every candidate re-validated)."""

    def fails(s) -> bool:
        if not valid_session(s):
            return False
        try:
            return any(k == key for _, k, _ in judge(s, run_session(s)))
        except Exception:  # noqa: BLE001
            return False

    cur = sess
    # cut after the first failing operation
    try:
        first = min(i for i, k, _ in judge(cur, run_session(cur)) if k == key)
        cand = dict(cur, ops=cur["ops"][:first + 1])
        if fails(cand):
            cur = cand
    except Exception:  # noqa: BLE001
        return sess
    calls = 0
    changed = True
    while changed and calls < budget:
        changed = False
        for i in range(len(cur["ops"]) - 1):
            cand = dict(cur, ops=cur["ops"][:i] + cur["ops"][i + 1:])
            calls += 1
            if fails(cand):
                cur, changed = cand, True
                break
            if calls >= budget:
                break
    return cur


# --------------------------------------------------------------------------- model line and comparison


def op_token(cur, op, o) -> str | None:
    kind = op["op"]
    if kind == "add":
        return "add " + B.varspecs({"vars": [op["var"]]})
    if kind == "rm":
        return f"rm {op['name']}"
    if kind in ("lb", "ub"):
        return f"{kind} {op['name']} {','.join(op['b'])}"
    if kind == "ren":
        return f"ren {op['old']} {op['new']}"
    if kind == "keep":
        return "keep " + ",".join(op["names"])
    if kind == "fdim":
        return f"fdim {op['name']} {','.join(map(str, op['dims']))}"
    if kind == "setint":
        return f"setint {1 if op['b'] else 0}"
    if kind == "setval":
        return "setval " + ",".join(op["x"])
    if kind == "q":
        return "q " + ",".join(op["u"])
    if kind == "newlib":
        return "newlib"
    req = op["req"]
    algo = req["algo"]
    mode = op["mode"]
    if algo == "CustomDOE":  # the samples as the user wrote them (form, key orders); converted by the model
        form, groups = B.custom_groups(cur, req)
        return f"cdoe mode={mode} form={form}" + (" | " + groups if groups else "")
    if mode == "exec":
        rows = B.fmat(o["us"])
    else:
        rows = B.fmat(o["uref"])
    seeded = B.ALGOS[algo]["seed"] is not None
    seed = req.get("seed")
    head = (f"doe mode={mode} hyper={0 if algo == 'CustomDOE' else 1} custom={1 if algo == 'CustomDOE' else 0} ok=1 "
            f"uses={1 if seeded else 0} seed={'_' if seed is None else seed}")
    return head + (" | " + B.rows_str(rows) if rows else "")


def session_line(sess, obs) -> str:
    cur = copy.deepcopy(sess["space"])
    toks = []
    for op, o in zip(sess["ops"], obs):
        if o["exc"] is not None:
            break
        toks.append(op_token(cur, op, o))
        cur = apply_spec(cur, op)
    return f"sess int0={1 if sess['space']['int0'] else 0} vars={B.varspecs(sess['space'])} || " + " || ".join(toks)


def compare_session(sess, obs, answer: str) -> tuple[int, str] | None:
    """First operation on which the implementation and the Lean session differ."""
    parts = answer.split(" || ")
    ok_obs = [o for o in obs if o["exc"] is None]
    if answer == "bad-op" or len(parts) != len(ok_obs):
        return (0, f"the model could not run the session ({answer[:80]})")
    for i, (o, ans) in enumerate(zip(ok_obs, parts)):
        op = o["op"]
        kind = op["op"]
        a = B.parse_answer(ans)
        if kind == "newlib":
            if a.get("lseed") != str(o["lseed"]):
                return (i, f"new library: seed counter {o['lseed']}, model {a.get('lseed')}")
        elif kind == "q":
            if a.get("intn") != o["state"]["intn"]:
                return (i, f"query: switch {o['state']['intn']}, model {a.get('intn')}")
            msg = B.near([[Fraction(t) for t in a["x"].split(",")]] if a.get("x", "[]") != "[]" else [[]], B.fmat(o["x"]))
            if msg:
                return (i, f"unnormalize_vect differs from the model: {msg}")
        elif kind == "doe":
            space = o["space"]
            if a.get("res") != "ok":
                return (i, f"doe: model answers {ans[:60]} for a successful call")
            if (a.get("int") == "1") != o["int_after"]:
                return (i, f"doe: switch {o['int_after']} after the call, model {a.get('int')}")
            if int(a["lseed"]) != o["lseed"]:
                return (i, f"doe: library seed counter {o['lseed']}, model {a['lseed']}")
            real = B.fmat(o["x"]) if o["x"].size else []
            model = B.parse_matrix(a["X"])
            if op["mode"] == "unit":
                msg = B.near(model, real)
            else:
                u = None if op["req"]["algo"] == "CustomDOE" else (B.fmat(o["us"]) if op["mode"] == "exec" else B.fmat(o["uref"]))
                msg = B.close_matrix(space, model, real, u)
            if msg:
                return (i, f"doe ({op['mode']}): samples differ from the model: {msg}")
            if op["mode"] == "exec":
                us = B.fmat(o["us"]) if o["us"].size else []
                msg = (B.near_custom_unit(space, B.parse_matrix(a["U"]), us) if op["req"]["algo"] == "CustomDOE"
                       else B.near(B.parse_matrix(a["U"]), us))
                if msg:
                    return (i, f"doe (exec): lib.unit_samples differ from the model: {msg}")
        else:
            st = o["state"]
            for k in ("names", "idx", "int", "lb", "ub", "intn"):
                if a.get(k) != st[k]:
                    return (i, f"state after `{kind}`: {k}={st[k]}, model {a.get(k)}")
    return None


# --------------------------------------------------------------------------- the stream


def count_session(res, sess) -> None:
    cur = copy.deepcopy(sess["space"])
    filled = False  # the private arrays of the design space have been computed at least once
    edited_since = False
    mask_at_fill, dim_at_fill = None, None
    algo = sess["algo"]
    seeds_seen: dict[Any, int] = {}
    n_doe = 0
    for op in sess["ops"]:
        kind = op["op"]
        res.count(f"session-op={kind}" + (":" + op["mode"] if kind == "doe" else ""))
        if kind == "newlib":
            algo = op["algo"]
            seeds_seen = {}
        if kind == "doe":
            n_doe += 1
            req = op["req"]
            res.count(f"session-doe-algo={algo}")
            res.count("session-doe-seed=" + ("none" if B.ALGOS[algo]["seed"] is None else "default" if req["seed"] is None else "0" if req["seed"] == 0 else "nonzero"))
            if B.ALGOS[algo]["seed"] is not None and req["seed"] is not None:
                if seeds_seen.get(req["seed"]):
                    res.count("session-doe:explicit-seed-repeated-on-the-same-library" + ("(seed 0)" if req["seed"] == 0 else ""))
                seeds_seen[req["seed"]] = seeds_seen.get(req["seed"], 0) + 1
            if filled and edited_since:
                res.count("session-doe:on-an-object-edited-after-its-cache-was-filled")
                if B.space_dim(cur) == dim_at_fill and int_mask(cur) != mask_at_fill:
                    res.count("session-doe:integer-components-moved-at-constant-dimension")
                elif B.space_dim(cur) != dim_at_fill:
                    res.count("session-doe:dimension-changed-since-fill")
                else:
                    res.count("session-doe:bounds-or-names-changed-since-fill")
            elif filled:
                res.count("session-doe:repeated-on-unedited-object")
            else:
                res.count("session-doe:first-use-of-the-object")
        if kind in ("doe", "q"):
            filled, edited_since = True, False
            mask_at_fill, dim_at_fill = int_mask(cur), B.space_dim(cur)
        elif kind not in ("newlib",):
            edited_since = True
        cur = apply_spec(cur, op)
        if kind == "doe" and op["mode"] == "exec":
            cur = after_exec(cur)
    res.count(f"session-does={n_doe}")


def check_sessions(res, sessions: list[dict[str, Any]]) -> None:
    prepared = []
    lines = []
    for sess, obs in zip(sessions, B.pool_map(run_session, sessions)):
        prepared.append((sess, obs))
        lines.append(session_line(sess, obs))
    answers = common.run_lean_driver(B.PID, lines) if lines else []
    for (sess, obs), line, ans in zip(prepared, lines, answers):
        res.evaluations += 1
        res.count("session")
        res.count("stream=" + sess.get("stream", "corpus"))
        count_session(res, sess)
        if sum(1 for o in sess["ops"] if o["op"] == "doe") >= 2:
            res.nontrivial("session:" + json.dumps(sess, sort_keys=True, default=str))
        res.sample({"session": {"space": B.varspecs(sess["space"]), "algo": sess["algo"],
                                "ops": [history_of(sess["ops"], len(sess["ops"]))]},
                    "protocol_line": line[:300], "model": ans[:200]})
        bad = judge(sess, obs)
        seen = set()
        for i, key, msg in bad:
            if key in seen:
                continue
            seen.add(key)
            small = shrink_session(sess, key)
            res.violate("oracle", key, msg, {"session": small, "failing_op_of_the_original_session": i})
        mism = compare_session(sess, obs, ans)
        if mism is None:
            res.traces_validated += len([o for o in obs if o["exc"] is None])
            continue
        res.disagreements += 1
        if bad:
            continue
        # failing-input search: the same history followed by a DOE of every other kind / seed on the object
        found = False
        rng = common.make_rng(0, "c14-session-search" + line[:200])
        for _ in range(6):
            cand = copy.deepcopy(sess)
            cand["ops"] = cand["ops"][:mism[0] + 1]
            cur = copy.deepcopy(cand["space"])
            algo = cand["algo"]
            try:
                for op in cand["ops"]:
                    if op["op"] == "newlib":
                        algo = op["algo"]
                    cur = apply_spec(cur, op)
            except Invalid:
                break
            extra = gen_doe(rng, algo, cur, rng.pick(["compute", "exec"]))
            if extra is None:
                continue
            cand["ops"].append(extra)
            if not valid_session(cand):
                continue
            try:
                b2 = judge(cand, run_session(cand))
            except Exception:  # noqa: BLE001
                continue
            if b2:
                i, key, msg = b2[0]
                res.violate("oracle", key, msg, {"session": shrink_session(cand, key),
                                                 "found_by": "failing-input search after a model/implementation disagreement in a session"})
                found = True
                break
        if not found:
            res.violate("correspondence", "session-model-vs-impl",
                        f"operation {mism[0]} of a session: {mism[1]}; no property-violating DOE found after the same history",
                        {"session": sess, "mismatch": mism[1], "protocol_line": line, "model": ans,
                         "correspondence": "Driver/C14.lean `sess`"})


def session_stream(ctx, res) -> None:
    import time

    rng = ctx.rng
    total = 320 if ctx.thorough else 90
    sessions = []
    for _ in range(total):
        sess = gen_session(rng, "exact" if rng.chance(0.5) else "rounded")
        if valid_session(sess):
            sessions.append(sess)
        else:
            res.count("session-generator-discarded")
    for i in range(0, len(sessions), 100):  # one call of the Lean driver costs ~3 s whatever its size
        if time.time() > ctx.deadline:
            res.notes.append("deadline reached in the session stream")
            return
        check_sessions(res, sessions[i:i + 100])


def replay_session(rp) -> int:
    sess = rp["session"]
    print("session on", B.varspecs(sess["space"]), "int0 =", sess["space"]["int0"], "library:", sess["algo"])
    for i, op in enumerate(sess["ops"]):
        print(f"  op {i}:", json.dumps(op, default=str)[:300])
    if not valid_session(sess):
        print("the session is not inside the quantifier (edited replay?)")
        return 0
    obs = run_session(sess)
    bad = judge(sess, obs)
    line = session_line(sess, obs)
    ans = common.run_lean_driver(B.PID, [line])[0]
    for o, a in zip([o for o in obs if o["exc"] is None], ans.split(" || ")):
        if o["op"]["op"] == "doe":
            print("  impl :", o["op"]["mode"], o["x"].tolist()[:4])
            print("  model:", a[:300])
    print("correspondence:", compare_session(sess, obs, ans) or "agrees")
    for i, k, m in bad:
        print("ORACLE FAILS:", k, m)
    return 1 if bad else 0
