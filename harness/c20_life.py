"""C20 — objects pickled *at any moment of their life*: life protocols `jgl` (JSONGrammar) and `h5l` (HDF5Cache).

A life is a list of public-API operations between the construction of the object and its pickling (and after
it, on the original and on the copy).  The generator forms the region the first version of the check never
formed: a setting/definition edited **after** something was built from the earlier one (the schema dict and the
validator of a JSON grammar, the construction arguments of a file cache).

Each case gives one protocol line run by the Lean driver (model `JG` / `HLife` of Model/C20.lean) and by the
real code; the oracles below are written from the property text and never look at the model's answer:

  jgl : the restored grammar has the definition of the original at that moment (names, types, required names,
        defaults, namespaces), the same `schema` dict, the same validation verdicts on a battery of data, and
        answers a further life like the original (same exceptions, same verdicts, same definition afterwards);
  h5l : the restored cache has the tolerance and name the original has when it is pickled (tracked here from
        the operations, exact fractions), the file and node of the original, sees the entries of that node
        when it is restored, answers every look-up according to *its current* tolerance
        (|cached - x| <= tol (1 + |x|), exact arithmetic), and changing the settings of one never changes the
        settings of the other.
"""

from __future__ import annotations

import json
import pickle
import tempfile
from fractions import Fraction
from pathlib import Path
from typing import Any

import numpy as np

from harness import common
from harness.common import rat

JSON_TYPES = ["array", "number", "integer", "string", "boolean", "object", "null", "?"]

# --------------------------------------------------------------------------- jgl: generator


def _fmt_data(d: list[list[Any]]) -> str:
    return "+".join(f"{n}^{k}" for n, k in d) or "_"


def _fmt_gop(op: list[Any]) -> str:
    k = op[0]
    if k in ("N", "K"):
        return f"{k}~{'+'.join(op[1])}"
    if k == "T":
        return f"T~{op[1]}~{op[2]}"
    if k == "D":
        return f"D~{op[1]}~{rat(Fraction(op[2]))}"
    if k in ("M", "S"):
        return f"{k}~{op[1]}~{op[2]}"
    if k == "V":
        return f"V~{_fmt_data(op[1])}"
    if k in ("C", "Q", "P"):
        return k
    return f"{k}~{op[1]}"


def jgl_line(case: dict[str, Any]) -> str:
    ops = ";".join(_fmt_gop(o) for o in case["ops"]) or "_"
    post = ";".join(_fmt_gop(o) for o in case["post"]) or "_"
    bat = "|".join(_fmt_data(d) for d in case["bat"]) or "[]"
    return f"jgl ops={ops} post={post} bat={bat}"


class _Sim:
    """Generator-side bookkeeping (names that probably exist, what was built lazily): only to *bias* the
    generation and to fill the input-distribution histogram; never used by an oracle."""

    def __init__(self) -> None:
        self.names: list[str] = []
        self.required: set[str] = set()
        self.defaults: set[str] = set()
        self.built = False  # schema dict / validator built from the current elements
        self.flags: set[str] = set()

    def pick(self, rng: common.Rng, pool: list[str]) -> str:
        if self.names and rng.chance(0.85):
            return rng.pick(self.names)
        return rng.pick(pool)


def _gen_gop(rng: common.Rng, sim: _Sim, kinds: list[str]) -> list[Any]:
    pool = ["a", "b", "c", "d"]
    k = rng.pick(kinds)
    if k == "N":
        ns = rng.subset(pool, 0.5) or [rng.pick(pool)]
        for n in ns:
            if n not in sim.names:
                sim.names.append(n)
            sim.required.add(n)
        sim.built = False
        return ["N", ns]
    if k == "T":
        n = sim.pick(rng, pool) if rng.chance(0.5) else rng.pick(pool)
        if n not in sim.names:
            sim.names.append(n)
        sim.required.add(n)
        sim.built = False
        return ["T", n, rng.randint(0, 3)]
    if k == "R+":
        n = sim.pick(rng, pool)
        if sim.built and n in sim.names and n not in sim.required:
            sim.flags.add("required-added-after-schema-built")
        if n in sim.names:
            sim.required.add(n)
        return ["R+", n]
    if k == "R-":
        n = rng.pick(sorted(sim.required)) if sim.required and rng.chance(0.85) else sim.pick(rng, pool)
        if sim.built and n in sim.required:
            sim.flags.add("required-removed-after-schema-built")
        sim.required.discard(n)
        return ["R-", n]
    if k == "D":
        n = sim.pick(rng, pool)
        if sim.built and n in sim.names:
            sim.flags.add("default-set-after-schema-built")
        if n in sim.names:
            sim.defaults.add(n)
        return ["D", n, str(Fraction(rng.randint(-8, 8), 4))]
    if k == "D-":
        n = rng.pick(sorted(sim.defaults)) if sim.defaults and rng.chance(0.8) else sim.pick(rng, pool)
        if sim.built and n in sim.defaults:
            sim.flags.add("default-removed-after-schema-built")
        sim.defaults.discard(n)
        return ["D-", n]
    if k == "X":
        n = sim.pick(rng, pool)
        if n in sim.names:
            sim.names.remove(n)
            sim.required.discard(n)
            sim.defaults.discard(n)
            if sim.built:
                sim.flags.add("element-removed-after-schema-built")
            sim.built = False
        return ["X", n]
    if k == "M":
        a = sim.pick(rng, pool)
        b = rng.pick(["e", "f", "z"]) if rng.chance(0.85) else sim.pick(rng, pool)
        if a in sim.names:
            sim.names.remove(a)
            if b not in sim.names:
                sim.names.append(b)
            for s in (sim.required, sim.defaults):
                if a in s:
                    s.discard(a)
                    s.add(b)
            if sim.built:
                sim.flags.add("element-renamed-after-schema-built")
            sim.built = False
        return ["M", a, b]
    if k == "K":
        keep = rng.subset(sim.names, 0.7) if sim.names else []
        if not keep:
            keep = [sim.pick(rng, pool)]
        if all(n in sim.names for n in keep):
            sim.names = [n for n in sim.names if n in keep]
            sim.required &= set(keep)
            sim.defaults &= set(keep)
            if sim.built:
                sim.flags.add("restricted-after-schema-built")
            sim.built = False
        return ["K", keep]
    if k == "S":
        n = sim.pick(rng, pool)
        if n in sim.names and ":" not in n:
            m = "n:" + n
            sim.names[sim.names.index(n)] = m
            for s in (sim.required, sim.defaults):
                if n in s:
                    s.discard(n)
                    s.add(m)
            if sim.built:
                sim.flags.add("namespace-added-after-schema-built")
            sim.built = False
        return ["S", n, "n"]
    if k == "C":
        sim.__init__()
        return ["C"]
    if k == "Q":
        sim.built = True
        return ["Q"]
    if k == "P":
        sim.built = True
        sim.flags.add("round-trip-in-the-middle")
        return ["P"]
    # V: mostly complete data of the right kind, so that the validator is built
    data = []
    for n in sim.names:
        if rng.chance(0.9):
            data.append([n, rng.pick([0, 0, 0, 1, 2, 3])])
    if rng.chance(0.2):
        data.append([rng.pick(["a", "zz"]), rng.randint(0, 3)])
    seen = set()
    data = [d for d in data if not (d[0] in seen or seen.add(d[0]))]
    if all(n in {d[0] for d in data} for n in sim.required):
        sim.built = True
    return ["V", data]


_EDIT = ["N", "N", "T", "T", "X", "M", "K", "S"]
_SOFT = ["R+", "R-", "R-", "D", "D", "D-"]
_USE = ["Q", "V", "V", "P"]


def gen_jgl_case(rng: common.Rng) -> dict[str, Any]:
    sim = _Sim()
    ops: list[list[Any]] = [_gen_gop(rng, sim, ["N", "N", "T"])]
    for _ in range(rng.randint(0, 3)):
        ops.append(_gen_gop(rng, sim, _EDIT + _SOFT))
    # phases "use, then edit what does not reset the lazily built objects" (the life the first version never formed)
    for _ in range(rng.randint(1, 3)):
        ops.append(_gen_gop(rng, sim, _USE))
        for _ in range(rng.randint(0, 3)):
            ops.append(_gen_gop(rng, sim, _SOFT * 3 + _EDIT + ["C"] if rng.chance(0.1) else _SOFT * 3 + _EDIT))
    post = [_gen_gop(rng, sim, _EDIT + _SOFT * 2 + _USE) for _ in range(rng.randint(0, 4))]
    universe = ["a", "b", "c", "d", "e", "f", "z"] + ["n:" + n for n in ("a", "b", "c", "d")]
    bat: list[list[list[Any]]] = [[]]
    for _ in range(5):
        names = rng.subset(universe, 0.45)
        bat.append([[n, rng.pick([0, 0, 0, 1, 2, 3])] for n in names])
    bat.append([[n, 0] for n in universe])
    return {"kind": "jgl", "ops": ops, "post": post, "bat": bat, "flags": sorted(sim.flags)}


# --------------------------------------------------------------------------- jgl: implementation


_KIND_VALUES = {0: lambda: np.array([1.0, 2.0]), 1: lambda: 1.5, 2: lambda: 3, 3: lambda: "s"}


def _g_state(g) -> str:
    props = json.loads(g.to_json()).get("properties", {})  # (to_json does not touch the lazily built objects)
    ps = []
    for n in sorted(g.names):
        t = props.get(n, {}).get("type", "?")
        ps.append(f"{n}^{JSON_TYPES.index(t) if t in JSON_TYPES else 7}")
    req = sorted(g.required_names)
    df = [f"{n}^{rat(common.F(float(v)))}" for n, v in sorted(g.defaults.items())]
    ns = [f"{k}^{v}" for k, v in sorted(g.to_namespaced.items())]
    return "/".join(",".join(x) or "[]" for x in (ps, req, df, ns))


def _g_schema(g) -> str:
    s = g.schema
    props = s.get("properties", {})
    ps = []
    for n in sorted(props):
        t = props[n].get("type", "?")
        ps.append(f"{n}^{JSON_TYPES.index(t) if t in JSON_TYPES else 7}")
    return "s[" + (",".join(ps) or "[]") + "/" + (",".join(sorted(s.get("required", []))) or "[]") + "]"


def _g_validate(g, data: list[list[Any]]) -> bool:
    from gemseo.core.grammars.errors import InvalidDataError

    try:
        g.validate({n: _KIND_VALUES[k]() for n, k in data})
    except InvalidDataError:
        return False
    return True


_PY_TYPES = {0: np.ndarray, 1: float, 2: int, 3: str}


def _g_apply(g, op: list[Any]):
    """Returns (grammar to go on with, answer token)."""
    k = op[0]
    try:
        if k == "N":
            g.update_from_names(list(op[1]))
        elif k == "T":
            g.update_from_types({op[1]: _PY_TYPES[op[2]]})
        elif k == "R+":
            g.required_names.add(op[1])
        elif k == "R-":
            if op[1] in g.required_names:
                g.required_names.remove(op[1])
            else:
                g.required_names.discard(op[1])
        elif k == "D":
            g.defaults[op[1]] = float(Fraction(op[2]))
        elif k == "D-":
            g.defaults.pop(op[1], None)
        elif k == "X":
            del g[op[1]]
        elif k == "M":
            g.rename_element(op[1], op[2])
        elif k == "K":
            g.restrict_to(list(op[1]))
        elif k == "S":
            g.add_namespace(op[1], op[2])
        elif k == "C":
            g.clear()
        elif k == "Q":
            return g, _g_schema(g)
        elif k == "V":
            return g, "v1" if _g_validate(g, op[1]) else "v0"
        elif k == "P":
            return pickle.loads(pickle.dumps(g)), "ok"
        else:
            return g, "bad-op"
    except KeyError:
        return g, "E:key"
    except ValueError:
        return g, "E:value"
    return g, "ok"


def jgl_impl(case: dict[str, Any]) -> tuple[str, dict[str, Any]]:
    from gemseo.core.grammars.json_grammar import JSONGrammar

    parts: dict[str, Any] = {}
    g = JSONGrammar("g")
    tr = []
    for op in case["ops"]:
        g, out = _g_apply(g, op)
        tr.append(f"{out}@{_g_state(g)}")
    head = ";".join(tr) or "_"
    try:
        c = pickle.loads(pickle.dumps(g))
    except KeyError:
        parts["restore"] = "E:key"
        return f"{head} | O={_g_state(g)} C=E:key", parts
    parts["restore"] = "ok"
    parts["O"], parts["C"] = _g_state(g), _g_state(c)
    parts["so"], parts["sc"] = _g_schema(g), _g_schema(c)
    parts["vo"] = "".join("1" if _g_validate(g, d) else "0" for d in case["bat"])
    parts["vc"] = "".join("1" if _g_validate(c, d) else "0" for d in case["bat"])
    po, pc = [], []
    for op in case["post"]:
        g, out = _g_apply(g, op)
        po.append(out)
    for op in case["post"]:
        c, out = _g_apply(c, op)
        pc.append(out)
    parts["po"], parts["pc"] = ";".join(po) or "_", ";".join(pc) or "_"
    parts["O2"], parts["C2"] = _g_state(g), _g_state(c)
    parts["vo2"] = "".join("1" if _g_validate(g, d) else "0" for d in case["bat"])
    parts["vc2"] = "".join("1" if _g_validate(c, d) else "0" for d in case["bat"])
    s = (
        f"{head} | O={parts['O']} C={parts['C']} so={parts['so']} sc={parts['sc']} vo={parts['vo']} vc={parts['vc']}"
        f" | {parts['po']}#{parts['pc']} O={parts['O2']} C={parts['C2']} vo={parts['vo2']} vc={parts['vc2']}"
    )
    return s, parts


def jgl_oracle(case: dict[str, Any], parts: dict[str, Any]) -> list[tuple[str, str]]:
    """Property text: the restored grammar exposes the same grammar (names, types, required names, defaults,
    namespaces, schema), accepts and rejects the same data, and behaves like the original afterwards."""
    bad: list[tuple[str, str]] = []
    if parts.get("restore") != "ok":
        return [("JSONGrammar:life-restore-raises", f"the grammar cannot be restored after its life: {parts.get('restore')}")]
    n = len(case["bat"])
    checks = [
        ("O", "C", "definition (names^types/required/defaults/namespaces)", "JSONGrammar:life-view-differs"),
        ("so", "sc", "schema dict (properties/required)", "JSONGrammar:life-view-differs"),
        ("vo", "vc", "validation verdicts on the battery", "JSONGrammar:life-validation-differs"),
        ("po", "pc", "answers to the further life", "JSONGrammar:life-behaviour-differs"),
        ("O2", "C2", "definition after the further life", "JSONGrammar:life-behaviour-differs"),
        ("vo2", "vc2", "validation verdicts after the further life", "JSONGrammar:life-behaviour-differs"),
    ]
    for a, b, what, key in checks:
        va, vb = parts.get(a), parts.get(b)
        well_formed = isinstance(va, str) and isinstance(vb, str) and va != "" and (a[0] != "v" or len(va) == n)
        if not (well_formed and va == vb):
            bad.append((key, f"{what}: original {va!r}, restored {vb!r}"))
    return bad


# --------------------------------------------------------------------------- h5l: generator


def _fmt_hop(op: list[Any]) -> str:
    k = op[0]
    if k in ("P", "L"):
        return k
    if k in ("W", "w"):
        return f"{k}~{op[1]}~{op[2]}"
    if k in ("T", "t", "Q", "q"):
        return f"{k}~{rat(Fraction(op[1]))}"
    return f"{k}~{op[1]}"


def h5l_line(case: dict[str, Any]) -> str:
    disk = "+".join(f"{loc}={';'.join(f'{i}:{o}' for i, o in es) or '[]'}" for loc, es in case["nodes"].items()) or "[]"
    p, n = case["cache"].split("@")
    ops = ";".join(_fmt_hop(o) for o in case["ops"]) or "_"
    return f"h5l disk={disk} cache={rat(Fraction(case['tol']))}|{p}|{n}|{case.get('name', 'nm')} ops={ops}"


_TOLS = ["0", "1/64", "1/32", "1/16"]
_DELTAS = [Fraction(0), Fraction(1, 64), Fraction(-1, 64), Fraction(1, 8), Fraction(-1, 8), Fraction(1, 4), Fraction(1, 2)]


def gen_h5l_case(rng: common.Rng) -> dict[str, Any]:
    nodes: dict[str, list[list[int]]] = {}
    loc = rng.pick(["f@n", "f@n", "f@m", "g@n"])
    k0 = rng.randint(0, 3)
    nodes[loc] = [[i + 1, rng.randint(-6, 6)] for i in range(k0)]
    for other in rng.subset(["f@n", "f@m", "g@n"], 0.4):
        if other != loc:
            nodes[other] = [[i + 1, 50 + rng.randint(0, 9)] for i in range(rng.randint(1, 3))]
    n_entries = [k0]

    def setting(actor_upper: bool) -> list[Any]:
        if rng.chance(0.7):
            t = rng.pick(_TOLS) if rng.chance(0.92) else "-1/8"
            return ["T" if actor_upper else "t", t]
        return ["N" if actor_upper else "n", rng.pick(["zz", "k2", "node-name"])]

    def write(actor_upper: bool) -> list[Any] | None:
        if n_entries[0] >= 6:
            return None
        n_entries[0] += 1
        return ["W" if actor_upper else "w", n_entries[0], rng.randint(-6, 6)]

    def query(actor_upper: bool) -> list[Any]:
        base = rng.randint(1, max(1, n_entries[0])) if rng.chance(0.85) else n_entries[0] + 1
        return ["Q" if actor_upper else "q", str(Fraction(base) + rng.pick(_DELTAS))]

    ops: list[list[Any]] = []
    changed = False
    for _ in range(rng.randint(0, 4)):  # the life of the original before it is pickled
        r = rng.random()
        if r < 0.45:
            ops.append(setting(True))
            changed = True
        elif r < 0.75:
            w = write(True)
            if w:
                ops.append(w)
        else:
            ops.append(query(True))
    if not changed and rng.chance(0.6):
        ops.append(setting(True))
    ops.append(["P"])
    for _ in range(rng.randint(0, 2)):  # between dumps and loads
        w = write(True) if rng.chance(0.5) else None
        ops.append(w or setting(True))
    ops.append(["L"])
    for _ in range(rng.randint(2, 6)):  # afterwards: the copy works, the original is queried / re-configured
        r = rng.random()
        if r < 0.5:
            ops.append(query(False))
        elif r < 0.65:
            w = write(False)
            ops.append(w or query(False))
        elif r < 0.8:
            ops.append(setting(False))
        elif r < 0.9:
            ops.append(setting(True))
        else:
            ops.append(query(True))
    return {"kind": "h5l", "nodes": nodes, "cache": loc, "tol": rng.pick(["0", "0", "1/64", "1/16"]), "name": "nm", "ops": ops}


# --------------------------------------------------------------------------- h5l: implementation


def h5l_impl(case: dict[str, Any], tmp: Path) -> str:
    from gemseo.caches.hdf5_cache import HDF5Cache

    d = Path(tempfile.mkdtemp(dir=tmp))
    for loc, es in case["nodes"].items():
        p, n = loc.split("@")
        c = HDF5Cache(hdf_file_path=str(d / f"{p}.h5"), hdf_node_path=n)
        for i, o in es:
            c.cache_outputs({"x": np.array([float(i)])}, {"y": np.array([float(o)])})
    p, n = case["cache"].split("@")
    c0 = HDF5Cache(hdf_file_path=str(d / f"{p}.h5"), hdf_node_path=n, tolerance=float(Fraction(case["tol"])), name=case.get("name", "nm"))

    def entries(c) -> str:
        es = [(common.F(e.inputs["x"][0]), common.F(e.outputs["y"][0])) for e in (list(c.get_all_entries()) if len(c) else [])]
        es.sort()
        return ";".join(f"{rat(i)}:{rat(o)}" for i, o in es) or "[]"

    def settings(c) -> str:
        fp = Path(c.hdf_file.hdf_file_path)
        path = fp.stem if fp.parent == d and fp.suffix == ".h5" else str(fp)
        return f"{rat(common.F(c.tolerance))}|{path}|{c.hdf_node_path}|{c.name}"

    blob = None
    c1 = None
    outs = []
    for op in case["ops"]:
        k = op[0]
        if k == "P":
            blob = pickle.dumps(c0)
            outs.append("ok")
            continue
        if k == "L":
            c1 = pickle.loads(blob)
            outs.append(f"c={settings(c1)},sees={entries(c1)}")
            continue
        c = c0 if k.isupper() else c1
        if c is None:
            outs.append("bad-op")
            continue
        kk = k.upper()
        try:
            if kk == "T":
                c.tolerance = float(Fraction(op[1]))
                outs.append("ok")
            elif kk == "N":
                c.name = op[1]
                outs.append("ok")
            elif kk == "W":
                c.cache_outputs({"x": np.array([float(op[1])])}, {"y": np.array([float(op[2])])})
                outs.append("ok")
            else:
                e = c[{"x": np.array([float(Fraction(op[1]))])}]
                outs.append("h" + rat(common.F(e.outputs["y"][0])) if e.outputs else "miss")
        except ValueError:
            outs.append("E:value")
    fresh = HDF5Cache(hdf_file_path=str(d / f"{p}.h5"), hdf_node_path=n)
    return f"{';'.join(outs) or '_'} | O={settings(c0)} C={settings(c1) if c1 is not None else '_'} after={entries(fresh)}"


def h5l_expected(case: dict[str, Any]) -> str:
    """The answer the property text demands, computed here with exact fractions (independent of the code under
    test and of the Lean model)."""
    p, n = case["cache"].split("@")
    disk = [(Fraction(i), Fraction(o)) for i, o in case["nodes"].get(case["cache"], [])]

    class Actor:
        def __init__(self, tol, name, known):
            self.tol, self.name, self.known = tol, name, list(known)

        def settings(self):
            return f"{rat(self.tol)}|{p}|{n}|{self.name}"

        def lookup(self, x):
            hits = [o for i, o in self.known if (i == x if self.tol == 0 else abs(i - x) <= self.tol * (1 + abs(x)))]
            return "h" + rat(hits[0]) if hits else "miss"

    def show(es):
        return ";".join(f"{rat(i)}:{rat(o)}" for i, o in sorted(es)) or "[]"

    orig = Actor(Fraction(case["tol"]), case.get("name", "nm"), disk)
    copy = None
    snap = None
    outs = []
    for op in case["ops"]:
        k = op[0]
        if k == "P":
            snap = (orig.tol, orig.name)  # the settings the original has *now*
            outs.append("ok")
            continue
        if k == "L":
            copy = Actor(snap[0], snap[1], disk)
            outs.append(f"c={copy.settings()},sees={show(disk)}")
            continue
        a = orig if k.isupper() else copy
        kk = k.upper()
        if kk == "T":
            t = Fraction(op[1])
            if t < 0:
                outs.append("E:value")
            else:
                a.tol = t
                outs.append("ok")
        elif kk == "N":
            a.name = op[1]
            outs.append("ok")
        elif kk == "W":
            e = (Fraction(op[1]), Fraction(op[2]))
            disk.append(e)
            a.known.append(e)
            outs.append("ok")
        else:
            outs.append(a.lookup(Fraction(op[1])))
    return f"{';'.join(outs) or '_'} | O={orig.settings()} C={copy.settings() if copy else '_'} after={show(disk)}"


def h5l_flags(case: dict[str, Any]) -> list[str]:
    """Input-distribution facts of a case (for the histogram)."""
    flags = []
    pre = case["ops"][: next(i for i, o in enumerate(case["ops"]) if o[0] == "P")]
    mid = case["ops"][len(pre) + 1 : next(i for i, o in enumerate(case["ops"]) if o[0] == "L")]
    tol = Fraction(case["tol"])
    for o in pre:
        if o[0] == "T" and Fraction(o[1]) >= 0 and Fraction(o[1]) != tol:
            flags.append("tolerance-changed-before-pickling")
        if o[0] == "N":
            flags.append("name-changed-before-pickling")
    if any(o[0] in ("T", "N") for o in mid):
        flags.append("settings-changed-between-dumps-and-loads")
    if any(o[0] == "W" for o in mid):
        flags.append("write-between-dumps-and-loads")
    exp = h5l_expected(case).split(" | ")[0].split(";")
    post_q = [(o, e) for o, e in zip(case["ops"], exp) if o[0] == "q"]
    if any(e.startswith("h") and Fraction(o[1]).denominator != 1 for o, e in post_q):
        flags.append("copy-lookup-hit-within-tolerance")
    if any(e == "miss" for _, e in post_q):
        flags.append("copy-lookup-miss")
    return sorted(set(flags))
