"""Harness disciplines for C12 (real module: GEMSEO's docstring inheritance needs source access).

`PolyDisc` computes exact dyadic polynomials of its inputs, appends one line per execution to a
run log (flushed and fsync-ed *before* the body runs) and kills the process with `os._exit(1)`
inside its `k`-th execution (process-wide count over all the disciplines of the run) when asked
to: nothing of that execution is returned to GEMSEO.
"""

from __future__ import annotations

import json
import os
from typing import Any

from gemseo.core.discipline import Discipline
from numpy import array
from numpy import atleast_1d
from numpy import concatenate
from numpy import zeros


class RunLog:
    """Process-wide event log + crash trigger."""

    def __init__(self) -> None:
        self.fh = None
        self.n_exec = 0
        self.crash_k: int | None = None
        self.crash_in = "run"  # "run": inside the k-th execution; "jac": inside the k-th Jacobian computation
        self.n_jac = 0
        self.database = None  # the problem's database (read only): logged at every crash point

    def db_names(self):
        """The content of the database right now: [[point, [output names]], ...] in insertion order."""
        if self.database is None:
            return None
        return [[flt(x.unwrap()), list(outs)] for x, outs in self.database.items()]

    def open(self, path: str, crash_k: int | None, crash_in: str = "run") -> None:
        self.fh = open(path, "a")  # noqa: SIM115
        self.crash_k = crash_k
        self.crash_in = crash_in

    def write(self, ev: dict[str, Any]) -> None:
        if self.fh is None:
            return
        self.fh.write(json.dumps(ev) + "\n")
        self.fh.flush()
        os.fsync(self.fh.fileno())


LOG = RunLog()


def flt(v) -> list[float]:
    return [float(t) for t in atleast_1d(v).real.ravel()]


class PolyDisc(Discipline):
    """`out_j = c_j + a_j . u + q_j . u**2` with `u` the concatenation of the inputs.

    `spec = {"name", "inputs": [[name, size], ...], "outputs": {out: poly | [poly, ...]}}` with
    `poly = {"c": c, "a": [...], "q": [...]}`; an output given by a list of polynomials is a vector.
    """

    def __init__(self, spec: dict[str, Any]) -> None:
        super().__init__(name=spec["name"])
        self.spec = spec
        self.in_names = [n for n, _ in spec["inputs"]]
        self.in_sizes = [int(s) for _, s in spec["inputs"]]
        self.io.input_grammar.update_from_names(self.in_names)
        self.io.output_grammar.update_from_names(list(spec["outputs"]))
        for n, s in spec["inputs"]:
            self.io.input_grammar.defaults[n] = zeros(int(s))

    def _u(self, data) -> Any:
        return concatenate([atleast_1d(data[n]).astype(float) for n in self.in_names])

    def _run(self, input_data):
        LOG.n_exec += 1
        k = LOG.n_exec
        LOG.write({"ev": "call", "d": self.name, "k": k, "in": {n: flt(input_data[n]) for n in self.in_names},
                   "db": LOG.db_names()})
        if LOG.crash_in == "run" and LOG.crash_k is not None and k == LOG.crash_k:
            os._exit(1)
        u = self._u(input_data)
        out = {}
        for name, ps in self.spec["outputs"].items():
            vals = []
            for p in ps if isinstance(ps, list) else [ps]:
                v = float(p["c"])
                for ai, qi, ui in zip(p["a"], p["q"], u):
                    v += float(ai) * float(ui) + float(qi) * float(ui) * float(ui)
                vals.append(v)
            out[name] = array(vals)
        return out

    def _compute_jacobian(self, input_names=(), output_names=()):
        LOG.n_jac += 1
        LOG.write({"ev": "jac", "d": self.name, "k": LOG.n_jac, "db": LOG.db_names()})
        if LOG.crash_in == "jac" and LOG.crash_k is not None and LOG.n_jac == LOG.crash_k:
            os._exit(1)
        u = self._u(self.io.data)
        self.jac = {}
        for name, ps in self.spec["outputs"].items():
            rows = [[float(ai) + 2.0 * float(qi) * float(ui) for ai, qi, ui in zip(p["a"], p["q"], u)]
                    for p in (ps if isinstance(ps, list) else [ps])]
            self.jac[name] = {}
            off = 0
            for n, s in zip(self.in_names, self.in_sizes):
                self.jac[name][n] = array([row[off:off + s] for row in rows])
                off += s
