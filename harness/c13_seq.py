"""C13, "sequential counterpart" streams (round 3 of the independent mutation).

Two ungated streams; their oracles hold for EVERY schedule, so nothing is steered (small sleeps only bias the
completion order) and no verdict depends on wall-clock time (a call that does not come back is a time-out: exit 2).

* ``fdhist``  — histories of 2-4 calls ``f_gradient(x, step=, x_indices=, **kwargs)`` /
  ``compute_optimal_step(x, **kwargs)`` on ONE gradient approximator (FirstOrderFD, CenteredDifferences,
  ComplexStep) created with ``parallel=True`` (processes, ``n_processes`` 2-3; the thread back-end refuses one
  callable for several tasks), the function taking keyword
  arguments that CHANGE between the calls; the same history on a sequential approximator.  Oracle: closed form in
  exact arithmetic (Fractions) wherever the step is dyadic, optimal steps from the formula within a relative bound,
  and equality with the sequential counterpart.
* ``chainmix`` — histories of 1-3 ``execute`` / ``linearize`` calls on ONE MDOParallelChain of affine disciplines with
  several inputs and outputs: an output computed by two or three disciplines (the last one wins, as for the data),
  inputs only one producer depends on, requested input/output subsets (``add_differentiated_inputs/outputs``,
  accumulated over the history) or ``compute_all_jacobians=True``, ``execute=False`` after an execution at the same
  point, disciplines computing only the requested blocks or all of them, with and without cache, ``use_deep_copy``
  on/off, threads/processes, ``n_processes`` 1..n.  Oracle: closed form (value and Jacobian block of the LAST
  producer of each output, zero block when it does not depend on the input); the same history on an MDOChain is run
  and shown for information (a chain defect is C09's matter).
"""

from __future__ import annotations

import json
import threading
import time
from fractions import Fraction
from typing import Any

from harness import common

PID = "C13"
CALL_WAIT_S = 240.0  # an ungated history that has not come back by then is a time-out of the machinery (exit 2)
EPS = Fraction(2) ** -52
REL = Fraction(1, 10 ** 9)  # relative bound of the rounded comparisons (optimal steps: one sqrt and a few roundings)


def rat(v) -> str:
    return str(Fraction(v))


def guarded(fn, *args):
    """Run `fn(*args)` in a thread; ("ok", value) | ("error", exception) | ("timeout", None)."""
    box: list[Any] = []

    def body():
        try:
            box.append(("ok", fn(*args)))
        except BaseException as e:  # noqa: BLE001
            box.append(("error", e))

    t = threading.Thread(target=body, daemon=True)
    t.start()
    t.join(CALL_WAIT_S)
    if not box:
        return ("timeout", None)
    return box[0]


def close(a, want: Fraction) -> bool:
    """Positive assertion: `a` is a finite float within the relative bound of `want`."""
    if not common.is_finite_num(a):
        return False
    return abs(common.F(float(a)) - want) <= REL * max(abs(want), Fraction(1, 10 ** 300))


# ============================================================================ fdhist
# case: {"kind": "fdhist", "method": "fd"|"centered"|"complex", "backend": "process"|"thread", "n_procs": int, "h_pow": k,
#        "coef": [[ints]], "c0": [ints], "q": [ints], "sleep": bool,
#        "ops": [{"op": "grad", "x": ["p/q"..], "kw": {"scale": "p/q", "shift": "p/q"}, "indices": [ints], "step_pow": k|None},
#                {"op": "optstep", "x": [...], "kw": {...}}]}


def _fd_make(case, parallel: bool):
    from gemseo.utils.derivatives.centered_differences import CenteredDifferences
    from gemseo.utils.derivatives.complex_step import ComplexStep
    from gemseo.utils.derivatives.finite_differences import FirstOrderFD

    from harness.c13_disc import KwVecFunction

    cls = {"fd": FirstOrderFD, "centered": CenteredDifferences, "complex": ComplexStep}[case["method"]]
    fun = KwVecFunction(case["coef"], case["c0"], case["q"], 0.01 if parallel and case.get("sleep") else 0.0)
    kw = {}
    if parallel:
        kw = {"parallel": True, "n_processes": case["n_procs"], "use_threading": case["backend"] == "thread"}
    return cls(fun, step=2.0 ** -case["h_pow"], **kw)


def _fd_apply(approx, op):
    import numpy as np

    x = np.array([float(Fraction(t)) for t in op["x"]])
    kw = {k: float(Fraction(v)) for k, v in op["kw"].items()}
    try:
        if op["op"] == "optstep":
            steps, errors = approx.compute_optimal_step(x, **kw)
            return ("returned", [[float(v) for v in np.atleast_1d(steps)], [float(v) for v in np.atleast_1d(errors)]])
        args = {}
        if op.get("indices"):
            args["x_indices"] = list(op["indices"])
        if op.get("step_pow") is not None:
            args["step"] = 2.0 ** -op["step_pow"]
        g = approx.f_gradient(x, **args, **kw)
        return ("returned", [[float(v) for v in row] for row in np.atleast_2d(np.asarray(g, dtype=float))])
    except Exception as e:  # noqa: BLE001
        return ("raised", common.exc_class(e), str(e)[:200])


def run_fdhist_case(case) -> dict[str, Any]:
    def history(parallel: bool):
        approx = _fd_make(case, parallel)
        return [_fd_apply(approx, op) for op in case["ops"]]

    out: dict[str, Any] = {"timeout": None}
    kind, val = guarded(history, True)
    if kind == "timeout":
        out["timeout"] = "the parallel history did not come back"
        return out
    out["parallel"] = val if kind == "ok" else [("raised", common.exc_class(val), str(val)[:200])] * len(case["ops"])
    out["sequential"] = history(False)
    return out


def _fd_fun(case, x: list[Fraction], kw) -> list[Fraction]:
    s = Fraction(kw.get("scale", 1))
    t = Fraction(kw.get("shift", 0))
    return [s * (Fraction(c0) + sum(Fraction(c) * v for c, v in zip(row, x)) + Fraction(q) * sum((i + 1) * v * v for i, v in enumerate(x))) + t
            for row, c0, q in zip(case["coef"], case["c0"], case["q"])]


def fd_grad_exact(case, op, h: Fraction) -> list[list[Fraction]]:
    """Closed form of the approximation of f_j = scale (c0_j + sum c_ji x_i + q_j sum (i+1) x_i^2) + shift."""
    x = [Fraction(t) for t in op["x"]]
    s = Fraction(op["kw"].get("scale", 1))
    idx = op.get("indices") or list(range(len(x)))
    out = []
    for row, q in zip(case["coef"], case["q"]):
        out.append([s * (Fraction(row[i]) + Fraction(q) * (i + 1) * (2 * x[i] + (h if case["method"] == "fd" else 0))) for i in idx])
    return out


def fd_optstep_exact(case, op, h: Fraction):
    """(optimal steps, has curvature) of a ONE-output function from the formula `2 sqrt(eps |f0| / |f''|)`
    with `f'' ~ (f(x+h) - 2 f(x) + f(x-h)) / h^2` (exact here: the function is quadratic); `h` when `|f''| < 1e-10`."""
    x = [Fraction(t) for t in op["x"]]
    f0 = _fd_fun(case, x, op["kw"])[0]
    steps = []
    for i in range(len(x)):
        xp = [v + (h if j == i else 0) for j, v in enumerate(x)]
        xm = [v - (h if j == i else 0) for j, v in enumerate(x)]
        hess = (_fd_fun(case, xp, op["kw"])[0] - 2 * f0 + _fd_fun(case, xm, op["kw"])[0]) / (h * h)
        if abs(hess) < Fraction(1, 10 ** 10):
            steps.append((h, None))
        else:
            steps.append((eps_ratio_sqrt(abs(f0) / abs(hess)), hess))
    return steps, f0


def eps_ratio_sqrt(r: Fraction) -> Fraction:
    """2 * sqrt(eps * r) to ~30 digits, in rationals."""
    v = EPS * r
    if v == 0:
        return Fraction(0)
    from decimal import Decimal
    from decimal import getcontext

    getcontext().prec = 40
    d = (Decimal(v.numerator) / Decimal(v.denominator)).sqrt()
    return 2 * Fraction(d)


def fdhist_oracle(case, obs) -> list[tuple[str, str, int]]:
    """[(key, message, index of the call)]"""
    if obs.get("timeout"):
        return []
    bad = []
    m = case["method"]
    step_known: Fraction | None = Fraction(1, 2 ** case["h_pow"])  # None once compute_optimal_step replaced the default step
    for k, (op, par, seq) in enumerate(zip(case["ops"], obs["parallel"], obs["sequential"])):
        what = f"call {k + 1} {describe_fd_op(op)}"
        if seq[0] != "returned":
            continue  # the sequential approximator refuses this call: outside the quantifier, no verdict
        if par[0] != "returned":
            bad.append((f"{op['op']}-raises", f"{what}: the parallel approximator raised {par[1:]} (sequential: {seq[1]})", k))
            if op["op"] == "optstep":
                step_known = None
            continue
        if repr(par[1]) != repr(seq[1]):
            bad.append((f"{op['op']}-differs-from-sequential", f"{what}: parallel {par[1]} differs from the sequential counterpart {seq[1]}", k))
        if op["op"] == "grad":
            h = Fraction(1, 2 ** op["step_pow"]) if op.get("step_pow") is not None else step_known
            if h is not None:
                want = fd_grad_exact(case, op, h)
                val = par[1]
                ok = len(val) == len(want) and all(
                    len(r) == len(w) and all(common.is_finite_num(a) and common.F(a) == b for a, b in zip(r, w)) for r, w in zip(val, want))
                if not ok:
                    bad.append(("grad-wrong-jacobian", f"{what}: parallel Jacobian {val} is not the exact value "
                                f"{[[str(v) for v in r] for r in want]} of the approximation formula with these keyword arguments", k))
        else:
            if step_known is not None and len(case["coef"]) == 1:
                want, f0 = fd_optstep_exact(case, op, step_known)
                steps = par[1][0]
                ok = len(steps) == len(want) and all(close(a, w) for a, (w, _) in zip(steps, want))
                if not ok:
                    bad.append(("optstep-wrong-steps", f"{what}: parallel optimal steps {steps} are not 2 sqrt(eps |f(x)| / |f''|) = "
                                f"{[float(w) for w, _ in want]} (f(x) = {f0} with these keyword arguments)", k))
            step_known = None
    return bad


def fdhist_model_lines(case, obs) -> list[tuple[int, str]]:
    """[(index of the call, protocol line)] for Driver/C13.lean (Model §7): `ainit`, then one `agrad` / `aopt` per call
    as long as the model can follow in exact arithmetic (FirstOrderFD / CenteredDifferences; after a
    compute_optimal_step the object's step is a rounded float: only calls with an explicit dyadic `step=` are compared;
    a call refused by the sequential approximator ends the comparison)."""
    if case["method"] not in ("fd", "centered") or obs.get("timeout"):
        return []
    rows = "|".join(",".join(str(v) for v in r) for r in case["coef"])
    lines = [(-1, f"ainit {'F' if case['method'] == 'fd' else 'C'} {case['n_procs']} 1/{2 ** case['h_pow']} {rows} "
                  f"{','.join(map(str, case['c0']))} {','.join(map(str, case['q']))}")]
    step_known = True
    for k, (op, seq) in enumerate(zip(case["ops"], obs["sequential"])):
        if seq[0] != "returned":
            break
        sc, sh = op["kw"].get("scale", "1"), op["kw"].get("shift", "0")
        x = ",".join(op["x"])
        if op["op"] == "optstep":
            if not step_known:
                break  # the model's abstract step is not the float step: it cannot follow a second compute_optimal_step
            lines.append((k, f"aopt {x} {sc} {sh}"))
            step_known = False
        else:
            explicit = op.get("step_pow") is not None
            if not (explicit or step_known):
                continue  # the real call uses the rounded optimal steps; the model skips it (it changes no state but the kwargs, which every call overwrites)
            idx = ",".join(map(str, op["indices"])) if op.get("indices") else "[]"
            lines.append((k, f"agrad {x} {idx} {'1/' + str(2 ** op['step_pow']) if explicit else '_'} {sc} {sh}"))
    return lines


def _parse_rows(tok: str) -> list[list[Fraction]]:
    return [[Fraction(v) for v in r.split(",")] if r not in ("", "[]") else [] for r in tok.split("|")]


def fdhist_compare(case, obs, lines, answers) -> str | None:
    """First difference between the real parallel approximator and the model, or None."""
    h = Fraction(1, 2 ** case["h_pow"])
    for (k, line), ans in zip(lines, answers):
        if k < 0:
            if ans != "ok":
                return f"`{line}` -> {ans}"
            continue
        par = obs["parallel"][k]
        parts = dict(t.split("=", 1) for t in ans.split(" ") if "=" in t)
        if "res" not in parts:
            return f"call {k + 1}: `{line}` -> {ans}"
        if par[0] != "returned":
            return f"call {k + 1}: `{line}`: the model returns {parts['res']}, the parallel approximator raised {par[1:]}"
        res = _parse_rows(parts["res"])
        op = case["ops"][k]
        if op["op"] == "grad":
            if not _exact_eq(par[1], res):
                return (f"call {k + 1}: `{line}`: model Jacobian {parts['res']} (pool evaluations {parts.get('evals')}), "
                        f"parallel approximator {par[1]}")
        else:
            f0, d2 = res[0], res[1:]
            if len(f0) != 1:
                continue  # several outputs: the worst case over the outputs depends on float ties; values left to the oracle
            steps = par[1][0]
            want = []
            for row in d2:
                hess = row[0] / (h * h)
                want.append(h if abs(hess) < Fraction(1, 10 ** 10) else eps_ratio_sqrt(abs(f0[0]) / abs(hess)))
            if not (len(steps) == len(want) and all(close(a, w) for a, w in zip(steps, want))):
                return (f"call {k + 1}: `{line}`: the model's pool evaluates {parts.get('evals')} (f(x) = {f0[0]}, second differences "
                        f"{[str(r[0]) for r in d2]}), i.e. optimal steps {[float(w) for w in want]}; parallel approximator {steps}")
    return None


def describe_fd_op(op) -> str:
    kw = ",".join(f"{k}={v}" for k, v in sorted(op["kw"].items())) or "no kwargs"
    if op["op"] == "optstep":
        return f"compute_optimal_step(x={op['x']}, {kw})"
    extra = (f", x_indices={op['indices']}" if op.get("indices") else "") + (f", step=2^-{op['step_pow']}" if op.get("step_pow") is not None else "")
    return f"f_gradient(x={op['x']}{extra}, {kw})"


def describe_fdhist(case) -> str:
    return (f"{case['method']} {case['backend']} n_processes={case['n_procs']} step=2^-{case['h_pow']} coef={case['coef']} c0={case['c0']} q={case['q']}: "
            + "; ".join(describe_fd_op(op) for op in case["ops"]))


def _gen_kw(rng: common.Rng, avoid=None) -> dict[str, str]:
    for _ in range(20):
        kw = {}
        r = rng.randint(0, 5)
        if r in (1, 3, 4, 5):
            kw["scale"] = rat(rng.pick([2, 3, -2, Fraction(1, 2), 4, -1, 8]))
        if r in (2, 3, 5):
            kw["shift"] = rat(rng.pick([1, -3, 5, 16, -64, 100]))
        if avoid is None or kw != avoid:
            return kw
    return {"scale": "2"}


def gen_fdhist_case(rng: common.Rng, method: str | None = None, backend: str | None = None, first: str | None = None) -> dict[str, Any]:
    method = method or rng.pick(["fd", "fd", "centered", "centered", "complex"])
    backend = "process"  # threads refuse one callable used for several tasks ("all workers shall be different objects")
    d = rng.randint(1, 3)
    m = rng.pick([1, 1, 2])
    coef = [[rng.randint(-3, 3) + 4 * i for i in range(d)] for _ in range(m)]
    case = {"kind": "fdhist", "method": method, "backend": backend, "n_procs": rng.pick([2, 2, 3]), "h_pow": rng.randint(2, 4),
            "coef": coef, "c0": [rng.randint(-2, 2) for _ in range(m)], "q": [rng.randint(1, 2) for _ in range(m)],
            "sleep": rng.chance(0.5), "ops": []}
    n_ops = rng.randint(2, 4 if backend == "thread" else 3)
    prev = None
    x = [rat(Fraction(rng.randint(-8, 8), 4)) for _ in range(d)]
    for k in range(n_ops):
        if rng.chance(0.4):
            x = [rat(Fraction(rng.randint(-8, 8), 4)) for _ in range(d)]
        kind = "grad"
        if method != "complex" and (first == "optstep" and k == 0 or (first is None or k > 0) and rng.chance(0.4)):
            kind = "optstep"
        kw = _gen_kw(rng, prev) if rng.chance(0.85) else dict(prev or {})
        if first == "optstep" and k == 0 and not kw:
            kw = {"scale": "4", "shift": "16"}
        op = {"op": kind, "x": list(x), "kw": kw}
        if kind == "grad":
            op["indices"] = sorted(rng.sample(range(d), rng.randint(1, d - 1))) if d > 1 and rng.chance(0.3) else []
            op["step_pow"] = rng.randint(2, 5) if rng.chance(0.2) else None
        case["ops"].append(op)
        prev = kw
    return case


def shrink_fdhist(case, key: str):
    def fails(c) -> bool:
        obs = run_fdhist_case(c)
        return any(k == key for k, _, _ in fdhist_oracle(c, obs))

    cur = case
    t_end = time.time() + 30
    changed = True
    while changed and time.time() < t_end:
        changed = False
        cands = []
        for i in range(len(cur["ops"])):
            if len(cur["ops"]) > 1:
                cands.append(dict(cur, ops=cur["ops"][:i] + cur["ops"][i + 1:]))
        if cur["n_procs"] != 2:
            cands.append(dict(cur, n_procs=2))
        if cur.get("sleep"):
            cands.append(dict(cur, sleep=False))
        if len(cur["coef"]) > 1:
            cands.append(dict(cur, coef=cur["coef"][:1], c0=cur["c0"][:1], q=cur["q"][:1]))
        for i, op in enumerate(cur["ops"]):
            for name in list(op["kw"]):
                kw = {k: v for k, v in op["kw"].items() if k != name}
                cands.append(dict(cur, ops=cur["ops"][:i] + [dict(op, kw=kw)] + cur["ops"][i + 1:]))
            if op.get("indices") or op.get("step_pow") is not None:
                cands.append(dict(cur, ops=cur["ops"][:i] + [dict(op, indices=[], step_pow=None)] + cur["ops"][i + 1:]))
        for c in cands:
            if time.time() > t_end:
                break
            try:
                if fails(c):
                    cur, changed = c, True
                    break
            except Exception:  # noqa: BLE001, S112
                continue
    return cur


def check_fdhist_cases(res, cases: list[dict[str, Any]], deadline: float) -> None:
    shrunk: set[str] = set()
    pending: list[tuple[dict, dict, list, bool]] = []
    for n_done, case in enumerate(cases):
        if time.time() > deadline:
            res.notes.append(f"fdhist: stopped at the time limit after {n_done} of {len(cases)} cases")
            break
        obs = run_fdhist_case(case)
        if obs.get("timeout"):
            res.count("fdhist:skipped-timeout")
            res.extra.setdefault("unresolved_timeouts", []).append(f"fdhist: {obs['timeout']} [{describe_fdhist(case)}]"[:300])
            continue
        res.evaluations += 1
        res.nontrivial(("fdhist", json.dumps(case, sort_keys=True)))
        res.count(f"fdhist-{case['method']}:{case['backend']}")
        res.count(f"fdhist:calls-per-approximator={len(case['ops'])}")
        prev = None
        for k, (op, seq) in enumerate(zip(case["ops"], obs["sequential"])):
            res.count(f"fdhist-op:{op['op']}{'+kwargs' if op['kw'] else ''}")
            if k > 0 and op["kw"] != prev:
                res.count(f"fdhist-op:{op['op']}-with-kwargs-other-than-previous-call")
            if k == 0 and op["op"] == "optstep" and op["kw"]:
                res.count("fdhist-op:optstep-with-kwargs-on-fresh-approximator")
            if op["op"] == "grad" and (op.get("indices") or op.get("step_pow") is not None):
                res.count("fdhist-op:grad-with-x_indices-or-step")
            if seq[0] != "returned":
                res.count(f"fdhist-probe:sequential-raises-{seq[1]}")
            prev = op["kw"]
        res.sample({"stream": "fdhist", "case": describe_fdhist(case), "parallel": [p[1] for p in obs["parallel"]]}, cap=20)
        bad = fdhist_oracle(case, obs)
        seen = set()
        for key, msg, _ in bad:
            full = f"fdhist-{case['method']}-{key}"
            if full in seen:
                continue
            seen.add(full)
            rp = case
            if full not in shrunk:
                shrunk.add(full)
                try:
                    rp = shrink_fdhist(case, key)
                except Exception:  # noqa: BLE001
                    rp = case
                if rp is not case:
                    o2 = run_fdhist_case(rp)
                    b2 = [(kk, mm) for kk, mm, _ in fdhist_oracle(rp, o2) if kk == key]
                    if b2:
                        msg = b2[0][1]
                    else:
                        rp = case
            res.violate("oracle", full, f"{msg} [{describe_fdhist(rp)}]"[:1100], {"kind": "fdhist", "case": rp})
        lines = fdhist_model_lines(case, obs)
        if lines:
            pending.append((case, obs, lines, bool(bad)))
    # correspondence: the same histories on the model (one driver call for all of them)
    answers = common.run_lean_driver(PID, [ln for _, _, lines, _ in pending for _, ln in lines]) if pending else []
    pos = 0
    for case, obs, lines, had_bad in pending:
        ans = answers[pos: pos + len(lines)]
        pos += len(lines)
        res.count("fdhist:model-compared-calls", len(lines) - 1)
        diff = fdhist_compare(case, obs, lines, ans)
        if diff is None:
            res.traces_validated += 1
            continue
        res.disagreements += 1
        if not had_bad:
            res.violate("correspondence", "fdhist-model-vs-impl", f"approximator model and implementation disagree: {diff} [{describe_fdhist(case)}]"[:1100],
                        {"kind": "fdhist", "case": case, "protocol_lines": [ln for _, ln in lines], "model_answers": ans, "difference": diff,
                         "correspondence": "Driver/C13.lean ainit/agrad/aopt (Model §7 parStep on fdCfg)"})


def replay_fdhist(case) -> int:
    obs = run_fdhist_case(case)
    print("case:", describe_fdhist(case))
    if obs.get("timeout"):
        print("no verdict (time-out):", obs["timeout"])
        return 0
    for k, (op, p, s) in enumerate(zip(case["ops"], obs["parallel"], obs["sequential"])):
        print(f"call {k + 1}: {describe_fd_op(op)}\n   parallel:   {p}\n   sequential: {s}")
    lines = fdhist_model_lines(case, obs)
    if lines:
        ans = common.run_lean_driver(PID, [ln for _, ln in lines])
        for (k, ln), a in zip(lines, ans):
            print(f"   model: {ln} -> {a}")
        print("model vs implementation:", fdhist_compare(case, obs, lines, ans) or "agree on every compared call")
    bad = fdhist_oracle(case, obs)
    for key, msg, _ in bad:
        print("ORACLE FAILS:", key, msg[:700])
    return 1 if bad else 0


# ============================================================================ chainmix
# case: {"kind": "chainmix", "backend": "thread"|"process", "n_procs": int|None, "deep": bool, "size": 1|2, "cache": bool,
#        "inputs": ["x","y",..], "points": [{"x": ["p/q"..], ..}],
#        "discs": [{"ins": [..], "outs": {"o": {"c": {"x": int,..}, "b": int}}, "style": "requested"|"full", "sleep_ms": int}],
#        "ops": [{"op": "exec", "at": k} | {"op": "lin", "at": k, "all": bool, "add_in": [..], "add_out": [..], "execute": bool}]}


def _mix_build(case, parallel: bool):
    from harness.c13_disc import MixAffine

    ds = []
    for i, d in enumerate(case["discs"]):
        outs = {o: ({k: float(v) for k, v in spec["c"].items()}, float(spec["b"])) for o, spec in d["outs"].items()}
        g = MixAffine(f"D{i}", d["ins"], outs, size=case["size"], style=d["style"], sleep=d.get("sleep_ms", 0) / 1000.0 if parallel else 0.0)
        if not case.get("cache", True):
            g.cache = None
        ds.append(g)
    return ds


def _dense(b):
    import numpy as np

    return (b.toarray() if hasattr(b, "toarray") else np.asarray(b)).tolist()


def _mix_history(case, chain, ds=None):
    import numpy as np

    steps = []
    for op in case["ops"]:
        pt = case["points"][op["at"]]
        data = {k: np.array([float(Fraction(t)) for t in v]) for k, v in pt.items()}
        try:
            if op["op"] == "exec":
                chain.execute(data)
                jac = None
            else:
                if op.get("add_in"):
                    chain.add_differentiated_inputs(list(op["add_in"]))
                if op.get("add_out"):
                    chain.add_differentiated_outputs(list(op["add_out"]))
                j = chain.linearize(data, compute_all_jacobians=bool(op.get("all")), execute=bool(op.get("execute", True)))
                jac = {o: {i: _dense(b) for i, b in row.items()} for o, row in j.items()}
                same = {o: {i: _dense(b) for i, b in row.items()} for o, row in chain.jac.items()}
                if same != jac:
                    jac = {"returned": jac, "chain.jac": same}
            steps.append({"status": "returned", "jac": jac, "data": {k: np.asarray(v).tolist() for k, v in chain.io.data.items()}})
            if ds is not None:
                # what the chain assembles from: the data and the Jacobian every discipline holds after the call
                steps[-1]["discs"] = [{"data": {k: np.asarray(v).tolist() for k, v in d.io.data.items()},
                                       "jac": None if jac is None else {o: {i: _dense(b) for i, b in row.items()} for o, row in (d.jac or {}).items()}}
                                      for d in ds]
        except Exception as e:  # noqa: BLE001
            steps.append({"status": "raised", "error": f"{common.exc_class(e)}: {str(e)[:200]}"})
    return steps


def run_chainmix_case(case) -> dict[str, Any]:
    from gemseo.core.chains.chain import MDOChain
    from gemseo.core.chains.parallel_chain import MDOParallelChain

    def par():
        ds = _mix_build(case, True)
        chain = MDOParallelChain(ds, use_threading=case["backend"] == "thread", n_processes=case["n_procs"],
                                 use_deep_copy=bool(case["deep"]))
        return _mix_history(case, chain, ds)

    out: dict[str, Any] = {"timeout": None}
    kind, val = guarded(par)
    if kind == "timeout":
        out["timeout"] = "the history on the parallel chain did not come back"
        return out
    if kind == "error":
        out["parallel"] = [{"status": "raised", "error": f"{common.exc_class(val)}: {val}"}] * len(case["ops"])
    else:
        out["parallel"] = val
    try:
        out["sequential"] = _mix_history(case, MDOChain(_mix_build(case, False)))
    except Exception as e:  # noqa: BLE001
        out["sequential"] = [{"status": "raised", "error": f"{common.exc_class(e)}: {e}"}] * len(case["ops"])
    return out


def mix_outputs(case) -> dict[str, int]:
    """output name -> index of its LAST producer"""
    last = {}
    for i, d in enumerate(case["discs"]):
        for o in d["outs"]:
            last[o] = i
    return last


def mix_value(case, o: str, pt) -> list[Fraction]:
    d = case["discs"][mix_outputs(case)[o]]
    spec = d["outs"][o]
    return [Fraction(spec["b"]) + sum(Fraction(spec["c"].get(i, 0)) * Fraction(pt[i][e]) for i in d["ins"]) for e in range(case["size"])]


def mix_block(case, o: str, i: str) -> list[list[Fraction]]:
    d = case["discs"][mix_outputs(case)[o]]
    c = Fraction(d["outs"][o]["c"].get(i, 0)) if i in d["ins"] else Fraction(0)
    n = case["size"]
    return [[c if r == k else Fraction(0) for k in range(n)] for r in range(n)]


def _exact_eq(val, want) -> bool:
    """Positive assertion: nested lists of finite floats equal to the nested Fractions."""
    if isinstance(want, list):
        return isinstance(val, list) and len(val) == len(want) and all(_exact_eq(a, b) for a, b in zip(val, want))
    return common.is_finite_num(val) and common.F(float(val)) == want


def mix_requests(case):
    """For every op: (requested inputs, requested outputs) or None for an execution."""
    dins: list[str] = []
    douts: list[str] = []
    out = []
    all_out = list(mix_outputs(case))
    for op in case["ops"]:
        if op["op"] == "exec":
            out.append(None)
            continue
        dins += [i for i in op.get("add_in", []) if i not in dins]
        douts += [o for o in op.get("add_out", []) if o not in douts]
        out.append((list(case["inputs"]), all_out) if op.get("all") else (list(dins), list(douts)))
    return out


def chainmix_judge(case, steps) -> list[tuple[str, str, int]]:
    bad = []
    reqs = mix_requests(case)
    outs = mix_outputs(case)
    for k, (op, st, rq) in enumerate(zip(case["ops"], steps, reqs)):
        what = f"call {k + 1} {describe_mix_op(case, op)}"
        if st["status"] != "returned":
            bad.append((f"{op['op']}-raises", f"{what}: raised {st['error']}", k))
            continue
        pt = case["points"][op["at"]]
        wrong = {o: (st["data"].get(o), [str(v) for v in mix_value(case, o, pt)]) for o in outs
                 if not _exact_eq(st["data"].get(o), mix_value(case, o, pt))}
        wrong.update({i: (st["data"].get(i), pt[i]) for i in case["inputs"] if not _exact_eq(st["data"].get(i), [Fraction(t) for t in pt[i]])})
        if wrong:
            bad.append((f"{op['op']}-chain-data", f"{what}: chain data (observed, expected = value of the LAST discipline computing the "
                        f"output at this point) {wrong}", k))
        if rq is None:
            continue
        jac = st["jac"]
        if isinstance(jac, dict) and set(jac) == {"returned", "chain.jac"}:
            bad.append(("lin-returned-is-not-chain-jac", f"{what}: linearize returned {jac['returned']} but chain.jac is {jac['chain.jac']}", k))
            jac = jac["returned"]
        wrongj = {}
        for o in rq[1]:
            for i in rq[0]:
                blk = (jac.get(o) or {}).get(i)
                want = mix_block(case, o, i)
                if blk is None or not _exact_eq(blk, want):
                    wrongj[f"d{o}/d{i}"] = (blk, [[str(v) for v in r] for r in want], f"last producer of {o}: D{outs[o]}")
        if wrongj:
            bad.append(("lin-jacobian", f"{what}: Jacobian blocks (observed, expected = block of the LAST discipline computing the output, "
                        f"zero when it does not depend on the input) {wrongj}", k))
    return bad


def chainmix_oracle(case, obs) -> list[tuple[str, str, int]]:
    if obs.get("timeout"):
        return []
    return chainmix_judge(case, obs["parallel"])


def _scalar_block(blk, n: int):
    """c when the block is c * I (exactly), else None."""
    if not (isinstance(blk, list) and len(blk) == n and all(isinstance(r, list) and len(r) == n for r in blk)):
        return None
    c = blk[0][0]
    if not common.is_finite_num(c):
        return None
    if all(common.is_finite_num(blk[r][k]) and blk[r][k] == (c if r == k else 0.0) for r in range(n) for k in range(n)):
        return common.F(float(c))
    return None


def chainmix_model_lines(case, obs) -> list[tuple[int, str]]:
    """One `cmerge` line per call (Model §8): the chain data and the requested Jacobian blocks assembled by the model
    from what every discipline holds after the call (public `discipline.io.data`, `discipline.jac`)."""
    if obs.get("timeout"):
        return []
    outs = sorted(mix_outputs(case))
    oi = {o: k for k, o in enumerate(outs)}
    ii = {i: k for k, i in enumerate(case["inputs"])}
    lines = []
    for k, (op, st, rq) in enumerate(zip(case["ops"], obs["parallel"], mix_requests(case))):
        if st["status"] != "returned" or "discs" not in st:
            continue
        ds = []
        ok = True
        for d, seen in zip(case["discs"], st["discs"]):
            names = list(d["outs"])
            vals = []
            for o in names:
                v = seen["data"].get(o)
                if not (isinstance(v, list) and v and common.is_finite_num(v[0])):
                    ok = False
                    break
                vals.append(str(common.F(float(v[0]))))
            if not ok:
                break
            if seen["jac"] is None or not seen["jac"]:
                slot = "-"
            else:
                ents = []
                for o, row in seen["jac"].items():
                    if o not in oi:
                        continue
                    blocks = []
                    for i, blk in row.items():
                        c = _scalar_block(blk, case["size"])
                        if i not in ii or c is None:
                            ok = False
                            break
                        blocks.append(f"{ii[i]}={c}")
                    ents.append(f"{oi[o]}>{','.join(blocks) or '-'}")
                slot = "/".join(ents) or "-"
            ds.append(f"{','.join(str(oi[o]) for o in names)}@{','.join(vals)}@{slot}")
        if not ok:
            continue
        ro = ",".join(str(oi[o]) for o in rq[1]) if rq else "[]"
        ri = ",".join(str(ii[i]) for i in rq[0]) if rq else "[]"
        lines.append((k, f"cmerge {','.join(str(oi[o]) for o in outs)} {ro or '[]'} {ri or '[]'} {';'.join(ds)}"))
    return lines


def chainmix_compare(case, obs, lines, answers) -> str | None:
    outs = sorted(mix_outputs(case))
    for (k, line), ans in zip(lines, answers):
        st = obs["parallel"][k]
        parts = dict(t.split("=", 1) for t in ans.split(" ") if "=" in t)
        if "data" not in parts or "blocks" not in parts:
            return f"call {k + 1}: `{line}` -> {ans}"
        for ent in parts["data"].split(";"):
            o, v = ent.split(":")
            got = st["data"].get(outs[int(o)])
            if v == "_" or not (isinstance(got, list) and got and common.is_finite_num(got[0]) and common.F(float(got[0])) == Fraction(v)):
                return f"call {k + 1}: chain data {outs[int(o)]} = {got}, the model assembles {v} from the disciplines' data (`{line}`)"
        if parts["blocks"] == "[]":
            continue
        jac = st["jac"]["returned"] if isinstance(st["jac"], dict) and set(st["jac"]) == {"returned", "chain.jac"} else st["jac"]
        for ent in parts["blocks"].split(";"):
            pair, v = ent.split(":")
            o, i = pair.split("/")
            o, i = outs[int(o)], case["inputs"][int(i)]
            got = (jac.get(o) or {}).get(i)
            c = _scalar_block(got, case["size"]) if got is not None else None
            if c is None or c != Fraction(v):
                return (f"call {k + 1}: chain Jacobian block d{o}/d{i} = {got}, the model assembles {v} * I from the Jacobians the "
                        f"disciplines returned (`{line}`)")
    return None


def describe_mix_op(case, op) -> str:
    pt = case["points"][op["at"]]
    at = ",".join(f"{k}={v}" for k, v in pt.items())
    if op["op"] == "exec":
        return f"execute({at})"
    add = (f"add_differentiated_inputs({op['add_in']}) " if op.get("add_in") else "") + (f"add_differentiated_outputs({op['add_out']}) " if op.get("add_out") else "")
    return f"{add}linearize({at}, compute_all_jacobians={bool(op.get('all'))}, execute={bool(op.get('execute', True))})"


def describe_chainmix(case) -> str:
    ds = "; ".join(f"D{i}[{d['style']}]: " + ", ".join(
        f"{o}={spec['b']}" + "".join(f"{int(c):+d}*{i_}" for i_, c in spec["c"].items()) for o, spec in d["outs"].items()) for i, d in enumerate(case["discs"]))
    return (f"MDOParallelChain({ds}) {case['backend']} n_processes={case['n_procs']} use_deep_copy={case['deep']} size={case['size']} "
            f"cache={case.get('cache', True)}: " + "; ".join(describe_mix_op(case, op) for op in case["ops"]))


def gen_chainmix_case(rng: common.Rng, backend: str | None = None, shape: str | None = None) -> dict[str, Any]:
    """`shape="override"`: the LAST producer of a shared output does not depend on an input the earlier one depends on,
    and that input is requested (alone or with others) without compute_all_jacobians."""
    backend = backend or rng.pick(["thread", "thread", "process"])
    n = rng.randint(2, 4)
    size = rng.pick([1, 1, 2])
    in_names = ["x", "y", "z", "w"][: rng.randint(2, 4)]
    out_pool = ["o", "p", "r"]
    discs = []
    for i in range(n):
        ins = sorted(rng.sample(in_names, rng.randint(1, min(2, len(in_names)))))
        n_out = rng.randint(1, 2)
        names = sorted(rng.sample(out_pool, n_out))
        outs = {}
        for o in names:
            outs[o] = {"c": {i_: rng.pick([1, 2, 3, -2, 4, 5, -3]) + 8 * i for i_ in ins}, "b": rng.randint(-3, 3) + 16 * i}
        discs.append({"ins": ins, "outs": outs, "style": rng.pick(["requested", "requested", "full"]), "sleep_ms": 0})
    if shape == "override" or rng.chance(0.5):
        # D_a computes `o` from x (and p); a later D_b computes `o` from an input other than x
        a, b = sorted(rng.sample(range(n), 2))
        x, y = rng.sample(in_names, 2)
        discs[a]["ins"] = sorted(set(discs[a]["ins"]) | {x})
        discs[a]["outs"].setdefault("o", {"c": {}, "b": 1 + 16 * a})
        discs[a]["outs"]["o"]["c"] = {i_: discs[a]["outs"]["o"]["c"].get(i_, 3 + 8 * a) for i_ in discs[a]["ins"]}
        for o, spec in discs[a]["outs"].items():
            spec["c"] = {i_: spec["c"].get(i_, 2 + 8 * a) for i_ in discs[a]["ins"]}
        discs[b]["ins"] = sorted(set(discs[b]["ins"]) - {x}) or [y]
        for o, spec in discs[b]["outs"].items():
            spec["c"] = {i_: spec["c"].get(i_, 5 + 8 * b) for i_ in discs[b]["ins"]}
        discs[b]["outs"].setdefault("o", {"c": {i_: 7 + 8 * b for i_ in discs[b]["ins"]}, "b": 2 + 16 * b})
        for later in discs[b + 1:]:
            later["outs"].pop("o", None)
            if not later["outs"]:
                later["outs"]["r"] = {"c": {i_: 1 for i_ in later["ins"]}, "b": 0}
    # completion-order bias: earlier disciplines last longer
    if rng.chance(0.6):
        for i, d in enumerate(discs):
            d["sleep_ms"] = 4 * (n - 1 - i)
    used_in = sorted({i for d in discs for i in d["ins"]})
    case = {"kind": "chainmix", "backend": backend, "n_procs": rng.pick([None, 1, 2, n]), "deep": rng.chance(0.4), "size": size,
            "cache": rng.chance(0.7), "inputs": used_in, "discs": discs, "points": [], "ops": []}
    for _ in range(2):
        case["points"].append({i: [rat(Fraction(rng.randint(-8, 8), 2)) for _ in range(size)] for i in used_in})
    all_out = list(mix_outputs(case))
    n_ops = rng.randint(1, 3)
    at = 0
    have_req = False
    executed_at = None
    for k in range(n_ops):
        if k > 0 and rng.chance(0.5):
            at = 1 - at
        r = rng.randint(0, 9)
        if r == 0 and n_ops > 1:
            case["ops"].append({"op": "exec", "at": at})
            executed_at = at
            continue
        op = {"op": "lin", "at": at, "all": False, "add_in": [], "add_out": [], "execute": True}
        if r in (1, 2) and shape != "override":
            op["all"] = True
        else:
            if not have_req or rng.chance(0.5):
                op["add_in"] = sorted(rng.sample(used_in, rng.randint(1, max(1, len(used_in) - 1))))
                op["add_out"] = sorted(rng.sample(all_out, rng.randint(1, len(all_out))))
                if shape == "override" and not have_req:
                    op["add_in"] = sorted(set(op["add_in"][:1]) | {x})
                    op["add_out"] = sorted(set(op["add_out"]) | {"o"})
                have_req = True
        if executed_at == at and rng.chance(0.5):
            op["execute"] = False
        executed_at = at
        case["ops"].append(op)
    return case


def mix_features(case) -> list[str]:
    f = []
    prod: dict[str, list[int]] = {}
    for i, d in enumerate(case["discs"]):
        for o in d["outs"]:
            prod.setdefault(o, []).append(i)
    shared = {o: p for o, p in prod.items() if len(p) > 1}
    f.append("output-computed-by-several-disciplines" if shared else "all-outputs-have-one-producer")
    reqs = mix_requests(case)
    hit = False
    for rq, op in zip(reqs, case["ops"]):
        if rq is None or op.get("all"):
            continue
        for o, p in shared.items():
            if o not in rq[1]:
                continue
            last = case["discs"][p[-1]]
            if any(i in case["discs"][e]["ins"] and i not in last["ins"] for e in p[:-1] for i in rq[0]) and not any(i in last["ins"] for i in rq[0]):
                hit = True
    if hit:
        f.append("requested-input-only-an-EARLIER-producer-depends-on(last-producer-has-no-block)")
    return f


def shrink_chainmix(case, key: str):
    def fails(c) -> bool:
        return any(k == key for k, _, _ in chainmix_oracle(c, run_chainmix_case(c)))

    cur = case
    t_end = time.time() + 30
    changed = True
    while changed and time.time() < t_end:
        changed = False
        cands = []
        for i in range(len(cur["ops"])):
            if len(cur["ops"]) > 1:
                cands.append(dict(cur, ops=cur["ops"][:i] + cur["ops"][i + 1:]))
        if cur["backend"] != "thread":
            cands.append(dict(cur, backend="thread"))
        if cur["size"] != 1:
            cands.append(dict(cur, size=1, points=[{k: v[:1] for k, v in p.items()} for p in cur["points"]]))
        if cur["deep"]:
            cands.append(dict(cur, deep=False))
        if not cur.get("cache", True):
            cands.append(dict(cur, cache=True))
        if any(d.get("sleep_ms") for d in cur["discs"]):
            cands.append(dict(cur, discs=[dict(d, sleep_ms=0) for d in cur["discs"]]))
        if len(cur["discs"]) > 2:
            for i in range(len(cur["discs"])):
                ds = cur["discs"][:i] + cur["discs"][i + 1:]
                used = sorted({i_ for d in ds for i_ in d["ins"]})
                outs = {o for d in ds for o in d["outs"]}
                ops = [dict(op, add_in=[a for a in op.get("add_in", []) if a in used], add_out=[a for a in op.get("add_out", []) if a in outs])
                       if op["op"] == "lin" else op for op in cur["ops"]]
                n_p = cur["n_procs"] if cur["n_procs"] is None else min(cur["n_procs"], len(ds))
                cands.append(dict(cur, discs=ds, inputs=used, points=[{k: v for k, v in p.items() if k in used} for p in cur["points"]], ops=ops, n_procs=n_p))
        for i, d in enumerate(cur["discs"]):
            for o in d["outs"]:
                if len(d["outs"]) > 1:
                    nd = dict(d, outs={k: v for k, v in d["outs"].items() if k != o})
                    outs = {oo for j, dd in enumerate(cur["discs"]) for oo in (nd if j == i else dd)["outs"]}
                    ops = [dict(op, add_out=[a for a in op.get("add_out", []) if a in outs]) if op["op"] == "lin" else op for op in cur["ops"]]
                    cands.append(dict(cur, discs=cur["discs"][:i] + [nd] + cur["discs"][i + 1:], ops=ops))
        for i, op in enumerate(cur["ops"]):
            if op["op"] == "lin":
                for name in ("add_in", "add_out"):
                    for a in op.get(name, []):
                        if len(op[name]) > 1:
                            cands.append(dict(cur, ops=cur["ops"][:i] + [dict(op, **{name: [b for b in op[name] if b != a]})] + cur["ops"][i + 1:]))
        for c in cands:
            if time.time() > t_end:
                break
            try:
                if mix_wellformed(c) and fails(c):
                    cur, changed = c, True
                    break
            except Exception:  # noqa: BLE001, S112
                continue
    return cur


def mix_wellformed(case) -> bool:
    """Inside the quantifier: every linearization has something to differentiate, `execute=False` follows an
    execution at the same point, no discipline reads an output of the chain."""
    outs = set(mix_outputs(case))
    if not case["discs"] or any(not d["ins"] or not d["outs"] or set(d["ins"]) & outs for d in case["discs"]):
        return False
    if sorted({i for d in case["discs"] for i in d["ins"]}) != sorted(case["inputs"]):
        return False
    last_at = None
    for op, rq in zip(case["ops"], mix_requests(case)):
        if op["op"] == "lin":
            if not rq[0] or not rq[1]:
                return False
            if not op.get("execute", True) and last_at != op["at"]:
                return False
        last_at = op["at"]
    return True


def check_chainmix_cases(res, cases: list[dict[str, Any]], deadline: float) -> None:
    shrunk: set[str] = set()
    pending: list[tuple[dict, dict, list, bool]] = []
    for n_done, case in enumerate(cases):
        if time.time() > deadline:
            res.notes.append(f"chainmix: stopped at the time limit after {n_done} of {len(cases)} cases")
            break
        if not mix_wellformed(case):
            res.count("chainmix:generated-outside-quantifier-dropped")
            continue
        obs = run_chainmix_case(case)
        if obs.get("timeout"):
            res.count("chainmix:skipped-timeout")
            res.extra.setdefault("unresolved_timeouts", []).append(f"chainmix: {obs['timeout']} [{describe_chainmix(case)}]"[:300])
            continue
        res.evaluations += 1
        res.nontrivial(("chainmix", json.dumps(case, sort_keys=True)))
        res.count(f"chainmix:{case['backend']}:n_processes={'default' if case['n_procs'] is None else min(case['n_procs'], 3)}")
        res.count(f"chainmix:calls-per-chain={len(case['ops'])}")
        for f in mix_features(case):
            res.count(f"chainmix:{f}")
        for op in case["ops"]:
            res.count("chainmix-op:" + ("execute" if op["op"] == "exec" else "linearize-all" if op.get("all") else
                                        "linearize-requested-subset" + ("-execute=False" if not op.get("execute", True) else "")))
        seq_bad = chainmix_judge(case, obs["sequential"])
        res.count("chainmix:sequential-MDOChain-" + ("deviates-from-closed-form(info, C09)" if seq_bad else "agrees-with-closed-form"))
        res.sample({"stream": "chainmix", "case": describe_chainmix(case), "parallel": [s.get("jac") for s in obs["parallel"]]}, cap=20)
        bad = chainmix_oracle(case, obs)
        seen = set()
        for key, msg, _ in bad:
            full = f"chainmix-{key}"
            if full in seen:
                continue
            seen.add(full)
            rp = case
            if full not in shrunk:
                shrunk.add(full)
                try:
                    rp = shrink_chainmix(case, key)
                except Exception:  # noqa: BLE001
                    rp = case
                if rp is not case:
                    b2 = [(kk, mm) for kk, mm, _ in chainmix_oracle(rp, run_chainmix_case(rp)) if kk == key]
                    if b2:
                        msg = b2[0][1]
                    else:
                        rp = case
            res.violate("oracle", full, f"{msg} [{describe_chainmix(rp)}]"[:1300], {"kind": "chainmix", "case": rp})
        lines = chainmix_model_lines(case, obs)
        if lines:
            pending.append((case, obs, lines, bool(bad)))
    answers = common.run_lean_driver(PID, [ln for _, _, lines, _ in pending for _, ln in lines]) if pending else []
    pos = 0
    for case, obs, lines, had_bad in pending:
        ans = answers[pos: pos + len(lines)]
        pos += len(lines)
        res.count("chainmix:model-compared-calls", len(lines))
        diff = chainmix_compare(case, obs, lines, ans)
        if diff is None:
            res.traces_validated += 1
            continue
        res.disagreements += 1
        if not had_bad:
            res.violate("correspondence", "chainmix-model-vs-impl", f"chain assembly model and implementation disagree: {diff} [{describe_chainmix(case)}]"[:1300],
                        {"kind": "chainmix", "case": case, "protocol_lines": [ln for _, ln in lines], "model_answers": ans, "difference": diff,
                         "correspondence": "Driver/C13.lean cmerge (Model §8 mergeData / mergeJac / chainBlock)"})


def replay_chainmix(case) -> int:
    obs = run_chainmix_case(case)
    print("case:", describe_chainmix(case))
    if obs.get("timeout"):
        print("no verdict (time-out):", obs["timeout"])
        return 0
    reqs = mix_requests(case)
    for k, (op, p, s, rq) in enumerate(zip(case["ops"], obs["parallel"], obs["sequential"], reqs)):
        print(f"call {k + 1}: {describe_mix_op(case, op)}")
        print(f"   parallel chain:   {p.get('jac') if p['status'] == 'returned' else p['error']} data={p.get('data')}")
        print(f"   sequential chain: {s.get('jac') if s['status'] == 'returned' else s['error']} data={s.get('data')}")
        if rq is not None:
            print("   closed form:      " + str({f"d{o}/d{i}": [[str(v) for v in r] for r in mix_block(case, o, i)] for o in rq[1] for i in rq[0]}))
    lines = chainmix_model_lines(case, obs)
    if lines:
        ans = common.run_lean_driver(PID, [ln for _, ln in lines])
        for (k, ln), a in zip(lines, ans):
            print(f"   model, call {k + 1}: {ln} -> {a}")
        print("model vs implementation:", chainmix_compare(case, obs, lines, ans) or "agree on every call")
    bad = chainmix_oracle(case, obs)
    for key, msg, _ in bad:
        print("ORACLE FAILS:", key, msg[:900])
    return 1 if bad else 0
