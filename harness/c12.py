"""C12 — a crashed run leaves a loadable prefix backup and restarts without rework.

Implementation side: real MDOScenario / DOEScenario runs in CHILD PROCESSES
(`/venv/bin/python harness/c12_child.py spec.json`) built from harness disciplines
(harness/c12_disc.py) whose k-th execution calls `os._exit(1)`.  For one configuration
(scenario x backup mode x initial file) the harness runs
  E  (optional) an earlier, shorter run that leaves a backup file,
  U  the uninterrupted run (traced: requests, discipline executions, store / new-iteration events),
  C_k the run killed inside its k-th discipline execution (every k in the thorough tier, ~6 in quick),
  R_k the restart of C_k in a new process with `load=True`.
Oracle (property text, computed from the traces with plain dicts — never from the model):
  the backup left by C_k loads (Database.from_hdf and OptimizationProblem.from_hdf) and equals the
  database the uninterrupted run had at its last backup notification before the k-th execution (in
  function-call mode: exactly the evaluations completed); R_k executes a discipline at a stored point
  at most once per output still missing there; keeps the loaded entries; reports an optimum at least
  as good as the best loaded one; and, for deterministic algorithms on an unnormalised space, ends
  with the history of U.
Model side: the traced request sequences are replayed in Driver/C12.lean (C12 model on top of the
C11 file model); the model must reproduce every outcome (served / computed / budget stop), every
new-iteration event, the database after every request, the file content at every crash point
(through the truncated event trace), the loaded database and counter of the restart, the final
database, the final file and the reported optimum.
"""

from __future__ import annotations

import atexit
import copy
import json
import os
import shutil
import subprocess
import sys
import tempfile
import time
from collections import OrderedDict
from concurrent.futures import ThreadPoolExecutor
from fractions import Fraction
from pathlib import Path
from typing import Any

from harness import common
from harness.common import F
from harness.common import Result

PID = "C12"
CHILD = str(common.VERIF / "harness" / "c12_child.py")
PY = "/venv/bin/python"
CHILD_TIMEOUT = 180
N_WORKERS = 14
TOL_INEQ = Fraction(1, 10000)
TOL_EQ = Fraction(1, 100)

TRUSTED_EXTRA = (
    "C12: the HDF5 file layer is the C11 model (imported); h5py/HDF5 store datasets faithfully and a file closed "
    "after an export survives os._exit (death during an HDF5 write and OS durability are outside the property)",
    "C12: the algorithms' internals (SciPy SLSQP, CustomDOE) are not modelled: the request sequences they issue are "
    "traced through the public ProblemFunction.evaluate / jac and replayed in the model",
    "C12: each-iteration mode read as 'the iterations notified' (DESIGN.md); the stricter reading is counted in the "
    "evidence (strict_reading_*), never reported as a violation",
)

_WORKDIRS: list[str] = []


def _cleanup():
    for d in _WORKDIRS:
        shutil.rmtree(d, ignore_errors=True)


atexit.register(_cleanup)


def workdir() -> Path:
    d = tempfile.mkdtemp(prefix="c12-")
    _WORKDIRS.append(d)
    return Path(d)


# --------------------------------------------------------------------------- scenarios


def _poly(rng, n, quad=True, scale=1):
    return {
        "c": float(rng.dyadic(-2, 2, 1)),
        "a": [float(rng.dyadic(-2, 2, 1)) * scale for _ in range(n)],
        "q": [float(rng.pick([0.5, 1.0, 2.0])) if quad else 0.0 for _ in range(n)],
    }


def make_scenario(rng: common.Rng, family: str, size: int) -> dict[str, Any]:
    """One in-scope scenario of a family. All coefficients and samples are dyadic (exact floats)."""
    two_vars = rng.chance(0.4)
    if two_vars:
        variables = [
            {"name": "x", "lb": [-4.0], "ub": [4.0], "x0": [float(rng.dyadic(-2, 2, 1))]},
            {"name": "z", "lb": [-4.0], "ub": [4.0], "x0": [float(rng.dyadic(-2, 2, 1))]},
        ]
        inputs = [["x", 1], ["z", 1]]
    else:
        variables = [{"name": "x", "lb": [-4.0, -4.0], "ub": [4.0, 4.0],
                      "x0": [float(rng.dyadic(-2, 2, 1)), float(rng.dyadic(-2, 2, 1))]}]
        inputs = [["x", 2]]
    sc: dict[str, Any] = {"family": family, "variables": variables, "objective": "f"}
    doe = family.startswith("doe")
    sc["kind"] = "doe" if doe else "mdo"
    sc["nocache"] = "nocache" in family
    mdf = "mdf" in family
    sc["formulation"] = "MDF" if mdf else "DisciplinaryOpt"
    with_obs = rng.chance(0.6) if doe else ("obs" in family)
    if mdf:
        # D0: y = affine(x); Df, Dg use (x, y)
        d0 = {"name": "D0", "inputs": inputs, "outputs": {"y": _poly(rng, 2, quad=False)}}
        ins2 = [*inputs, ["y", 1]]
        discs = [d0,
                 {"name": "Df", "inputs": ins2, "outputs": {"f": _poly(rng, 3)}},
                 {"name": "Dg", "inputs": ins2, "outputs": {"g": _poly(rng, 3, quad=False)}}]
    else:
        discs = [{"name": "Df", "inputs": inputs, "outputs": {"f": _poly(rng, 2)}},
                 {"name": "Dg", "inputs": inputs, "outputs": {"g": _poly(rng, 2, quad=False)}}]
    if with_obs:
        discs.append({"name": "Do", "inputs": inputs, "outputs": {"o": _poly(rng, 2, quad=False)}})
        sc["observables"] = ["o"]
    sc["disciplines"] = discs
    sc["constraints"] = [["g", "ineq"]]
    if doe:
        pts = []
        while len(pts) < size:
            p = [float(rng.dyadic(-3, 3, 2)), float(rng.dyadic(-3, 3, 2))]
            if p not in pts:
                pts.append(p)
        if size >= 3 and rng.chance(0.7):
            # a sample generated twice: its second occurrence is served from the database
            pts.insert(rng.randint(2, len(pts)), pts[rng.randint(0, 1)])
        sc["algo"] = {"algo_name": "CustomDOE", "samples": pts}
        sc["normalized"] = False
        sc["deterministic"] = True
        sc["budget"] = len(pts)
    else:
        normalized = "norm" in family and "unnorm" not in family
        sc["algo"] = {"algo_name": "SLSQP", "max_iter": size, "normalize_design_space": normalized}
        sc["normalized"] = normalized
        sc["deterministic"] = not normalized
        sc["budget"] = size
    return sc


def earlier_algo(sc: dict[str, Any], rng: common.Rng) -> dict[str, Any]:
    """A shorter run of the same scenario (leaves the pre-existing backup file)."""
    a = copy.deepcopy(sc["algo"])
    if "samples" in a:
        a["samples"] = a["samples"][: max(1, rng.randint(1, max(1, len(a["samples"]) // 2)))]
    else:
        a["max_iter"] = max(1, rng.randint(1, max(1, a["max_iter"] // 2)))
    return a


FAMILIES_QUICK = ["doe-chain", "doe-nocache", "mdo-unnorm", "mdo-norm", "doe-mdf", "mdo-unnorm-nocache"]
FAMILIES_THOROUGH = [*FAMILIES_QUICK, "mdo-unnorm-obs", "mdo-mdf-unnorm", "doe-mdf-nocache", "mdo-norm-nocache"]
# families whose `same history` clause is a known limitation are listed in notes/C12.md


def gen_configs(rng: common.Rng, thorough: bool) -> list[dict[str, Any]]:
    cfgs = []
    fams = FAMILIES_THOROUGH if thorough else FAMILIES_QUICK
    for fam in fams:
        doe = fam.startswith("doe")
        nocache = "nocache" in fam
        if doe:
            size = rng.randint(3, 4) if nocache else rng.randint(4, 6)
        else:
            size = rng.randint(3, 4) if nocache else rng.randint(4, 6)
        sc = make_scenario(rng, fam, size)
        modes = [(True, False), (False, True)]
        if thorough:
            modes.append((True, True))
            pres = ["absent", "earlier"]
            combos = [(m, p) for m in modes for p in pres]
        else:
            # quick: both modes, the initial-file dimension alternates
            p0 = rng.pick(["absent", "earlier"])
            combos = [(modes[0], p0), (modes[1], "earlier" if p0 == "absent" else "absent")]
        for (ec, ei), pre in combos:
            cfg = {"scenario": sc, "each_call": ec, "each_iter": ei, "pre": pre}
            if pre == "earlier":
                cfg["earlier_algo"] = earlier_algo(sc, rng)
            cfg["label"] = f"{fam}/{'call' if ec else ''}{'iter' if ei else ''}/{pre}"
            cfgs.append(cfg)
    return cfgs


# --------------------------------------------------------------------------- children


class Server:
    """One `c12_child.py --server` process: forks a fresh process per spec."""

    def __init__(self):
        self.p = subprocess.Popen([PY, CHILD, "--server"], cwd=str(common.VERIF), env=dict(os.environ),
                                  stdin=subprocess.PIPE, stdout=subprocess.PIPE, stderr=subprocess.DEVNULL, text=True)
        self.ready = False

    def wait_ready(self):
        if not self.ready:
            line = self.p.stdout.readline()
            if line.strip() != "ready":
                msg = f"c12 child server did not start: {line!r}"
                raise RuntimeError(msg)
            self.ready = True

    def run(self, spec_path: str) -> int:
        self.wait_ready()
        self.p.stdin.write(spec_path + "\n")
        self.p.stdin.flush()
        line = self.p.stdout.readline()
        if not line:
            msg = "c12 child server died"
            raise RuntimeError(msg)
        return int(line.strip())

    def close(self):
        try:
            self.p.stdin.close()
            self.p.wait(timeout=10)
        except Exception:  # noqa: BLE001
            self.p.kill()


class Servers:
    """A pool of servers; `with servers.get() as s:` borrows one."""

    def __init__(self, n: int):
        import queue

        self.all = [Server() for _ in range(n)]
        self.q = queue.Queue()
        for s in self.all:
            self.q.put(s)

    def run(self, spec_path: str) -> int:
        s = self.q.get()
        try:
            return s.run(spec_path)
        finally:
            self.q.put(s)

    def close(self):
        for s in self.all:
            s.close()


SERVERS: Servers | None = None


def run_child(spec: dict[str, Any], wd: Path, tag: str) -> dict[str, Any]:
    """Run one child process; returns its exit code, its event log and its result (None if it died)."""
    spec = dict(spec)
    spec["log"] = str(wd / f"{tag}.log")
    spec["out"] = str(wd / f"{tag}.out")
    sp = wd / f"{tag}.spec"
    sp.write_text(json.dumps(spec))
    t0 = time.time()
    err = ""
    if SERVERS is not None:
        rc = SERVERS.run(str(sp))
        ep = Path(str(sp) + ".err")
        if ep.exists():
            err = ep.read_text()[-1500:]
    else:
        try:
            p = subprocess.run([PY, CHILD, str(sp)], cwd=str(common.VERIF), env=dict(os.environ), capture_output=True,
                               text=True, timeout=CHILD_TIMEOUT)
            rc, err = p.returncode, p.stderr[-1500:]
        except subprocess.TimeoutExpired:
            rc, err = -9, "timeout"
    events = []
    lp = Path(spec["log"])
    if lp.exists():
        for ln in lp.read_text().splitlines():
            try:
                events.append(json.loads(ln))
            except ValueError:
                pass  # a line cut by the kill
    out = None
    op = Path(spec["out"])
    if op.exists():
        out = json.loads(op.read_text())
    return {"rc": rc, "stderr": err, "events": events, "out": out, "wall": time.time() - t0}


def base_spec(cfg, algo, path: Path, load: bool, crash_k=None, crash_in="run", trace=True, keep_counter=False):
    sc = dict(cfg["scenario"])
    sc["algo"] = algo
    spec = {
        "scenario": sc,
        "backup": {"path": str(path), "each_iter": cfg["each_iter"], "each_call": cfg["each_call"], "load": load},
        "crash_k": crash_k, "crash_in": crash_in, "trace": trace,
    }
    if keep_counter:
        spec["algo_extra"] = {"reset_iteration_counters": False}
    return spec


# --------------------------------------------------------------------------- canonical databases

Db = "OrderedDict[tuple, dict[str, tuple]]"


def canon(dump) -> OrderedDict:
    db = OrderedDict()
    for x, outs in dump:
        db[tuple(F(t) for t in x)] = {n: tuple(F(t) for t in v) for n, v in outs.items()}
    return db


def load_backup(path: Path):
    """Load a backup file with the public API, in the parent. Returns (db | None, problem_ok, error)."""
    if not path.exists():
        return OrderedDict(), True, "absent"
    from gemseo.algos.database import Database
    from gemseo.algos.optimization_problem import OptimizationProblem

    import numpy as np

    try:
        d = Database.from_hdf(str(path), log=False)
        db = OrderedDict()
        for x, outs in d.items():
            db[tuple(F(t) for t in x.unwrap())] = {n: tuple(F(t) for t in np.atleast_1d(v).real.ravel()) for n, v in outs.items()}
    except Exception as e:  # noqa: BLE001
        return None, False, f"Database.from_hdf: {type(e).__name__}: {str(e)[:200]}"
    try:
        pb = OptimizationProblem.from_hdf(str(path))
        n = len(pb.database)
        if n != len(db):
            return db, False, f"OptimizationProblem.from_hdf: {n} entries, Database.from_hdf: {len(db)}"
    except Exception as e:  # noqa: BLE001
        return db, False, f"OptimizationProblem.from_hdf: {type(e).__name__}: {str(e)[:200]}"
    return db, True, ""


def show_db(db) -> str:
    """The driver's canonical database string."""
    if not db:
        return "-"
    parts = []
    for x, outs in db.items():
        o = "&".join(f"{n}={common.rats(outs[n])}" for n in sorted(outs))
        parts.append(f"{common.rats(x)}{{{o}}}")
    return ";".join(parts)


def db_equal(a, b) -> str:
    """'' when equal (points in order, same names, same values), else a short description."""
    ka, kb = list(a), list(b)
    if ka != kb:
        if len(ka) != len(kb):
            return f"{len(ka)} entries instead of {len(kb)}"
        return "points differ or are in a different order"
    for x in ka:
        if set(a[x]) != set(b[x]):
            return f"at {[float(t) for t in x]}: outputs {sorted(a[x])} instead of {sorted(b[x])}"
        for n in a[x]:
            if a[x][n] != b[x][n]:
                return f"at {[float(t) for t in x]}: value of {n} differs"
    return ""


# --------------------------------------------------------------------------- traces


def design_names(sc) -> list[str]:
    return [v["name"] for v in sc["variables"]]


def call_point(sc, ev) -> tuple:
    return tuple(F(t) for n in design_names(sc) for t in ev["in"][n])


def split_requests(events) -> list[dict[str, Any]]:
    """Group a traced event log into requests: name, point, discipline executions, what it stored."""
    reqs = []
    cur = None
    for ev in events:
        k = ev["ev"]
        if k == "req":
            cur = {"name": ev["name"], "x": tuple(F(t) for t in ev["x"]), "calls": [], "stored": False, "newiter": False}
            reqs.append(cur)
        elif cur is None:
            continue
        elif k == "call":
            # a call belongs to the innermost request in progress = the last request issued
            cur["calls"].append(ev["k"])
        elif k == "store":
            # the store of the last request whose (name, point) matches and which has not stored yet
            x = tuple(F(t) for t in ev["x"])
            for r in reversed(reqs):
                if r["x"] == x and not r["stored"] and r["name"] in ev["names"]:
                    r["stored"] = True
                    r["n"] = ev["n"]
                    r["names"] = list(ev["names"])
                    break
        elif k == "newiter":
            x = tuple(F(t) for t in ev["x"])
            for r in reversed(reqs):
                if r["x"] == x and r["stored"]:
                    r["newiter"] = True
                    break
    return reqs


def replay_trace(events, pre_db, final_db, each_call: bool, each_iter: bool, stop_k: int | None):
    """Plain-dict replay of a traced run up to (excluding) the `stop_k`-th discipline execution.

    Returns (database of completed evaluations, database at the last backup notification).
    Values are those the uninterrupted run records (`final_db`)."""
    db = OrderedDict((x, dict(o)) for x, o in pre_db.items())
    snap = OrderedDict((x, dict(o)) for x, o in db.items())

    def cp():
        return OrderedDict((x, dict(o)) for x, o in db.items())

    for ev in events:
        k = ev["ev"]
        if k == "call" and stop_k is not None and ev["k"] == stop_k:
            break
        if k == "store":
            x = tuple(F(t) for t in ev["x"])
            ent = db.setdefault(x, {})
            for n in ev["names"]:
                if n not in ent:
                    ent[n] = final_db[x][n]
            if each_call:
                snap = cp()
        elif k == "newiter" and each_iter:
            snap = cp()
    return db, snap


# --------------------------------------------------------------------------- one configuration


def run_config(cfg: dict[str, Any], ks_spec, pool: ThreadPoolExecutor, wd: Path) -> dict[str, Any]:
    """Run E (optional), U, then C_k and R_k for the chosen crash points."""
    sc = cfg["scenario"]
    out: dict[str, Any] = {"cfg": cfg, "crashes": {}}
    base = None
    pre = cfg["pre"] == "earlier"
    if pre:
        base = wd / "E.h5"
        out["E"] = run_child(base_spec(cfg, cfg["earlier_algo"], base, load=False), wd, "E")
        if out["E"]["rc"] != 0 or out["E"]["out"] is None or out["E"]["out"]["error"]:
            out["machinery"] = f"earlier run failed: rc={out['E']['rc']} {out['E']['stderr'][-300:]} {out['E']['out'] and out['E']['out']['error']}"
            return out
    upath = wd / "U.h5"
    if pre:
        shutil.copy(base, upath)
    out["U"] = run_child(base_spec(cfg, sc["algo"], upath, load=pre, keep_counter=pre), wd, "U")
    U = out["U"]
    if U["rc"] != 0 or U["out"] is None:
        out["machinery"] = f"uninterrupted run failed: rc={U['rc']} {U['stderr'][-400:]}"
        return out
    out["U_file"] = upath
    n_calls = sum(1 for e in U["events"] if e["ev"] == "call")
    out["n_calls"] = n_calls
    ks = ks_spec(n_calls, U["events"])
    out["ks"] = ks

    def one(k):
        path = wd / f"k{k}.h5"
        if pre:
            shutil.copy(base, path)
        c = run_child(base_spec(cfg, sc["algo"], path, load=pre, crash_k=k, trace=False, keep_counter=pre), wd, f"C{k}")
        crash_copy = wd / f"k{k}.crash.h5"
        if path.exists():
            shutil.copy(path, crash_copy)
        r = run_child(base_spec(cfg, sc["algo"], path, load=True, keep_counter=True), wd, f"R{k}")
        return k, {"C": c, "R": r, "crash_file": crash_copy, "final_file": path}

    for k, d in pool.map(one, ks):
        out["crashes"][k] = d
    return out


def feasible_best(db, sc) -> Fraction | None:
    best = None
    for outs in db.values():
        if sc["objective"] not in outs:
            continue
        ok = True
        for name, ty in sc.get("constraints", []):
            if name not in outs:
                ok = False
                break
            if ty == "ineq":
                ok = ok and all(v <= TOL_INEQ for v in outs[name])
            else:
                ok = ok and all(abs(v) <= TOL_EQ for v in outs[name])
        if ok:
            f = outs[sc["objective"]][0]
            if best is None or f < best:
                best = f
    return best


def evaluate_config(res: Result, run: dict[str, Any]) -> list[dict[str, Any]]:
    """Oracle over one configuration. Returns the per-crash data needed by the model comparison."""
    cfg = run["cfg"]
    sc = cfg["scenario"]
    label = cfg["label"]
    items = []
    if "machinery" in run:
        res.notes.append(f"{label}: {run['machinery']}")
        res.count("machinery-skip")
        return items
    U = run["U"]
    u_final = canon(U["out"]["db"])
    u_pre = canon(U["out"]["pre"]["loaded"])
    ec, ei = cfg["each_call"], cfg["each_iter"]
    u_calls = [e for e in U["events"] if e["ev"] == "call"]
    if U["out"]["error"]:
        res.violate("oracle", "run-error", f"{label}: the uninterrupted run raised {U['out']['error']}",
                    {"config": cfg, "k": None})
        return items
    for k in run["ks"]:
        d = run["crashes"][k]
        C, R = d["C"], d["R"]
        res.evaluations += 1
        res.count(f"family:{sc['family']}")
        res.count(f"mode:{'call' if ec else ''}{'iter' if ei else ''}")
        res.count(f"pre:{cfg['pre']}")
        rp = {"config": cfg, "k": k}
        # the killed run must have died where asked, after the same executions as U (determinism)
        c_calls = [e for e in C["events"] if e["ev"] == "call"]
        if C["rc"] != 1 or len(c_calls) != k or any(
            (a["d"], a["in"]) != (b["d"], b["in"]) for a, b in zip(c_calls, u_calls)
        ):
            res.notes.append(f"{label} k={k}: killed run not a prefix of the uninterrupted one (rc={C['rc']}, {len(c_calls)} executions) {C['stderr'][-200:]}")
            res.count("machinery-skip")
            continue
        completed, expected = replay_trace(U["events"], u_pre, u_final, ec, ei, k)
        backup, pb_ok, err = load_backup(d["crash_file"])
        item = {"k": k, "backup": backup, "expected": expected, "completed": completed, "R": R, "d": d}
        if backup is None or not pb_ok:
            res.violate("oracle", "backup-not-loadable", f"{label} k={k}: the backup left by the killed run cannot be loaded: {err}", rp)
            continue
        items.append(item)
        diff = db_equal(backup, expected)
        if diff:
            what = "the evaluations completed before the crash" if ec else "the database at the last notified iteration"
            res.violate("oracle", "backup-not-snapshot",
                        f"{label} k={k}: the backup is not {what}: {diff}; backup={show_db(backup)[:300]} expected={show_db(expected)[:300]}", rp)
        strict = db_equal(backup, completed)
        res.count("strict_reading_equal" if not strict else "strict_reading_lags")
        if backup:
            res.nontrivial(json.dumps([label, k]))
        # ---- restart
        if R["rc"] != 0 or R["out"] is None or R["out"]["error"]:
            res.violate("oracle", "restart-error",
                        f"{label} k={k}: the restarted run failed: rc={R['rc']} {(R['out'] or {}).get('error')} {R['stderr'][-300:]}", rp)
            continue
        r_final = canon(R["out"]["db"])
        r_loaded = canon(R["out"]["pre"]["loaded"])
        item["r_final"] = r_final
        item["r_loaded"] = r_loaded
        # no rework: executions at a stored point are bounded by the outputs still missing there
        execs: dict[tuple, int] = {}
        for e in R["events"]:
            if e["ev"] == "call":
                key = (e["d"], call_point(sc, e))
                execs[key] = execs.get(key, 0) + 1
        for (dname, p), n in execs.items():
            if p in backup:
                missing = set(r_final.get(p, {})) - set(backup[p])
                if not n <= len(missing):
                    res.violate("oracle", "rework",
                                f"{label} k={k}: discipline {dname} executed {n} time(s) at the stored point {[float(t) for t in p]} "
                                f"although only {sorted(missing)} were missing there", rp)
        # loaded entries kept
        keys = list(r_final)
        kept = len(keys) >= len(backup)
        for i, (x, outs) in enumerate(backup.items()):
            if not kept:
                break
            kept = keys[i] == x and all(n in r_final[x] and r_final[x][n] == v for n, v in outs.items())
        if not kept:
            res.violate("oracle", "loaded-entries-not-kept",
                        f"{label} k={k}: the final database of the restarted run does not start with the loaded entries", rp)
        # optimum at least as good as the best loaded one
        best = feasible_best(backup, sc)
        result = R["out"]["result"]
        if best is not None:
            ok = result is not None and result["is_feasible"] is True and result["f_opt"] is not None and F(result["f_opt"]) <= best
            if not ok:
                res.violate("oracle", "optimum-worse",
                            f"{label} k={k}: best loaded feasible objective {float(best)}, restarted run reports {result}", rp)
            res.count("optimum-clause-checked")
        # same history as the uninterrupted run
        if sc["deterministic"]:
            diff = db_equal(r_final, u_final)
            if diff:
                res.violate("oracle", "replay-differs",
                            f"{label} k={k}: the restarted run does not end with the history of the uninterrupted run: {diff}", rp)
            res.count("replay-clause-checked")
    return items


# --------------------------------------------------------------------------- model comparison


def req_lines(events, final_db, quiet=False, stop_k=None):
    """Protocol lines of the requests of a traced run (those issued before the stop_k-th execution and
    completed), with what the implementation did."""
    reqs = split_requests(events)
    lines, obs = [], []
    for r in reqs:
        if stop_k is not None and any(c >= stop_k for c in r["calls"]):
            break
        if stop_k is not None and not r["calls"] and not r["stored"]:
            # a served request: keep only if it was issued before the crash
            pass
        val = final_db.get(r["x"], {}).get(r["name"], (Fraction(0),))
        lines.append(f"{'reqq' if quiet else 'req'} {r['name']} {common.rats(r['x'])} {common.rats(val)} {len(r['calls'])}")
        obs.append(r)
    return lines, obs


def events_before(events, stop_k):
    out = []
    for ev in events:
        if ev["ev"] == "call" and ev["k"] == stop_k:
            break
        out.append(ev)
    return out


def budget_of(cfg, algo) -> int:
    return len(algo["samples"]) if "samples" in algo else int(algo["max_iter"])


def opt_line(sc) -> str:
    cs = ",".join(f"{n}:{t}" for n, t in sc.get("constraints", [])) or "-"
    return f"opt {sc['objective']} {cs} {common.rat(TOL_EQ)} {common.rat(TOL_INEQ)}"


def parse_state(ans: str) -> dict[str, str]:
    d = {}
    for tok in ans.split(" "):
        if "=" in tok:
            k, v = tok.split("=", 1)
            d[k] = v
    return d


def model_session(cfg, run, item=None):
    """Build one driver session. `item=None`: the uninterrupted run with truncation queries;
    otherwise the crash at item['k'] followed by the restart. Returns (lines, checks) where
    checks[i] is None or a function answer -> '' | description of the disagreement."""
    sc = cfg["scenario"]
    lines: list[str] = []
    checks: list[Any] = []

    def add(line, chk=None):
        lines.append(line)
        checks.append(chk)

    add(f"new {int(cfg['each_call'])} {int(cfg['each_iter'])}")
    pre = cfg["pre"] == "earlier"
    if pre:
        E = run["E"]
        e_final = canon(E["out"]["db"])
        add(f"start {budget_of(cfg, cfg['earlier_algo'])} 1")
        ls, _ = req_lines(E["events"], e_final, quiet=True)
        for ln in ls:
            add(ln)
        add("finish")
        add("crashload")
    U = run["U"]
    u_final = canon(U["out"]["db"])
    budget = budget_of(cfg, sc["algo"])
    u_loaded = show_db(canon(U["out"]["pre"]["loaded"]))
    add(f"start {budget} {0 if pre else 1}",
        lambda a: "" if parse_state(a).get("db") == u_loaded and parse_state(a).get("cur") == str(U["out"]["pre"]["counter"])
        else f"loaded state: model {a[:200]}, implementation db={u_loaded[:200]} cur={U['out']['pre']['counter']}")

    def req_checks(events, final_db, pre_db, quiet, stop_k=None):
        ls, obs = req_lines(events, final_db, quiet=quiet, stop_k=stop_k)
        db = OrderedDict((x, dict(o)) for x, o in pre_db.items())
        for ln, r in zip(ls, obs):
            if r["stored"]:
                exp_out = "computed"
                ent = db.setdefault(r["x"], {})
                for n in r["names"]:
                    if n not in ent:
                        ent[n] = final_db[r["x"]][n]
            elif r["name"] in db.get(r["x"], {}):
                exp_out = "served"
            else:
                exp_out = "maxiter"
            exp_ni = 1 if r["newiter"] else 0
            exp_db = None if quiet or not r["stored"] else show_db(db)
            exp_n = len(db)

            def chk(a, exp_out=exp_out, exp_ni=exp_ni, exp_db=exp_db, exp_n=exp_n, ln=ln):
                head, _, st = a.partition(" | ")
                toks = head.split(" ")
                if toks[0] != exp_out:
                    return f"`{ln[:120]}`: model {toks[0]}, implementation {exp_out}"
                if toks[0] == "computed" and toks[1] != f"ni={exp_ni}":
                    return f"`{ln[:120]}`: new-iteration event: model {toks[1]}, implementation ni={exp_ni}"
                if exp_db is not None:
                    s = parse_state(st)
                    if s.get("db") != exp_db:
                        return f"`{ln[:120]}`: database after the request: model {s.get('db', '')[:300]}, implementation {exp_db[:300]}"
                    if s.get("ok") != "1":
                        return f"`{ln[:120]}`: the model's export raised"
                elif st.startswith("n=") and parse_state(st).get("n") != str(exp_n):
                    return f"`{ln[:120]}`: database length: model {st}, implementation {exp_n}"
                return ""

            add(ln, chk)
        return db

    if item is None:
        req_checks(U["events"], u_final, canon(U["out"]["pre"]["loaded"]), quiet=False)
        fin, _, _ = load_backup(run["U_file"])
        fin_s = show_db(fin) if fin is not None else "E"
        add("finish", lambda a: "" if parse_state(a).get("read") == fin_s and parse_state(a).get("db") == show_db(u_final)
            and parse_state(a).get("cur") == str(U["out"]["counter"])
            else f"end of the uninterrupted run: model {a[:400]}; implementation file={fin_s[:200]} db={show_db(u_final)[:200]} cur={U['out']['counter']}")
        for it in run["items"]:
            exp = show_db(it["backup"])
            add(f"trunc {it['k']}", lambda a, exp=exp, k=it["k"]: "" if a == "read=" + exp
                else f"backup file at crash point {k}: model {a[:300]}, implementation read={exp[:300]}")
        add_opt(add, sc, U["out"], u_final)
        return lines, checks
    k = item["k"]
    req_checks(U["events"], u_final, canon(U["out"]["pre"]["loaded"]), quiet=True, stop_k=k)
    R = item["R"]
    exp_loaded = show_db(item["r_loaded"])
    exp_cur = str(R["out"]["pre"]["counter"])
    add("crashload", lambda a: "" if parse_state(a).get("db") == exp_loaded and parse_state(a).get("cur") == exp_cur
        else f"restart at crash point {k}: model loads {a[:300]}, implementation db={exp_loaded[:300]} cur={exp_cur}")
    add(f"start {budget} 0")
    req_checks(R["events"], item["r_final"], item["r_loaded"], quiet=False)
    fin, _, _ = load_backup(item["d"]["final_file"])
    fin_s = show_db(fin) if fin is not None else "E"
    exp_db = show_db(item["r_final"])
    add("finish", lambda a: "" if parse_state(a).get("read") == fin_s and parse_state(a).get("db") == exp_db
        and parse_state(a).get("cur") == str(R["out"]["counter"])
        else f"end of the restarted run (crash point {k}): model {a[:400]}; implementation file={fin_s[:200]} db={exp_db[:200]} cur={R['out']['counter']}")
    add_opt(add, sc, R["out"], item["r_final"])
    return lines, checks


def add_opt(add, sc, out, final_db):
    result = out["result"]
    if result is None or result["x_opt"] is None or not final_db:
        return
    xo = tuple(F(t) for t in result["x_opt"])
    keys = list(final_db)
    idxs = [i for i, x in enumerate(keys) if x == xo]

    def chk(a):
        s = parse_state(a)
        if s.get("idx") in (None, "_"):
            return f"optimum: model {a}, implementation x_opt={result['x_opt']}"
        i = int(s["idx"])
        if i in idxs and (s.get("feas") == "1") == bool(result["is_feasible"]):
            return ""
        # ties broken by float rounding are accepted: same objective value
        obj = sc["objective"]
        if i < len(keys) and idxs and final_db[keys[i]].get(obj) == final_db[keys[idxs[0]]].get(obj) and (s.get("feas") == "1") == bool(result["is_feasible"]):
            return ""
        return f"optimum: model {a} (point {[float(t) for t in keys[i]] if i < len(keys) else '?'}), implementation x_opt={result['x_opt']} feasible={result['is_feasible']}"

    add(opt_line(sc), chk)


def compare_with_model(res: Result, runs: list[dict[str, Any]]):
    sessions = []
    for run in runs:
        if "machinery" in run or not run.get("items") and not run.get("U"):
            continue
        if run["U"]["out"] is None or run["U"]["out"]["error"]:
            continue
        cfg = run["cfg"]
        try:
            sessions.append((run, None, *model_session(cfg, run, None)))
            for it in run["items"]:
                if "r_final" in it:
                    sessions.append((run, it, *model_session(cfg, run, it)))
        except Exception as e:  # noqa: BLE001
            res.notes.append(f"{cfg['label']}: could not build the model session: {type(e).__name__}: {e}")
            res.count("machinery-skip")
    all_lines = [ln for s in sessions for ln in s[2]]
    if not all_lines:
        return
    answers = common.run_lean_driver(PID, all_lines)
    pos = 0
    for run, it, lines, checks in sessions:
        ok = True
        for j, (ln, chk) in enumerate(zip(lines, checks)):
            a = answers[pos + j]
            bad = "the driver rejected the line" if a == "bad-op" else (chk(a) if chk else "")
            if bad:
                ok = False
                res.disagreements += 1
                cfg = run["cfg"]
                k = None if it is None else it["k"]
                run.setdefault("model_disagreements", []).append((k, bad))
                res.violate(
                    "correspondence", "model-vs-impl",
                    f"{cfg['label']}{'' if k is None else f' k={k}'}: {bad}",
                    {"config": cfg, "k": k, "protocol_lines": [l[:400] for l in lines[: j + 1]][-40:], "model": a[:1500],
                     "expected": bad, "correspondence": "Driver/C12.lean"},
                )
                break
        pos += len(lines)
        if ok:
            res.traces_validated += 1


# --------------------------------------------------------------------------- crash-point choice


def ks_quick(rng: common.Rng, n: int = 6):
    def choose(n_calls, events):
        if n_calls <= n:
            return list(range(1, n_calls + 1))
        # first, last, and a spread biased to executions that follow a store (between two functions)
        after_store = []
        prev = None
        for e in events:
            if e["ev"] == "call" and prev == "store":
                after_store.append(e["k"])
            if e["ev"] in ("call", "store"):
                prev = e["ev"]
        ks = {1, n_calls}
        pool = [k for k in after_store if k not in ks]
        rng.shuffle(pool)
        ks.update(pool[: n - 3])
        rest = [k for k in range(1, n_calls + 1) if k not in ks]
        rng.shuffle(rest)
        ks.update(rest[: n - len(ks)])
        return sorted(ks)

    return choose


def ks_all(n_calls, events):  # noqa: ARG001
    return list(range(1, n_calls + 1))


# --------------------------------------------------------------------------- run / replay


def corpus_configs() -> list[dict[str, Any]]:
    d = common.CORPUS_DIR / PID
    out = []
    if d.is_dir():
        for p in sorted(d.glob("*.json")):
            data = json.loads(p.read_text())
            out.append((p.name, data["config"], data.get("ks")))
    return out


def process(res: Result, cfgs_ks, ctx=None) -> list[dict[str, Any]]:
    global SERVERS
    runs = []
    SERVERS = Servers(N_WORKERS)
    try:
        runs = _process(cfgs_ks)
    finally:
        SERVERS.close()
        SERVERS = None
    for run in runs:
        run["items"] = evaluate_config(res, run)
    compare_with_model(res, runs)
    return runs


def _process(cfgs_ks) -> list[dict[str, Any]]:
    runs = []
    with ThreadPoolExecutor(max_workers=6) as pool:
        # configurations are independent: run their E/U phases concurrently too
        def do(ck):
            cfg, ks_spec = ck
            return run_config(cfg, ks_spec, pool2, workdir())

        with ThreadPoolExecutor(max_workers=N_WORKERS) as pool2:
            for run in pool.map(do, cfgs_ks):
                runs.append(run)
    return runs


def run(ctx) -> Result:
    res = Result(PID)
    res.rule = (
        "one case = (scenario, backup mode, initial file, crash point k): the run is killed inside its k-th discipline "
        "execution in a child process, its backup is loaded and compared, it is restarted in a new process; "
        "non-trivial = the backup holds at least one entry; distinct by (configuration, k). Scenario families: DOE / SLSQP, "
        "DisciplinaryOpt / MDF chain, discipline caches on (complete entries) / off (crashes between two functions of one "
        "point), observables, repeated samples, normalised or not; modes each-call / each-iteration (/ both, thorough); "
        "file absent / left by an earlier shorter run and loaded"
    )
    res.assumptions = [
        "the process dies inside a discipline execution (os._exit in the discipline body), never during an HDF5 write",
        "restart = new process, same scenario, set_optimization_history_backup(load=True), reset_iteration_counters=False",
        "file present but neither erased nor loaded: outside the property (not generated)",
        "value equality is on flattened arrays (scalar / size-1 array kinds are C11's concern)",
    ]
    rng = ctx.rng
    cfgs_ks = []
    for name, cfg, ks in corpus_configs():
        res.count("corpus")
        cfgs_ks.append((cfg, (lambda n, ev, ks=ks: [k for k in ks if k <= n]) if ks else ks_all))
    for cfg in gen_configs(rng, ctx.thorough):
        cfgs_ks.append((cfg, ks_all if ctx.thorough else ks_quick(common.make_rng(ctx.seed, "ks" + cfg["label"]))))
    runs = process(res, cfgs_ks, ctx)
    res.sample({"configurations": [r["cfg"]["label"] + f" K={r.get('n_calls')} ks={r.get('ks')}" for r in runs][:40]})
    for r in runs[:2]:
        if r.get("items"):
            it = r["items"][0]
            res.sample({"config": r["cfg"]["label"], "k": it["k"], "backup": show_db(it["backup"])[:300]})
    res.extra["child_runs"] = sum((1 if "E" in r else 0) + (1 if "U" in r else 0) + 2 * len(r.get("crashes", {})) for r in runs)
    res.exhaustive = False
    return res


def replay(path: str) -> int:
    data = json.loads(Path(path).read_text())
    rp = data.get("replay", data)
    cfg = rp["config"]
    k = rp.get("k")
    res = Result(PID)
    ks = (lambda n, ev: [k] if k <= n else []) if k else ks_all
    runs = process(res, [(cfg, ks)])
    for r in runs:
        print("configuration:", cfg["label"], "executions:", r.get("n_calls"), "crash points:", r.get("ks"), r.get("machinery", ""))
        for it in r.get("items", []):
            print(f" k={it['k']} backup={show_db(it['backup'])[:400]}")
            print(f"      expected={show_db(it['expected'])[:400]}")
    bad = 0
    for v in res.violations:
        print(("ORACLE FAILS: " if v.kind == "oracle" else "MODEL/IMPLEMENTATION DISAGREE: ") + v.key, v.what[:800])
        if v.kind == "oracle":
            bad = 1
    for n in res.notes:
        print("note:", n)
    if not res.violations:
        print("property holds on this replay")
    return bad
