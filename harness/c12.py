"""C12 — a crashed run leaves a loadable prefix backup and restarts without rework.

Implementation side: real MDOScenario / DOEScenario runs in CHILD PROCESSES (harness/c12_child.py:
one fresh OS process per run, forked from a server that has only imported GEMSEO) built from
harness disciplines (harness/c12_disc.py) whose k-th execution calls `os._exit(1)`.  For one
configuration (scenario x backup mode x initial file x kind of crash point) the harness runs
  E    (optional) an earlier, shorter run that leaves a backup file (then loaded, or erased),
  U    the uninterrupted run (traced: requests, discipline executions, store / new-iteration events),
  C_k  the run killed inside its k-th discipline execution (every k in the thorough tier, ~8 in quick),
  R_k  the restart of C_k in a new process with `load=True` (traced),
  C_k,k2 / R_k,k2  (chains) the restart killed again inside its k2-th execution, and its restart.
Oracle (property text, computed from the traces with plain dicts — never from the model):
  the backup left by a killed run loads (Database.from_hdf and OptimizationProblem.from_hdf) and equals
  the database the uninterrupted run had at its last backup notification before the k-th execution
  (function-call mode: exactly the evaluations completed); the restart executes a discipline at a
  stored point at most once per output still missing there; keeps the loaded entries; reports an
  optimum at least as good as the best loaded one; and, for deterministic algorithms on an
  unnormalised space, ends with the history of the uninterrupted run.
Model side: the traced request sequences are replayed in Driver/C12.lean (C12 model on top of the
C11 file model); the model must reproduce every outcome (served / computed / budget stop), every
new-iteration event, the database after every request, the file content at every crash point
(through the truncated event trace), the loaded database and counter of every restart, the final
database, the final file and the reported optimum.
"""

from __future__ import annotations

import atexit
import copy
import json
import os
import queue
import shutil
import subprocess
import tempfile
import time
from collections import OrderedDict
from concurrent.futures import ThreadPoolExecutor
from fractions import Fraction
from pathlib import Path
from typing import Any

from harness import common
from harness.common import F
from harness.common import Result

PID = "C12"
CHILD = str(common.VERIF / "harness" / "c12_child.py")
PY = "/venv/bin/python"
CHILD_TIMEOUT = 180
N_WORKERS = 14
TOL_INEQ = Fraction(1, 10000)
TOL_EQ = Fraction(1, 100)

TRUSTED_EXTRA = (
    "C12: the HDF5 file layer is the C11 model (imported); h5py/HDF5 store datasets faithfully and a file closed "
    "after an export survives os._exit (death during an HDF5 write and OS durability are outside the property)",
    "C12: the algorithms' internals (SciPy SLSQP, CustomDOE) are not modelled: the request sequences they issue are "
    "traced through the public ProblemFunction.evaluate / jac and replayed in the model",
    "C12: each-iteration mode read as 'the iterations notified' (DESIGN.md); the stricter reading is counted in the "
    "evidence (strict_reading_*), never reported as a violation",
    "C12: child runs are forked from a server process that has imported GEMSEO and instantiated the algorithm / "
    "formulation factories only (no scenario, problem or discipline exists before the fork)",
)

_WORKDIRS: list[str] = []


def _cleanup():
    for d in _WORKDIRS:
        shutil.rmtree(d, ignore_errors=True)


atexit.register(_cleanup)


def workdir() -> Path:
    d = tempfile.mkdtemp(prefix="c12-")
    _WORKDIRS.append(d)
    return Path(d)


# --------------------------------------------------------------------------- scenarios


def _poly(rng, n, quad=True):
    return {
        "c": float(rng.dyadic(-2, 2, 1)),
        "a": [float(rng.dyadic(-2, 2, 1)) for _ in range(n)],
        "q": [float(rng.pick([0.5, 1.0, 2.0])) if quad else 0.0 for _ in range(n)],
    }


def make_scenario(rng: common.Rng, family: str, size: int) -> dict[str, Any]:
    """One in-scope scenario of a family. All coefficients and samples are dyadic (exact floats).

    Family name = tokens joined by '-': doe|mdo, mdf (MDF chain D0 -> Df, Dg), nocache (every function
    evaluation executes the disciplines: crash points between two functions of one point), obs (an
    observable), vec (vector-valued constraint), max (maximised objective), eq (an equality
    constraint too), norm / unnorm (SLSQP on the normalised / physical space)."""
    toks = family.split("-")
    two_vars = rng.chance(0.4)
    if two_vars:
        variables = [
            {"name": "x", "lb": [-4.0], "ub": [4.0], "x0": [float(rng.dyadic(-2, 2, 1))]},
            {"name": "z", "lb": [-4.0], "ub": [4.0], "x0": [float(rng.dyadic(-2, 2, 1))]},
        ]
        inputs = [["x", 1], ["z", 1]]
    else:
        variables = [{"name": "x", "lb": [-4.0, -4.0], "ub": [4.0, 4.0],
                      "x0": [float(rng.dyadic(-2, 2, 1)), float(rng.dyadic(-2, 2, 1))]}]
        inputs = [["x", 2]]
    sc: dict[str, Any] = {"family": family, "variables": variables, "objective": "f"}
    doe = toks[0] == "doe"
    sc["kind"] = "doe" if doe else "mdo"
    sc["nocache"] = "nocache" in toks
    mdf = "mdf" in toks
    sc["formulation"] = "MDF" if mdf else "DisciplinaryOpt"
    sc["maximize"] = "max" in toks
    sc["db_objective"] = "-f" if sc["maximize"] else "f"
    with_obs = "obs" in toks
    n_in = 3 if (mdf or "idf" in toks) and "coupled" not in toks else 2
    gpoly: Any = _poly(rng, n_in, quad=False)
    if "vec" in toks:
        gpoly = [gpoly, _poly(rng, n_in, quad=False)]
    fpoly = _poly(rng, n_in)
    if sc["maximize"]:
        fpoly["q"] = [-q for q in fpoly["q"]]
    if "idf" in toks:
        # IDF: y is a design variable too; each function executes its own discipline only, so two
        # functions of one point are separated by a discipline execution even with the caches on
        sc["formulation"] = "IDF"
        variables.append({"name": "y", "lb": [-64.0], "ub": [64.0], "x0": [float(rng.dyadic(-1, 1, 1))]})
        d0 = {"name": "D0", "inputs": inputs, "outputs": {"y": _poly(rng, 2, quad=False)}}
        ins2 = [*inputs, ["y", 1]]
        discs = [d0, {"name": "Df", "inputs": ins2, "outputs": {"f": fpoly}},
                 {"name": "Dg", "inputs": ins2, "outputs": {"g": gpoly}}]
        sc["implicit_constraints"] = [["y", "eq"]]
    elif "coupled" in toks:
        # strongly coupled pair under MDF: the MDA executes D1 and D2 several times per evaluation
        # (many crash points per request); recomputed values depend on the MDA's warm start, so the
        # `same history` clause is not claimed for this family
        b1, b2 = rng.pick([0.125, -0.125, 0.0625]), rng.pick([0.125, -0.25, 0.0625])
        p1, p2 = _poly(rng, 2, quad=False), _poly(rng, 2, quad=False)
        p1 = {"c": p1["c"], "a": [*p1["a"], b1], "q": [0.0, 0.0, 0.0]}
        p2 = {"c": p2["c"], "a": [*p2["a"], b2], "q": [0.0, 0.0, 0.0]}
        ins3 = [*inputs, ["y1", 1], ["y2", 1]]
        fp, gp = _poly(rng, 4), _poly(rng, 4, quad=False)
        discs = [{"name": "D1", "inputs": [*inputs, ["y2", 1]], "outputs": {"y1": p1}},
                 {"name": "D2", "inputs": [*inputs, ["y1", 1]], "outputs": {"y2": p2}},
                 {"name": "Df", "inputs": ins3, "outputs": {"f": fp}},
                 {"name": "Dg", "inputs": ins3, "outputs": {"g": gp}}]
        sc["iterative"] = True
    elif mdf:
        d0 = {"name": "D0", "inputs": inputs, "outputs": {"y": _poly(rng, 2, quad=False)}}
        ins2 = [*inputs, ["y", 1]]
        discs = [d0, {"name": "Df", "inputs": ins2, "outputs": {"f": fpoly}},
                 {"name": "Dg", "inputs": ins2, "outputs": {"g": gpoly}}]
    else:
        discs = [{"name": "Df", "inputs": inputs, "outputs": {"f": fpoly}},
                 {"name": "Dg", "inputs": inputs, "outputs": {"g": gpoly}}]
    sc["constraints"] = [["g", "ineq"]]
    if "eq" in toks:
        discs.append({"name": "Dh", "inputs": inputs, "outputs": {"h": _poly(rng, 2, quad=False)}})
        sc["constraints"].append(["h", "eq"])
    if with_obs:
        discs.append({"name": "Do", "inputs": inputs, "outputs": {"o": _poly(rng, 2, quad=False)}})
        sc["observables"] = ["o"]
    sc["disciplines"] = discs
    if doe:
        pts: list[list[float]] = []
        dim = sum(len(v["lb"]) for v in variables)
        while len(pts) < size:
            p = [float(rng.dyadic(-3, 3, 2)) for _ in range(dim)]
            if p not in pts:
                pts.append(p)
        if size >= 3 and rng.chance(0.7):
            # a sample generated twice: its second occurrence is served from the database
            pts.insert(rng.randint(2, len(pts)), pts[rng.randint(0, 1)])
        sc["algo"] = {"algo_name": "CustomDOE", "samples": pts}
        sc["normalized"] = False
        sc["deterministic"] = not sc.get("iterative")
    else:
        normalized = "norm" in toks
        sc["algo"] = {"algo_name": "SLSQP", "max_iter": size, "normalize_design_space": normalized}
        sc["normalized"] = normalized
        sc["deterministic"] = not normalized and not sc.get("iterative")
    return sc


def earlier_algo(sc: dict[str, Any], rng: common.Rng) -> dict[str, Any]:
    """A shorter run of the same scenario (leaves the pre-existing backup file)."""
    a = copy.deepcopy(sc["algo"])
    if "samples" in a:
        a["samples"] = a["samples"][: rng.randint(1, max(1, len(a["samples"]) // 2))]
    else:
        a["max_iter"] = rng.randint(1, max(1, a["max_iter"] // 2))
    return a


FAMILIES_QUICK = ["doe", "doe-nocache-obs", "doe-mdf-vec", "doe-max-obs", "mdo-unnorm", "mdo-norm",
                  "mdo-unnorm-nocache", "mdo-unnorm-obs"]
FAMILIES_EXTRA = ["doe-obs-eq", "doe-big", "mdo-mdf-unnorm-vec", "doe-mdf-nocache", "mdo-norm-nocache-obs",
                  "mdo-unnorm-max-eq", "mdo-unnorm-nocache-obs", "mdo-idf-unnorm", "doe-idf-obs", "doe-mdf-coupled",
                  "mdo-mdf-coupled-unnorm"]
FAMILIES_THOROUGH = [*FAMILIES_QUICK, *FAMILIES_EXTRA]
MODES = {"call": (True, False), "iter": (False, True), "both": (True, True)}


def family_size(rng, fam: str) -> int:
    toks = fam.split("-")
    if "big" in toks:
        return 12
    if "nocache" in toks or "coupled" in toks:
        return rng.randint(3, 4)
    return rng.randint(4, 6)


def make_cfg(sc, mode: str, pre: str, rng, crash_in="run", chain=0) -> dict[str, Any]:
    ec, ei = MODES[mode]
    cfg = {"scenario": sc, "each_call": ec, "each_iter": ei, "pre": pre, "crash_in": crash_in, "chain": chain}
    if pre in ("earlier", "erase"):
        cfg["earlier_algo"] = earlier_algo(sc, rng)
    cfg["label"] = f"{sc['family']}/{mode}/{pre}" + ("/jac" if crash_in == "jac" else "")
    return cfg


def gen_configs(rng: common.Rng, thorough: bool) -> list[dict[str, Any]]:
    cfgs = []
    # quick: the base families + two of the others, chosen by the seed
    fams = FAMILIES_THOROUGH if thorough else [*FAMILIES_QUICK, *rng.sample(FAMILIES_EXTRA, 2)]
    for i, fam in enumerate(fams):
        sc = make_scenario(rng, fam, family_size(rng, fam))
        mdo = fam.startswith("mdo")
        if thorough:
            combos = [(m, p) for m in ("call", "iter", "both") for p in ("absent", "earlier")] + [("call", "erase"), ("iter", "erase")]
        else:
            # quick: both modes; the initial-file dimension rotates with the family and the seed
            pres = ["absent", "earlier", "absent", "earlier", "erase"]
            j = rng.randint(0, 4)
            combos = [("call", pres[(i + j) % 5]), ("iter", pres[(i + j + 1) % 5])]
            if rng.chance(0.25):
                combos.append(("both", pres[(i + j + 2) % 5]))
        for mode, pre in combos:
            cfgs.append(make_cfg(sc, mode, pre, rng, chain=3 if thorough else 1))
        if mdo and (thorough or rng.chance(0.5)):
            # the process dies inside a Jacobian computation of a discipline
            for mode in (("call", "iter") if thorough else (rng.pick(["call", "iter"]),)):
                cfgs.append(make_cfg(sc, mode, rng.pick(["absent", "earlier"]), rng, crash_in="jac"))
    return cfgs


# --------------------------------------------------------------------------- children


class Server:
    """One `c12_child.py --server` process: forks a fresh process per spec."""

    def __init__(self):
        self.p = subprocess.Popen([PY, CHILD, "--server"], cwd=str(common.VERIF), env=dict(os.environ),
                                  stdin=subprocess.PIPE, stdout=subprocess.PIPE, stderr=subprocess.DEVNULL, text=True)
        self.ready = False

    def run(self, spec_path: str) -> int:
        if not self.ready:
            line = self.p.stdout.readline()
            if line.strip() != "ready":
                msg = f"c12 child server did not start: {line!r}"
                raise RuntimeError(msg)
            self.ready = True
        self.p.stdin.write(spec_path + "\n")
        self.p.stdin.flush()
        line = self.p.stdout.readline()
        if not line:
            msg = "c12 child server died"
            raise RuntimeError(msg)
        return int(line.strip())

    def close(self):
        try:
            self.p.stdin.close()
            self.p.wait(timeout=10)
        except Exception:  # noqa: BLE001
            self.p.kill()


class Servers:
    def __init__(self, n: int):
        self.all = [Server() for _ in range(n)]
        self.q: queue.Queue = queue.Queue()
        for s in self.all:
            self.q.put(s)

    def run(self, spec_path: str) -> int:
        s = self.q.get()
        try:
            return s.run(spec_path)
        finally:
            self.q.put(s)

    def close(self):
        for s in self.all:
            s.close()


SERVERS: Servers | None = None


def servers() -> Servers:
    global SERVERS
    if SERVERS is None:
        SERVERS = Servers(N_WORKERS)
        atexit.register(close_servers)
    return SERVERS


def close_servers():
    global SERVERS
    if SERVERS is not None:
        SERVERS.close()
        SERVERS = None


def run_child(spec: dict[str, Any], wd: Path, tag: str) -> dict[str, Any]:
    """Run one child process; returns its exit code, its event log and its result (None if it died)."""
    spec = dict(spec)
    spec["log"] = str(wd / f"{tag}.log")
    spec["out"] = str(wd / f"{tag}.out")
    sp = wd / f"{tag}.spec"
    sp.write_text(json.dumps(spec))
    t0 = time.time()
    rc = servers().run(str(sp))
    err = ""
    ep = Path(str(sp) + ".err")
    if ep.exists():
        err = ep.read_text()[-1500:]
    events = []
    lp = Path(spec["log"])
    if lp.exists():
        for ln in lp.read_text().splitlines():
            try:
                events.append(json.loads(ln))
            except ValueError:
                pass  # a line cut by the kill
    out = None
    op = Path(spec["out"])
    if op.exists():
        out = json.loads(op.read_text())
    return {"rc": rc, "stderr": err, "events": events, "out": out, "wall": time.time() - t0}


def make_spec(cfg, algo, path: Path, load=False, erase=False, crash_k=None, trace=True, keep_counter=False):
    sc = dict(cfg["scenario"])
    sc["algo"] = algo
    spec = {
        "scenario": sc,
        "backup": {"path": str(path), "each_iter": cfg["each_iter"], "each_call": cfg["each_call"], "load": load, "erase": erase},
        "crash_k": crash_k, "crash_in": cfg.get("crash_in", "run"), "trace": trace,
    }
    if keep_counter:
        spec["algo_extra"] = {"reset_iteration_counters": False}
    return spec


# --------------------------------------------------------------------------- canonical databases


def canon(dump) -> OrderedDict:
    db = OrderedDict()
    for x, outs in dump:
        db[tuple(F(t) for t in x)] = {n: tuple(F(t) for t in v) for n, v in outs.items()}
    return db


def load_backup(path: Path):
    """Load a backup file with the public API, in the parent. Returns (db | None, ok, error)."""
    if not path.exists():
        return OrderedDict(), True, "absent"
    import numpy as np
    from gemseo.algos.database import Database
    from gemseo.algos.optimization_problem import OptimizationProblem

    try:
        d = Database.from_hdf(str(path), log=False)
        db = OrderedDict()
        for x, outs in d.items():
            db[tuple(F(t) for t in x.unwrap())] = {n: tuple(F(t) for t in np.atleast_1d(v).real.ravel()) for n, v in outs.items()}
    except Exception as e:  # noqa: BLE001
        return None, False, f"Database.from_hdf: {type(e).__name__}: {str(e)[:200]}"
    try:
        pb = OptimizationProblem.from_hdf(str(path))
        n = len(pb.database)
        if n != len(db):
            return db, False, f"OptimizationProblem.from_hdf: {n} entries, Database.from_hdf: {len(db)}"
    except Exception as e:  # noqa: BLE001
        return db, False, f"OptimizationProblem.from_hdf: {type(e).__name__}: {str(e)[:200]}"
    return db, True, ""


def show_db(db) -> str:
    """The driver's canonical database string."""
    if not db:
        return "-"
    parts = []
    for x, outs in db.items():
        o = "&".join(f"{n}={common.rats(outs[n])}" for n in sorted(outs))
        parts.append(f"{common.rats(x)}{{{o}}}")
    return ";".join(parts)


def fl(x) -> list[float]:
    return [float(t) for t in x]


def db_equal(a, b) -> str:
    """'' when equal (points in order, same names, same values), else a short description."""
    ka, kb = list(a), list(b)
    if ka != kb:
        if len(ka) != len(kb):
            return f"{len(ka)} entries instead of {len(kb)}"
        return "points differ or are in a different order"
    for x in ka:
        if set(a[x]) != set(b[x]):
            return f"at {fl(x)}: outputs {sorted(a[x])} instead of {sorted(b[x])}"
        for n in a[x]:
            if a[x][n] != b[x][n]:
                return f"at {fl(x)}: value of {n} differs"
    return ""


def only_observables_missing(r_final, u_final, loaded, observables) -> bool:
    """The restarted history differs from the uninterrupted one only by observables that are missing at
    points which were already (partially) in the loaded backup."""
    if list(r_final) != list(u_final) or not observables:
        return False
    found = False
    for x in u_final:
        for n, v in u_final[x].items():
            if n in r_final[x]:
                if r_final[x][n] != v:
                    return False
            elif n in observables and x in loaded:
                found = True
            else:
                return False
        if set(r_final[x]) - set(u_final[x]):
            return False
    return found


# --------------------------------------------------------------------------- traces


def crash_kind(cfg) -> str:
    return "jac" if cfg.get("crash_in") == "jac" else "call"


def all_constraints(sc) -> list[list[str]]:
    return [*sc.get("implicit_constraints", []), *sc.get("constraints", [])]


def design_names(sc) -> list[str]:
    return [v["name"] for v in sc["variables"]]


def call_point(sc, ev) -> tuple:
    return tuple(F(t) for n in design_names(sc) for t in ev["in"][n])


def split_requests(events, ck: str) -> list[dict[str, Any]]:
    """Group a traced event log into requests: name, point, crash-point events, what it stored."""
    reqs: list[dict[str, Any]] = []
    cur = None
    for ev in events:
        k = ev["ev"]
        if k == "req":
            cur = {"name": ev["name"], "x": tuple(F(t) for t in ev["x"]), "calls": [], "stored": False, "newiter": False}
            reqs.append(cur)
        elif cur is None:
            continue
        elif k == ck:
            cur["calls"].append(ev["k"])  # belongs to the innermost request in progress
        elif k == "store":
            x = tuple(F(t) for t in ev["x"])
            for r in reversed(reqs):
                if r["x"] == x and not r["stored"] and r["name"] in ev["names"]:
                    r["stored"] = True
                    r["names"] = list(ev["names"])
                    break
        elif k == "newiter":
            x = tuple(F(t) for t in ev["x"])
            for r in reversed(reqs):
                if r["x"] == x and r["stored"]:
                    r["newiter"] = True
                    break
    return reqs


def copy_db(db):
    return OrderedDict((x, dict(o)) for x, o in db.items())


def names_db(dump, final_db, pre_db):
    """A logged database content ([[point, names], ...]) with the values the uninterrupted run records."""
    db = OrderedDict()
    for x, names in dump:
        x = tuple(F(t) for t in x)
        db[x] = {n: (final_db[x][n] if n in final_db.get(x, {}) else pre_db.get(x, {}).get(n, ("missing",))) for n in names}
    return db


def replay_trace(events, pre_db, final_db, each_call: bool, each_iter: bool, ck: str, stop_k: int | None):
    """What the property expects at the `stop_k`-th crash-point event of a traced run.

    Returns (database of the completed evaluations, database at the last backup notification).
    The first is the in-memory database logged by the discipline itself at that event; the second
    is, in function-call mode, the same thing, and in each-iteration mode the database logged at
    the last new-iteration notification before it (the pre-existing content when there is none).
    Values are those the uninterrupted run records (`final_db`)."""
    snap = copy_db(pre_db)
    completed = copy_db(pre_db)
    for ev in events:
        k = ev["ev"]
        if k == ck and stop_k is not None and ev["k"] == stop_k:
            completed = names_db(ev["db"], final_db, pre_db)
            break
        if k == "newiter" and each_iter and not each_call:
            snap = names_db(ev["db"], final_db, pre_db)
    if each_call:
        snap = copy_db(completed)
    return completed, snap


# --------------------------------------------------------------------------- one configuration


def run_config(cfg: dict[str, Any], ks_spec, pool: ThreadPoolExecutor, wd: Path) -> dict[str, Any]:
    """Run E (optional), U, then C_k and R_k for the chosen crash points (+ chains)."""
    sc = cfg["scenario"]
    ck = crash_kind(cfg)
    out: dict[str, Any] = {"cfg": cfg, "crashes": {}, "chains": {}}
    base = None
    pre = cfg["pre"]
    if pre in ("earlier", "erase"):
        base = wd / "E.h5"
        out["E"] = E = run_child(make_spec(cfg, cfg["earlier_algo"], base), wd, "E")
        if E["rc"] != 0 or E["out"] is None or E["out"]["error"]:
            out["machinery"] = f"earlier run failed: rc={E['rc']} {E['stderr'][-300:]} {E['out'] and E['out']['error']}"
            return out
    load, erase = pre == "earlier", pre == "erase"
    upath = wd / "U.h5"
    if base is not None and base.exists():
        shutil.copy(base, upath)
    out["U"] = U = run_child(make_spec(cfg, sc["algo"], upath, load=load, erase=erase, keep_counter=load), wd, "U")
    if U["rc"] != 0 or U["out"] is None:
        out["machinery"] = f"uninterrupted run failed: rc={U['rc']} {U['stderr'][-400:]}"
        return out
    out["U_file"] = upath
    n_calls = sum(1 for e in U["events"] if e["ev"] == ck)
    out["n_calls"] = n_calls
    ks = ks_spec(n_calls, U["events"])
    out["ks"] = ks
    chain_ks = set()
    if cfg.get("chain") and ck == "call":
        cand = [k for k in ks if 1 < k]
        rr = common.make_rng(0, "chain" + cfg["label"] + str(n_calls))
        rr.shuffle(cand)
        chain_ks = set(cand[: cfg["chain"]])

    def one(k):
        path = wd / f"k{k}.h5"
        if base is not None and base.exists():
            shutil.copy(base, path)
        c = run_child(make_spec(cfg, sc["algo"], path, load=load, erase=erase, crash_k=k, trace=False, keep_counter=load), wd, f"C{k}")
        crash_copy = wd / f"k{k}.crash.h5"
        if path.exists():
            shutil.copy(path, crash_copy)
        r = run_child(make_spec(cfg, sc["algo"], path, load=True, keep_counter=True), wd, f"R{k}")
        d = {"C": c, "R": r, "crash_file": crash_copy, "final_file": path}
        if k in chain_ks and r["rc"] == 0 and r["out"] is not None:
            n2 = sum(1 for e in r["events"] if e["ev"] == ck)
            if n2 >= 1:
                k2 = common.make_rng(k, "k2" + cfg["label"]).randint(1, n2)
                p2 = wd / f"k{k}_{k2}.h5"
                if crash_copy.exists():
                    shutil.copy(crash_copy, p2)
                c2 = run_child(make_spec(cfg, sc["algo"], p2, load=True, crash_k=k2, trace=False, keep_counter=True), wd, f"C{k}_{k2}")
                cc2 = wd / f"k{k}_{k2}.crash.h5"
                if p2.exists():
                    shutil.copy(p2, cc2)
                r2 = run_child(make_spec(cfg, sc["algo"], p2, load=True, keep_counter=True), wd, f"R{k}_{k2}")
                d["chain"] = {"k2": k2, "C": c2, "R": r2, "crash_file": cc2, "final_file": p2}
        return k, d

    for k, d in pool.map(one, ks):
        out["crashes"][k] = d
    return out


def feasible_best(db, sc) -> Fraction | None:
    best = None
    obj = sc.get("db_objective", sc["objective"])
    for outs in db.values():
        if obj not in outs:
            continue
        ok = True
        for name, ty in all_constraints(sc):
            if name not in outs:
                ok = False
                break
            if ty == "ineq":
                ok = ok and all(v <= TOL_INEQ for v in outs[name])
            else:
                ok = ok and all(abs(v) <= TOL_EQ for v in outs[name])
        if ok:
            f = outs[obj][0]
            if best is None or f < best:
                best = f
    return best


def check_crash(res: Result, cfg, label: str, rp: dict, ref: dict, k: int, d: dict, u_final) -> dict | None:
    """Oracle for one killed run `d["C"]` (reference: the traced uninterrupted run `ref`) and its
    restart `d["R"]`. Returns the item used by the model comparison (None: case skipped)."""
    sc = cfg["scenario"]
    ec, ei = cfg["each_call"], cfg["each_iter"]
    ck = crash_kind(cfg)
    C, R = d["C"], d["R"]
    ref_final = canon(ref["out"]["db"])
    ref_pre = canon(ref["out"]["pre"]["loaded"])
    ref_calls = [e for e in ref["events"] if e["ev"] == ck]
    c_calls = [e for e in C["events"] if e["ev"] == ck]
    if C["rc"] != 1 or len(c_calls) != k or any(
        (a["d"], a.get("in")) != (b["d"], b.get("in")) for a, b in zip(c_calls, ref_calls)
    ):
        res.notes.append(f"{label}: killed run not a prefix of the uninterrupted one (rc={C['rc']}, {len(c_calls)} executions) {C['stderr'][-200:]}")
        res.count("machinery-skip")
        return None
    completed, expected = replay_trace(ref["events"], ref_pre, ref_final, ec, ei, ck, k)
    backup, ok, err = load_backup(d["crash_file"])
    item = {"k": k, "backup": backup, "expected": expected, "completed": completed, "R": R, "d": d}
    if backup is None or not ok:
        res.violate("oracle", "backup-not-loadable", f"{label}: the backup left by the killed run cannot be loaded: {err}", rp)
        return None
    diff = db_equal(backup, expected)
    if diff:
        what = "the evaluations completed before the crash" if ec else "the database at the last notified iteration"
        res.violate("oracle", "backup-not-snapshot",
                    f"{label}: the backup is not {what}: {diff}; backup={show_db(backup)[:300]} expected={show_db(expected)[:300]}", rp)
    res.count("strict_reading_equal" if not db_equal(backup, completed) else "strict_reading_lags")
    if backup:
        res.nontrivial(json.dumps([label]))
    if any(set(ref_final.get(x, {})) - set(o) for x, o in backup.items()):
        res.count("backup-with-partial-entry")
    # ---- restart
    if R["rc"] != 0 or R["out"] is None or R["out"]["error"]:
        res.violate("oracle", "restart-error",
                    f"{label}: the restarted run failed: rc={R['rc']} {(R['out'] or {}).get('error')} {R['stderr'][-300:]}", rp)
        return item
    r_final = canon(R["out"]["db"])
    item["r_final"] = r_final
    item["r_loaded"] = canon(R["out"]["pre"]["loaded"])
    # no rework: executions at a stored point are bounded by the outputs still missing there
    execs: dict[tuple, int] = {}
    dn = design_names(sc)
    for e in R["events"]:
        if e["ev"] == "call" and all(n in e["in"] for n in dn):
            key = (e["d"], call_point(sc, e))
            execs[key] = execs.get(key, 0) + 1
    for (dname, p), n in execs.items():
        if p in backup:
            missing = set(r_final.get(p, {})) - set(backup[p])
            # an MDA executes its disciplines several times per evaluation.
            # Each missing output may cost one execution of the discipline; each missing *gradient* may cost one
            # more, because a process linearizes its disciplines at the data of the current point and re-executes
            # them to obtain these data when they have no cache (MDOChain._compute_jacobian since fix db0804c).
            # A point stored completely has nothing missing: bound 0, the literal clause of the property.
            n_grad = sum(1 for m in missing if str(m).startswith("@"))
            bound = (len(missing) + n_grad) * (1000 if sc.get("iterative") else 1)
            if not n <= bound:
                res.violate("oracle", "rework",
                            f"{label}: discipline {dname} executed {n} time(s) at the stored point {fl(p)} "
                            f"although only {sorted(missing)} were missing there", rp)
    res.count("restart-executions-at-stored-points", sum(n for (_, p), n in execs.items() if p in backup))
    # loaded entries kept
    keys = list(r_final)
    kept = len(keys) >= len(backup)
    for i, (x, outs) in enumerate(backup.items()):
        if not kept:
            break
        kept = keys[i] == x and all(n in r_final[x] and r_final[x][n] == v for n, v in outs.items())
    if not kept:
        res.violate("oracle", "loaded-entries-not-kept",
                    f"{label}: the final database of the restarted run does not start with the loaded entries", rp)
    # optimum at least as good as the best loaded one
    best = feasible_best(backup, sc)
    result = R["out"]["result"]
    if best is not None:
        # compared on the recorded (minimised) objective at the reported point: independent of the
        # sign convention of f_opt for maximised objectives
        good = False
        if result is not None and result["is_feasible"] is True and result["x_opt"] is not None:
            xo = tuple(F(t) for t in result["x_opt"])
            obj = sc.get("db_objective", sc["objective"])
            good = xo in r_final and obj in r_final[xo] and r_final[xo][obj][0] <= best
        if not good:
            res.violate("oracle", "optimum-worse",
                        f"{label}: best loaded feasible objective {float(best)}, restarted run reports {result}", rp)
        res.count("optimum-clause-checked")
    # same history as the uninterrupted run
    if sc["deterministic"]:
        diff = db_equal(r_final, u_final)
        if diff:
            if only_observables_missing(r_final, u_final, backup, set(sc.get("observables", []))):
                res.violate("oracle", "replay-differs-observable",
                            f"{label}: the restarted run does not evaluate the observables at a point loaded from the backup: {diff}", rp)
            else:
                res.violate("oracle", "replay-differs",
                            f"{label}: the restarted run does not end with the history of the uninterrupted run: {diff}", rp)
        res.count("replay-clause-checked")
    return item


def evaluate_config(res: Result, run: dict[str, Any]) -> None:
    """Oracle over one configuration; fills run['items'] for the model comparison."""
    cfg = run["cfg"]
    sc = cfg["scenario"]
    label = cfg["label"]
    run["items"] = []
    if "machinery" in run:
        res.notes.append(f"{label}: {run['machinery']}")
        res.count("machinery-skip")
        return
    U = run["U"]
    if U["out"]["error"]:
        res.violate("oracle", "run-error", f"{label}: the uninterrupted run raised {U['out']['error']}", {"config": cfg, "k": None})
        return
    u_final = canon(U["out"]["db"])
    for k in run["ks"]:
        d = run["crashes"][k]
        res.evaluations += 1
        res.count(f"family:{sc['family']}")
        res.count(f"mode:{'call' if cfg['each_call'] else ''}{'iter' if cfg['each_iter'] else ''}")
        res.count(f"pre:{cfg['pre']}")
        res.count(f"crash-in:{crash_kind(cfg)}")
        item = check_crash(res, cfg, f"{label} k={k}", {"config": cfg, "k": k}, U, k, d, u_final)
        if item is None:
            continue
        run["items"].append(item)
        ch = d.get("chain")
        if ch and "r_final" in item:
            res.evaluations += 1
            res.count("pre:crashed-twice")
            it2 = check_crash(res, cfg, f"{label} k={k} then k2={ch['k2']}", {"config": cfg, "k": k, "k2": ch["k2"]},
                              d["R"], ch["k2"], ch, u_final)
            if it2 is not None:
                item["chain_item"] = it2


# --------------------------------------------------------------------------- model comparison


def budget_of(algo) -> int:
    return len(algo["samples"]) if "samples" in algo else int(algo["max_iter"])


def opt_line(sc) -> str:
    cs = ",".join(f"{n}:{t}" for n, t in all_constraints(sc)) or "-"
    return f"opt {sc.get('db_objective', sc['objective'])} {cs} {common.rat(TOL_EQ)} {common.rat(TOL_INEQ)}"


def parse_state(ans: str) -> dict[str, str]:
    d = {}
    for tok in ans.split(" "):
        if "=" in tok:
            k, v = tok.split("=", 1)
            d[k] = v
    return d


class Session:
    """One driver session: protocol lines + the check of each answer against the implementation."""

    def __init__(self, cfg, what: str):
        self.cfg = cfg
        self.what = what
        self.lines: list[str] = []
        self.checks: list[Any] = []
        self.ck = crash_kind(cfg)
        self.add(f"new {int(cfg['each_call'])} {int(cfg['each_iter'])}")

    def add(self, line, chk=None):
        self.lines.append(line)
        self.checks.append(chk)

    def start(self, budget: int, reset: bool, loaded_db=None, counter=None):
        chk = None
        if loaded_db is not None:
            exp = show_db(loaded_db)

            def chk(a, exp=exp, counter=counter):
                s = parse_state(a)
                if s.get("db") == exp and s.get("cur") == str(counter):
                    return ""
                return f"state at the start of execute: model {a[:300]}, implementation db={exp[:300]} cur={counter}"

        self.add(f"start {budget} {int(reset)}", chk)

    def requests(self, events, final_db, pre_db, quiet: bool, stop_k=None):
        """The requests of a traced run (those completed before its stop_k-th crash-point event)."""
        db = copy_db(pre_db)
        for r in split_requests(events, self.ck):
            if stop_k is not None and any(c >= stop_k for c in r["calls"]):
                break
            val = final_db.get(r["x"], {}).get(r["name"], (Fraction(0),))
            ln = f"{'reqq' if quiet else 'req'} {r['name']} {common.rats(r['x'])} {common.rats(val)} {len(r['calls'])}"
            if r["stored"]:
                exp_out = "computed"
                ent = db.setdefault(r["x"], {})
                for n in r["names"]:
                    if n not in ent:
                        ent[n] = final_db[r["x"]][n]
            elif r["name"] in db.get(r["x"], {}):
                exp_out = "served"
            else:
                exp_out = "maxiter"
            exp_ni = 1 if r["newiter"] else 0
            exp_db = None if quiet or not r["stored"] else show_db(db)
            exp_n = len(db)

            def chk(a, exp_out=exp_out, exp_ni=exp_ni, exp_db=exp_db, exp_n=exp_n, ln=ln):
                head, _, st = a.partition(" | ")
                toks = head.split(" ")
                if toks[0] != exp_out:
                    return f"`{ln[:120]}`: model {toks[0]}, implementation {exp_out}"
                if toks[0] == "computed" and toks[1] != f"ni={exp_ni}":
                    return f"`{ln[:120]}`: new-iteration event: model {toks[1]}, implementation ni={exp_ni}"
                if exp_db is not None:
                    s = parse_state(st)
                    if s.get("db") != exp_db:
                        return f"`{ln[:120]}`: database after the request: model {s.get('db', '')[:300]}, implementation {exp_db[:300]}"
                    if s.get("ok") != "1":
                        return f"`{ln[:120]}`: the model's export raised"
                elif st.startswith("n=") and parse_state(st).get("n") != str(exp_n):
                    return f"`{ln[:120]}`: database length: model {st}, implementation {exp_n}"
                return ""

            self.add(ln, chk)

    def finish(self, file_path: Path, final_db, counter, what: str):
        fin, _, _ = load_backup(file_path)
        fin_s = show_db(fin) if fin is not None else "E"
        exp_db = show_db(final_db)

        def chk(a):
            s = parse_state(a)
            if s.get("read") == fin_s and s.get("db") == exp_db and s.get("cur") == str(counter):
                return ""
            return f"end of {what}: model {a[:500]}; implementation file={fin_s[:250]} db={exp_db[:250]} cur={counter}"

        self.add("finish", chk)

    def crashload(self, loaded_db, counter, what: str):
        exp = show_db(loaded_db)

        def chk(a):
            s = parse_state(a)
            if s.get("db") == exp and s.get("cur") == str(counter):
                return ""
            return f"{what}: model loads {a[:300]}, implementation db={exp[:300]} cur={counter}"

        self.add("crashload", chk)

    def trunc(self, k: int, backup):
        exp = show_db(backup)
        self.add(f"trunc {k}", lambda a: "" if a == "read=" + exp
                 else f"backup file at crash point {k}: model {a[:300]}, implementation read={exp[:300]}")

    def optimum(self, out, final_db):
        sc = self.cfg["scenario"]
        result = out["result"]
        if result is None or result["x_opt"] is None or not final_db:
            return
        xo = tuple(F(t) for t in result["x_opt"])
        keys = list(final_db)
        idxs = [i for i, x in enumerate(keys) if x == xo]
        obj = sc.get("db_objective", sc["objective"])

        def chk(a):
            s = parse_state(a)
            if s.get("idx") in (None, "_"):
                return f"optimum: model {a}, implementation x_opt={result['x_opt']}"
            i = int(s["idx"])
            same_feas = (s.get("feas") == "1") == bool(result["is_feasible"])
            if i in idxs and same_feas:
                return ""
            # ties (same objective value at two points) may be broken either way
            if i < len(keys) and idxs and same_feas and final_db[keys[i]].get(obj) == final_db[keys[idxs[0]]].get(obj):
                return ""
            return f"optimum: model {a}, implementation x_opt={result['x_opt']} feasible={result['is_feasible']}"

        self.add(opt_line(sc), chk)


def prelude(s: Session, run):
    """The earlier run E that left the pre-existing file (loaded). An erased file is an absent file."""
    cfg = run["cfg"]
    if cfg["pre"] == "earlier":
        E = run["E"]
        s.start(budget_of(cfg["earlier_algo"]), True)
        s.requests(E["events"], canon(E["out"]["db"]), OrderedDict(), quiet=True)
        s.add("finish")
        s.add("crashload")


def sessions_of(run) -> list[Session]:
    cfg = run["cfg"]
    sc = cfg["scenario"]
    U = run["U"]
    u_final = canon(U["out"]["db"])
    u_pre = canon(U["out"]["pre"]["loaded"])
    budget = budget_of(sc["algo"])
    keep = cfg["pre"] == "earlier"
    out = []
    # the uninterrupted run, with one truncation query per crash point
    s = Session(cfg, "uninterrupted run")
    prelude(s, run)
    s.start(budget, not keep, u_pre, U["out"]["pre"]["counter"])
    s.requests(U["events"], u_final, u_pre, quiet=False)
    for it in run["items"]:
        s.trunc(it["k"], it["backup"])
    s.finish(run["U_file"], u_final, U["out"]["counter"], "the uninterrupted run")
    s.optimum(U["out"], u_final)
    out.append(s)
    for it in run["items"]:
        if "r_final" not in it:
            continue
        k = it["k"]
        R = it["R"]
        s = Session(cfg, f"crash point {k} and restart")
        prelude(s, run)
        s.start(budget, not keep)
        s.requests(U["events"], u_final, u_pre, quiet=True, stop_k=k)
        s.crashload(it["r_loaded"], R["out"]["pre"]["counter"], f"restart at crash point {k}")
        s.start(budget, False)
        s.requests(R["events"], it["r_final"], it["r_loaded"], quiet=False)
        ch = it.get("chain_item")
        if ch is not None:
            s.trunc(ch["k"], ch["backup"])
        s.finish(it["d"]["final_file"], it["r_final"], R["out"]["counter"], f"the restarted run (crash point {k})")
        s.optimum(R["out"], it["r_final"])
        out.append(s)
        if ch is not None and "r_final" in ch:
            R2 = ch["R"]
            s = Session(cfg, f"crash point {k}, restart killed at {ch['k']}, second restart")
            prelude(s, run)
            s.start(budget, not keep)
            s.requests(U["events"], u_final, u_pre, quiet=True, stop_k=k)
            s.add("crashload")
            s.start(budget, False)
            s.requests(R["events"], it["r_final"], it["r_loaded"], quiet=True, stop_k=ch["k"])
            s.crashload(ch["r_loaded"], R2["out"]["pre"]["counter"], "second restart")
            s.start(budget, False)
            s.requests(R2["events"], ch["r_final"], ch["r_loaded"], quiet=False)
            s.finish(ch["d"]["final_file"], ch["r_final"], R2["out"]["counter"], "the second restart")
            out.append(s)
    return out


def compare_with_model(res: Result, runs: list[dict[str, Any]]):
    sessions: list[tuple[dict, Session]] = []
    for run in runs:
        if "machinery" in run or run.get("U") is None or run["U"]["out"] is None or run["U"]["out"]["error"]:
            continue
        try:
            sessions += [(run, s) for s in sessions_of(run)]
        except Exception as e:  # noqa: BLE001
            res.notes.append(f"{run['cfg']['label']}: could not build the model session: {type(e).__name__}: {e}")
            res.count("machinery-skip")
    all_lines = [ln for _, s in sessions for ln in s.lines]
    if not all_lines:
        return
    answers = common.run_lean_driver(PID, all_lines)
    pos = 0
    for run, s in sessions:
        ok = True
        for j, (ln, chk) in enumerate(zip(s.lines, s.checks)):
            a = answers[pos + j]
            bad = "the driver rejected the line" if a in ("bad-op", "E") else (chk(a) if chk else "")
            if bad:
                ok = False
                res.disagreements += 1
                run.setdefault("model_disagreements", []).append(bad)
                res.violate(
                    "correspondence", "model-vs-impl", f"{run['cfg']['label']} ({s.what}): {bad}",
                    {"config": run["cfg"], "session": s.what, "protocol_lines": [x[:400] for x in s.lines[: j + 1]][-40:],
                     "model": a[:1500], "expected": bad, "correspondence": "Driver/C12.lean"},
                )
                break
        pos += len(s.lines)
        if ok:
            res.traces_validated += 1


# --------------------------------------------------------------------------- crash-point choice


def ks_quick(rng: common.Rng, n: int = 8):
    def choose(n_calls, events):
        if n_calls <= n:
            return list(range(1, n_calls + 1))
        # first, last, and a spread biased to executions that follow a store (between two functions)
        after_store = []
        prev = None
        for e in events:
            if e["ev"] in ("call", "jac") and prev == "store":
                after_store.append(e["k"])
            if e["ev"] in ("call", "jac", "store"):
                prev = e["ev"]
        ks = {1, n_calls}
        cand = [k for k in after_store if k not in ks and k <= n_calls]
        rng.shuffle(cand)
        ks.update(cand[: n - 3])
        rest = [k for k in range(1, n_calls + 1) if k not in ks]
        rng.shuffle(rest)
        ks.update(rest[: n - len(ks)])
        return sorted(ks)

    return choose


def ks_all(n_calls, events):  # noqa: ARG001
    return list(range(1, n_calls + 1))


def ks_fixed(ks):
    return lambda n_calls, events: [k for k in ks if k <= n_calls]  # noqa: ARG005


# --------------------------------------------------------------------------- run / replay


def corpus_cases() -> list[tuple[str, dict, Any]]:
    d = common.CORPUS_DIR / PID
    out = []
    if d.is_dir():
        for p in sorted(d.glob("*.json")):
            data = json.loads(p.read_text())
            out.append((p.name, data["config"], data.get("ks")))
    return out


def process(res: Result, cfgs_ks, model: bool = True) -> list[dict[str, Any]]:
    runs = []
    with ThreadPoolExecutor(max_workers=6) as outer, ThreadPoolExecutor(max_workers=N_WORKERS) as inner:
        for run in outer.map(lambda ck: run_config(ck[0], ck[1], inner, workdir()), cfgs_ks):
            runs.append(run)
    for run in runs:
        evaluate_config(res, run)
    if model:
        compare_with_model(res, runs)
    return runs


def shrink(res: Result, deadline: float) -> None:
    """Replace the replay of each oracle violation by a smaller failing case when one is found:
    fewer samples / iterations, smallest crash point. Shrunk cases are generated like the original
    ones (sub-lists of samples, smaller budgets), so they stay inside the property's quantifier."""
    for v in res.violations:
        if v.kind != "oracle" or "config" not in v.replay or time.time() > deadline:
            continue
        cfg = copy.deepcopy(v.replay["config"])
        cfg["chain"] = 0 if "k2" not in v.replay else cfg.get("chain", 0)
        best = None
        algo = cfg["scenario"]["algo"]
        cands = []
        if "samples" in algo:
            n = len(algo["samples"])
            for m in range(1, n):
                c = copy.deepcopy(cfg)
                c["scenario"]["algo"]["samples"] = algo["samples"][:m]
                cands.append(c)
        else:
            for m in range(1, int(algo["max_iter"])):
                c = copy.deepcopy(cfg)
                c["scenario"]["algo"]["max_iter"] = m
                cands.append(c)
        for c in cands:
            if time.time() > deadline:
                break
            if c["pre"] in ("earlier", "erase"):
                c["earlier_algo"] = earlier_algo(c["scenario"], common.make_rng(0, "shrink"))
            c["label"] = cfg["label"] + "/shrunk"
            tmp = Result(PID)
            process(tmp, [(c, ks_all)], model=False)
            hits = [w for w in tmp.violations if w.kind == "oracle" and w.key == v.key]
            if hits:
                best = hits[0]
                break
        if best is not None:
            v.what = best.what + "  [shrunk from: " + v.what[:160] + "]"
            v.replay = best.replay


def neighbours(cfg) -> list[dict[str, Any]]:
    """Failing-input search around a configuration on which model and implementation disagree: the
    same scenario under every mode and initial-file state, every crash point."""
    rng = common.make_rng(0, "nb" + cfg["label"])
    out = []
    for mode in MODES:
        for pre in ("absent", "earlier", "erase"):
            c = make_cfg(cfg["scenario"], mode, pre, rng, crash_in=cfg.get("crash_in", "run"), chain=1)
            if c["label"] != cfg["label"]:
                out.append(c)
    return out


def probe_stale_file(res: Result, rng: common.Rng, n: int) -> None:
    """OUT-OF-SCOPE probe (never a violation): an existing file that is neither erased nor loaded.
    The real run and the model are compared for information; what happens is counted."""
    for i in range(n):
        sc = make_scenario(rng, rng.pick(["doe", "doe-obs", "mdo-unnorm"]), 3)
        cfg = make_cfg(sc, rng.pick(["call", "iter"]), "earlier", rng)
        cfg["label"] = f"probe-stale/{sc['family']}/{i}"
        wd = workdir()
        base = wd / "E.h5"
        E = run_child(make_spec(cfg, cfg["earlier_algo"], base), wd, "E")
        if E["rc"] != 0 or E["out"] is None or E["out"]["error"] or not base.exists():
            res.count("probe-stale:skipped")
            continue
        U = run_child(make_spec(cfg, sc["algo"], base, load=False, erase=False), wd, "U")
        if U["out"] is None:
            res.count("probe-stale:run-died")
            continue
        raised = bool(U["out"]["error"])
        fin, ok, _err = load_backup(base)
        u_final = canon(U["out"]["db"])
        if raised:
            kind = "run-raises"
        elif fin is None or not ok:
            kind = "file-unreadable"
        elif not db_equal(fin, u_final):
            kind = "file-equals-history"
        else:
            kind = "file-is-not-the-history"
        res.count(f"probe-stale:{kind}")
        # the model on the same requests
        try:
            s = Session(cfg, "probe")
            s.start(budget_of(cfg["earlier_algo"]), True)
            s.requests(E["events"], canon(E["out"]["db"]), OrderedDict(), quiet=True)
            s.add("finish")
            s.add("crashstale")
            s.start(budget_of(sc["algo"]), True)
            s.requests(U["events"], u_final, OrderedDict(), quiet=True)
            s.add("finish")
            ans = common.run_lean_driver(PID, s.lines)
            st = parse_state(ans[-1])
            model_kind = "export-raises" if st.get("ok") == "0" else (
                "file-equals-history" if st.get("read") == st.get("db") else "file-is-not-the-history")
            res.count(f"probe-stale:model:{model_kind}")
        except Exception as e:  # noqa: BLE001
            res.count("probe-stale:model-not-run")
            res.notes.append(f"probe-stale: {type(e).__name__}: {str(e)[:120]}")


def run(ctx) -> Result:
    res = Result(PID)
    res.rule = (
        "one case = (scenario, backup mode, initial file, crash point k [, second crash point]): the run is killed inside "
        "its k-th discipline execution (or Jacobian computation) in a child process, its backup is loaded and compared, "
        "it is restarted in a new process; non-trivial = the backup holds at least one entry; distinct by (configuration, k). "
        "Scenario families: DOE / SLSQP, DisciplinaryOpt / MDF chain, discipline caches on (complete entries) / off (crashes "
        "between two functions of one point), observables, vector constraints, equality constraints, maximisation, repeated "
        "samples, > 10 entries, normalised or not; modes each-call / each-iteration / both; file absent / left by an "
        "earlier shorter run and loaded / erased / left by an earlier crash (chains)"
    )
    res.assumptions = [
        "the process dies inside a discipline execution or Jacobian computation (os._exit in the discipline body), never during an HDF5 write",
        "restart = new process, same scenario, set_optimization_history_backup(load=True), reset_iteration_counters=False",
        "file present but neither erased nor loaded: outside the property (not generated)",
        "value equality is on flattened arrays (scalar / size-1 array kinds are C11's concern)",
    ]
    rng = ctx.rng
    try:
        cfgs_ks = []
        for _name, cfg, ks in corpus_cases():
            res.count("corpus")
            cfgs_ks.append((cfg, ks_fixed(ks) if ks else ks_all))
        for cfg in gen_configs(rng, ctx.thorough):
            cfgs_ks.append((cfg, ks_all if ctx.thorough else ks_quick(common.make_rng(ctx.seed, "ks" + cfg["label"]))))
        runs = process(res, cfgs_ks)
        # model and implementation disagree but the oracle holds: look for a failing input nearby
        if any(v.kind == "correspondence" for v in res.violations) and not any(v.kind == "oracle" for v in res.violations):
            bad = [r["cfg"] for r in runs if r.get("model_disagreements")][:2]
            extra = [(c, ks_all) for cfg in bad for c in neighbours(cfg)]
            if extra and time.time() < ctx.deadline:
                res.count("failing-input-search-configs", len(extra))
                process(res, extra, model=False)
        probe_stale_file(res, common.make_rng(ctx.seed, "stale"), 6 if ctx.thorough else 2)
        if any(v.kind == "oracle" for v in res.violations):
            shrink(res, min(ctx.deadline, time.time() + (600 if ctx.thorough else 90)))
        res.sample({"configurations": [r["cfg"]["label"] + f" K={r.get('n_calls')} ks={r.get('ks')}" for r in runs][:60]})
        for r in runs[:2]:
            if r.get("items"):
                it = r["items"][-1]
                res.sample({"config": r["cfg"]["label"], "k": it["k"], "backup": show_db(it["backup"])[:300]})
        res.extra["child_runs"] = sum(
            (1 if "E" in r else 0) + (1 if "U" in r else 0) + sum(2 + (2 if "chain" in d else 0) for d in r.get("crashes", {}).values())
            for r in runs)
    finally:
        close_servers()
    res.exhaustive = False
    return res


def replay(path: str) -> int:
    data = json.loads(Path(path).read_text())
    rp = data.get("replay", data)
    cfg = rp["config"]
    k = rp.get("k") or (rp.get("ks") or [None])[0]
    res = Result(PID)
    try:
        runs = process(res, [(cfg, ks_fixed([k]) if k else ks_all)])
    finally:
        close_servers()
    for r in runs:
        print("configuration:", cfg["label"], "| crash-point events in the uninterrupted run:", r.get("n_calls"),
              "| crash points:", r.get("ks"), r.get("machinery", ""))
        for it in r.get("items", []):
            print(f" k={it['k']} backup  ={show_db(it['backup'])[:500]}")
            print(f"      expected={show_db(it['expected'])[:500]}")
            if "r_final" in it:
                print(f"      restart ={show_db(it['r_final'])[:500]}")
    bad = 0
    for v in res.violations:
        print(("ORACLE FAILS: " if v.kind == "oracle" else "MODEL/IMPLEMENTATION DISAGREE: ") + v.key, v.what[:800])
        if v.kind == "oracle":
            bad = 1
    for n in res.notes:
        print("note:", n)
    if not res.violations:
        print("property holds on this replay")
    return bad
