"""C19 — stream A: every distribution class against its documented law (oracle) and
SciPy-vs-OpenTURNS agreement.  All assertions are positive (`ok <=> error <= bound`), evaluated on
`Fraction`s of the floats returned by the real code, so NaN/inf can never pass.

Bounds (rounded stream, stated once):
  B30 = 2^-30   probabilities (absolute), values/moments relative to max(1, |ref|, std)
  B24 = 2^-24   moments of laws whose reference moments are themselves numeric (truncated laws)
  B20 = 2^-12   moments of transformed laws (OpenTURNS CompositeDistribution integrates them numerically)
"""

from __future__ import annotations

import math
from fractions import Fraction
from typing import Any

import numpy as np

from harness import c19_specs as S
from harness.common import F

B30 = Fraction(1, 2**30)
B24 = Fraction(1, 2**24)
B20 = Fraction(1, 2**12)  # moments that OpenTURNS integrates numerically (transformed laws; 5e-6 observed on heavy tails)
P_GRID = [1 / 64, 1 / 16, 1 / 4, 3 / 8, 1 / 2, 5 / 8, 3 / 4, 15 / 16, 63 / 64]


def fin(x) -> bool:
    try:
        return math.isfinite(float(x))
    except (TypeError, ValueError):
        return False


def close(a, b, bound: Fraction, scale: float = 1.0) -> bool:
    """Positive assertion |a-b| <= bound * max(1, |b|, scale); False for NaN/inf."""
    if not (fin(a) and fin(b) and fin(scale)):
        return False
    return abs(F(a) - F(b)) <= bound * max(Fraction(1), abs(F(b)), F(scale))


def same_bound(got, want) -> bool:
    """Support bounds: exact, `None` = infinite of the right sign handled by the caller."""
    return fin(got) and F(got) == Fraction(want)


def seed_libs(seed: int) -> None:
    import openturns

    np.random.seed(seed % (2**32))
    openturns.RandomGenerator.SetSeed(seed % (2**31))


def check_distribution(spec, seed: int, extra_p: list[float] = ()) -> tuple[list[tuple[str, str]], dict[str, Any]]:
    """Oracle of one specification: list of (violation key, message) + the observed numbers."""
    bad: list[tuple[str, str]] = []
    fam = S.family_of(spec)
    lib = S.lib_of(spec)
    law = S.law_of(spec)
    try:
        d = S.build(spec)
    except Exception as e:  # noqa: BLE001
        return [(f"construct-raises:{lib}:{fam}", f"{spec['cls']}({dict((k, v) for k, v in spec['params'])}) raised {type(e).__name__} for admissible parameters: {e!s}"[:400])], {}
    derived = getattr(law, "derived", False)
    numeric = getattr(law, "numeric_moments", False)
    is_dirac = fam == "Dirac"
    tag = f"{lib}:{fam}"
    scale = max(1.0, law.std)
    obs: dict[str, Any] = {}

    def fail(kind: str, msg: str) -> None:
        bad.append((f"{kind}:{tag}", f"{spec['cls']}({dict((k, v) for k, v in spec['params'])}): {msg}"))

    try:
        return _check_built(spec, seed, extra_p, d, law, fam, lib, tag, scale, derived, numeric, is_dirac, bad, obs, fail)
    except Exception as e:  # noqa: BLE001
        fail("evaluation-raises", f"{type(e).__name__}: {e!s}"[:300])
        return bad, obs


def _check_built(spec, seed, extra_p, d, law, fam, lib, tag, scale, derived, numeric, is_dirac, bad, obs, fail):
    # support / range
    sup = np.asarray(d.support, dtype=float)
    rng_ = np.asarray(d.range, dtype=float)
    obs["support"], obs["range"] = sup.tolist(), rng_.tolist()
    if sup.shape != (2,) or rng_.shape != (2,):
        fail("support-shape", f"support/range are not pairs: {sup} {rng_}")
        return bad, obs
    lo, hi = float(sup[0]), float(sup[1])
    if not derived:
        ok_lo = (law.lb is None and lo == -math.inf) or (law.lb is not None and same_bound(lo, law.lb))
        ok_hi = (law.ub is None and hi == math.inf) or (law.ub is not None and same_bound(hi, law.ub))
        if not (ok_lo and ok_hi):
            fail("support", f"support {sup.tolist()} is not the mathematical support [{law.lb}, {law.ub}]")
    else:
        # transformed/truncated laws: OpenTURNS reports a finite numerical bound for an infinite side;
        # required: the reported support is inside the mathematical one and carries all the mass
        in_lo = law.lb is None or (lo >= float(law.lb) - 1e-9 * scale)
        in_hi = law.ub is None or (hi <= float(law.ub) + 1e-9 * scale)
        mass = (lo == -math.inf or law.cdf(lo) <= 1e-9) and (hi == math.inf or law.sf(hi) <= 1e-9)
        if not (in_lo and in_hi and mass):
            fail("support", f"support {sup.tolist()} vs mathematical support [{law.lb}, {law.ub}]")
    r_lo, r_hi = float(rng_[0]), float(rng_[1])
    if not (fin(r_lo) and fin(r_hi) and lo <= r_lo and r_lo <= r_hi and r_hi <= hi):
        fail("range", f"numerical range {rng_.tolist()} is not a finite interval inside the support {sup.tolist()}")
    elif not is_dirac and not (law.cdf(r_lo) <= 1e-9 and law.sf(r_hi) <= 1e-9):
        fail("range", f"numerical range {rng_.tolist()} leaves out a mass {law.cdf(r_lo)} + {law.sf(r_hi)} > 1e-9")

    # moments
    mean, std = d.mean, d.standard_deviation
    obs["mean"], obs["std"] = float(mean), float(std)
    bm = (B20 if getattr(law, "composite", False) else B24) if numeric else B30
    if numeric and not getattr(law, "moment_error", 1.0) <= 1e-10:
        obs["moments_skipped"] = True  # the reference quadrature did not converge: no verdict on moments
        mean, std = float(law.mean), law.std
    if not close(mean, float(law.mean), bm, scale):
        fail("mean", f"mean {float(mean)!r} differs from the analytical mean {float(law.mean)!r}")
    if not close(std, law.std, bm, scale):
        fail("std", f"standard deviation {float(std)!r} differs from the analytical one {law.std!r}")
    elif isinstance(law.var, Fraction) and fin(std):
        # exact closed form: std^2 against the rational variance
        if not abs(F(std) ** 2 - law.var) <= 4 * B30 * max(Fraction(1), law.var):
            fail("std", f"standard_deviation^2 {float(std) ** 2!r} differs from the exact variance {law.var}")

    # cdf / icdf
    ps = [*P_GRID, *extra_p]
    obs["cdf_icdf"] = []
    raw = S.raw_scipy(spec) if lib == "SP" else None
    for p in ps:
        x_ref = law.icdf(p)
        x = d.compute_inverse_cdf(p)
        if raw is not None and not fin(x) and not fin(raw.ppf(p)):
            # SciPy itself (called directly with the independently computed parametrisation) returns a
            # non-finite quantile here: third-party numerics, outside the property (counted, no verdict)
            obs.setdefault("thirdparty_nonfinite", []).append(p)
            continue
        if not close(x, x_ref, B30, scale):
            fail("icdf", f"inverse cdf({p}) = {float(x)!r}, analytical {x_ref!r}")
            continue
        if not is_dirac:
            c = d.compute_cdf(float(x))
            if not close(c, p, B30):
                fail("cdf-icdf", f"cdf(icdf({p})) = {float(c)!r}")
        c_ref = law.cdf(x_ref)
        c2 = d.compute_cdf(x_ref)
        if not close(c2, c_ref, B30):
            fail("cdf", f"cdf({x_ref!r}) = {float(c2)!r}, analytical {c_ref!r}")
        elif not is_dirac:
            x2 = d.compute_inverse_cdf(float(c2))
            if not close(x2, x_ref, B30 * 16, scale):
                fail("icdf-cdf", f"icdf(cdf({x_ref!r})) = {float(x2)!r}")
        obs["cdf_icdf"].append([p, float(x), float(c2)])
    if is_dirac:
        v = float(law.mean)
        if not (fin(d.compute_inverse_cdf(d.compute_cdf(v))) and F(d.compute_inverse_cdf(d.compute_cdf(v))) == F(v)):
            fail("icdf-cdf", "icdf(cdf(v)) != v at the atom")

    # samples
    seed_libs(seed)
    n = 64
    smp = np.asarray(d.compute_samples(n), dtype=float)
    obs["n_samples"] = list(smp.shape)
    if smp.shape != (n,):
        fail("samples-shape", f"compute_samples({n}) has shape {smp.shape}")
    else:
        inside = all(fin(s) and lo <= s <= hi for s in smp)
        if not inside:
            fail("samples-support", f"a sample lies outside the reported support {sup.tolist()}: min {smp.min()!r} max {smp.max()!r}")
        ref_in = all(
            fin(s) and (law.lb is None or s >= float(law.lb) - 1e-12 * scale) and (law.ub is None or s <= float(law.ub) + 1e-12 * scale)
            for s in smp
        )
        if not ref_in:
            fail("samples-support", f"a sample lies outside the mathematical support [{law.lb}, {law.ub}]")
        if not is_dirac:
            # Dvoretzky-Kiefer-Wolfowitz: sup|F_n - F| <= 0.35 fails with probability <= 2exp(-2*64*0.35^2) < 4e-7
            # per law; evaluated at the three quartiles only (still a positive assertion)
            for q in (0.25, 0.5, 0.75):
                t = law.icdf(q)
                emp = float(np.mean(smp <= t))
                if not abs(emp - q) <= 0.35:
                    fail("samples-law", f"empirical P[X <= Q({q})] = {emp} over {n} samples")
    return bad, obs


def check_agreement(spec_sp, spec_ot) -> list[tuple[str, str]]:
    """SciPy- and OpenTURNS-based versions of the same documented law agree (B30)."""
    bad = []
    fam = S.family_of(spec_sp)
    try:
        a, b = S.build(spec_sp), S.build(spec_ot)
    except Exception as e:  # noqa: BLE001
        return [(f"construct-raises:agree:{fam}", f"{spec_sp['cls']}/{spec_ot['cls']} {dict((k, v) for k, v in spec_sp['params'])} raised {type(e).__name__}: {e!s}"[:400])]
    law = S.law_of(spec_sp)
    scale = max(1.0, law.std)

    def fail(kind, msg):
        bad.append((f"agree-{kind}:{fam}", f"{spec_sp['cls']} vs {spec_ot['cls']} {dict((k, v) for k, v in spec_sp['params'])}: {msg}"))

    sa, sb = np.asarray(a.support, float), np.asarray(b.support, float)
    for u, v in zip(sa, sb):
        if not ((math.isinf(u) and u == v) or (fin(u) and fin(v) and F(u) == F(v))):
            fail("support", f"supports {sa.tolist()} / {sb.tolist()}")
            break
    if not close(a.mean, b.mean, B30, scale):
        fail("mean", f"means {float(a.mean)!r} / {float(b.mean)!r}")
    if not close(a.standard_deviation, b.standard_deviation, B30, scale):
        fail("std", f"standard deviations {float(a.standard_deviation)!r} / {float(b.standard_deviation)!r}")
    raw = S.raw_scipy(spec_sp)
    for p in P_GRID:
        xa, xb = a.compute_inverse_cdf(p), b.compute_inverse_cdf(p)
        if raw is not None and not fin(xa) and not fin(raw.ppf(p)):
            continue  # SciPy itself is non-finite here (third-party numerics, see check_distribution)
        if not close(xa, xb, B30, scale):
            fail("icdf", f"icdf({p}): {float(xa)!r} / {float(xb)!r}")
            continue
        ca, cb = a.compute_cdf(float(xa)), b.compute_cdf(float(xa))
        if not close(ca, cb, B30):
            fail("cdf", f"cdf({float(xa)!r}): {float(ca)!r} / {float(cb)!r}")
    return bad
