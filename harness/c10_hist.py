"""C10 helper module: *sessions* - histories of calls on one tree.

The plain stream of harness/c10.py evaluates every tree on fresh arrays and never touches a function
object after its construction. The property is quantified over all evaluation points and all
operands; what a caller really does in an optimisation loop is inside that quantifier too:

* it owns ONE point buffer, updates it in place between `evaluate` and `jac` (in every order), or
  passes a fresh array with the same content;
* it edits the public parameters of a function object after construction
  (`MDOQuadraticFunction.quad_coeffs` / `.linear_coeffs`, `MDOLinearFunction.coefficients` /
  `.value_at_zero`, `MDOFunction.func` / `.jac`) by assignment through the setter, by a whole-array
  in-place write or by writing one entry of the array returned by the getter, and goes on using
  the object alone, inside a tree built before the edit, or inside a tree built after it.

At every call the value must be the mathematically defined combination of the operands *as they are
now* at the *current content* of the buffer, and the Jacobian its exact derivative.

A session case is JSON-able:
  {"hist": true, "n": n, "tree": tree, "script": [step, ...]}
steps (leaf indices are preorder indices over all the nodes of the tree):
  {"do": "x", "p": [rats], "how": "inplace" | "fresh"}        write the point buffer
  {"do": "v" | "j" | "f"[, "on": k]}                           evaluate(x) | jac(x) | func(x) of the root, or of the
                                                               function object of node k (a sub-expression the caller
                                                               also uses on its own; same input dimension as the root)
  {"do": "set", "leaf": k, "attr": "Q"|"qb"|"A"|"b"|"polys", "how": "assign"|"assign1d"|"number"|"inplace"|"entry",
   "val": ..., "i": i, "j": j}                                 edit a public parameter of leaf k
  {"do": "rebuild"}                                            build the operations again on the same leaf objects

Trees built *before* an edit are only called again when every node between the root and the edited
leaf calls its operand at call time (operators, generic negation/offset, restriction, composition
with a linear map, concatenation, aggregations). `MDOLinearFunction.__neg__/offset/restrict/
normalize`, the Taylor polynomials and the convex linearisation copy the parameters / evaluate the
operand at construction: the property does not say what they should do after a later edit of the
operand, so the generator always rebuilds the tree in that case.
"""

from __future__ import annotations

import copy
import math
from fractions import Fraction
from typing import Any

import numpy as np

from harness import common
from harness.common import F
from harness.common import rat
from harness.c10_tree import BINOPS
from harness.c10_tree import IllShaped
from harness.c10_tree import Impl
from harness.c10_tree import PolyLeaf
from harness.c10_tree import Undefined
from harness.c10_tree import canon_jac
from harness.c10_tree import canon_value
from harness.c10_tree import children
from harness.c10_tree import fl
from harness.c10_tree import fla
from harness.c10_tree import flm
from harness.c10_tree import is_linear_object
from harness.c10_tree import oracle_eval
from harness.c10_tree import out_dim
from harness.c10_tree import share_consistent
from harness.c10_tree import shared_nodes
from harness.c10_tree import tree_tokens
from harness.c10_tree import _poly_tok
from harness.c10_tree import _rl

CALLS = ("v", "j", "f")
LEAVES = ("poly", "lin", "quad")

# --------------------------------------------------------------------------- tree walking


def walk(node: dict, n: int) -> list[tuple[dict, int]]:
    """Preorder list of (node, input dimension of the node); constants are listed too."""
    out = [(node, n)]
    op = node["op"]
    if op in BINOPS:
        out += walk(node["a"], n) + walk(node["b"], n)
    elif op == "cat":
        for a in node["args"]:
            out += walk(a, n)
    elif op == "res":
        out += walk(node["a"], node["N"])
    elif op == "lres":
        out += walk(node["a"], n + len(node["frozen"]))
    elif op == "lc":
        out += walk(node["a"], len(node["A"]))
    elif "a" in node:
        out += walk(node["a"], n)
    return out


def subtree_size(node: dict) -> int:
    return 1 + sum(subtree_size(c) for c in children(node))


def call_time_path(tree: dict, k: int) -> bool:
    """Every node strictly above the k-th node (preorder) calls its operand at call time."""
    idx = 0
    node = tree
    while idx != k:
        op = node["op"]
        nxt = None
        pos = idx + 1
        for c in children(node):
            s = subtree_size(c)
            if pos <= k < pos + s:
                nxt = (c, pos)
                break
            pos += s
        if nxt is None:
            return False
        child = nxt[0]
        if op in BINOPS or op in ("res", "lc", "cat", "agg"):
            pass
        elif op in ("neg", "offn", "offa") and not is_linear_object(child):
            pass
        else:
            return False
        node, idx = nxt
    return True


# --------------------------------------------------------------------------- generation


def _gen_set(rng, tree: dict, n: int, gens) -> dict | None:
    """A random edit of a public parameter of a random leaf."""
    nodes = walk(tree, n)
    # a leaf below a shared node is one object at several places of the description: it is not edited (the
    # description would have to change at every occurrence at once)
    in_shared = {id(nd) for nd in shared_nodes(tree)}
    leaves = [(k, nd, nn) for k, (nd, nn) in enumerate(nodes) if nd["op"] in LEAVES and id(nd) not in in_shared]
    if not leaves:
        return None
    # the class of the object first (quadratic and linear functions are the ones with public coefficient
    # arrays), then one leaf of the class
    classes = sorted({nd["op"] for _, nd, _ in leaves})
    weights = [{"quad": 4, "lin": 3, "poly": 2}[c] for c in classes]
    r = rng.random() * sum(weights)
    cls = classes[-1]
    for c, w in zip(classes, weights):
        if r < w:
            cls = c
            break
        r -= w
    k, nd, nn = rng.pick([t for t in leaves if t[1]["op"] == cls])
    op = nd["op"]
    if op == "quad":
        attr = rng.pick(["Q", "Q", "qb"])
        how = rng.pick(["assign", "assign", "inplace", "entry"])
        if attr == "Q":
            if how == "entry":
                return {"do": "set", "leaf": k, "attr": "Q", "how": "entry", "i": rng.randrange(nn), "j": rng.randrange(nn), "val": str(rng.randint(-3, 3))}
            return {"do": "set", "leaf": k, "attr": "Q", "how": how, "val": [[str(rng.randint(-2, 2)) for _ in range(nn)] for _ in range(nn)]}
        if how == "entry":
            return {"do": "set", "leaf": k, "attr": "qb", "how": "entry", "j": rng.randrange(nn), "val": str(rng.randint(-3, 3))}
        return {"do": "set", "leaf": k, "attr": "qb", "how": how, "val": [str(rng.randint(-3, 3)) for _ in range(nn)]}
    if op == "lin":
        m = len(nd["A"])
        attr = rng.pick(["A", "A", "b"])
        if attr == "A":
            how = rng.pick(["assign", "assign", "inplace", "entry"])
            if how == "entry":
                return {"do": "set", "leaf": k, "attr": "A", "how": "entry", "i": rng.randrange(m), "j": rng.randrange(nn), "val": str(rng.randint(-3, 3))}
            if how == "assign" and m == 1 and rng.chance(0.5):
                how = "assign1d"
            return {"do": "set", "leaf": k, "attr": "A", "how": how, "val": [[str(rng.randint(-3, 3)) for _ in range(nn)] for _ in range(m)]}
        how = rng.pick(["assign", "number", "inplace", "entry"])
        if how == "entry":
            return {"do": "set", "leaf": k, "attr": "b", "how": "entry", "i": rng.randrange(m), "val": str(rng.randint(-3, 3))}
        if how == "number":
            return {"do": "set", "leaf": k, "attr": "b", "how": "number", "val": str(rng.randint(-3, 3))}
        return {"do": "set", "leaf": k, "attr": "b", "how": how, "val": [str(rng.randint(-3, 3)) for _ in range(m)]}
    # user function: both callables are replaced (same output dimension, same calling style)
    new = gens["poly"](rng, nn, len(nd["polys"]), "a" if nd["style"] == "w" else nd["style"])
    return {"do": "set", "leaf": k, "attr": "polys", "how": "assign", "val": new["polys"]}


def apply_set_to_desc(tree: dict, n: int, st: dict) -> None:
    """What the edit means for the description of the tree (the parameters the caller has set)."""
    nd = walk(tree, n)[st["leaf"]][0]
    attr, how, val = st["attr"], st["how"], st["val"]
    if attr == "Q":
        if how == "entry":
            nd["Q"] = [list(r) for r in nd["Q"]]
            nd["Q"][st["i"]][st["j"]] = val
        else:
            nd["Q"] = [list(r) for r in val]
    elif attr == "qb":
        nn = len(nd["Q"])
        cur = list(nd["b"]) if nd["b"] is not None else ["0"] * nn
        if how == "entry":
            cur[st["j"]] = val
        else:
            cur = list(val)
        nd["b"] = cur
    elif attr == "A":
        if how == "entry":
            nd["A"] = [list(r) for r in nd["A"]]
            nd["A"][st["i"]][st["j"]] = val
        else:
            nd["A"] = [list(r) for r in val]
    elif attr == "b":
        if how == "entry":
            nd["b"] = list(nd["b"])
            nd["b"][st["i"]] = val
        elif how == "number":
            nd["b"] = [val] * len(nd["A"])
        else:
            nd["b"] = list(val)
    elif attr == "polys":
        nd["polys"] = copy.deepcopy(val)
        if nd.get("style") == "w":  # the new callables compute new arrays (same calling style as an array-valued function)
            nd["style"] = "a"
            nd.pop("view", None)
    else:
        raise IllShaped(f"unknown attribute {attr}")


def gen_session_case(rng, gens, max_depth: int = 3) -> dict | None:
    """`gens`: the generators of harness/c10.py ({"case", "point", "poly", "in_scope"})."""
    smooth = rng.chance(0.12)
    base = gens["case"](rng, 2 if smooth else max_depth, smooth)
    if base is None:
        return None
    n, tree = base["n"], base["tree"]
    if rng.chance(0.5):
        # quadratic functions are rare leaves of the plain generator: make one of the scalar user functions
        # a quadratic function (same input and output dimensions)
        in_shared = {id(nd) for nd in shared_nodes(tree)}
        cands = [(nd, nn) for nd, nn in walk(tree, n) if nd["op"] == "poly" and len(nd["polys"]) == 1 and nn <= 3 and id(nd) not in in_shared]
        if cands:
            nd, nn = rng.pick(cands)
            q = gens["quad"](rng, nn)
            nd.clear()
            nd.update(q)
    desc = copy.deepcopy(tree)
    script: list[dict] = []

    def good_point(equal_to: list[str] | None = None) -> list[str] | None:
        cands = [gens["point"](rng, n) for _ in range(6)]
        ok = gens["in_scope"](desc, n, cands)
        if equal_to is not None:
            ok = [p for p in ok if p != equal_to] or ok
        return ok[0] if ok else None

    p = good_point()
    if p is None:
        return None
    cur = p
    script.append({"do": "x", "p": p, "how": "fresh"})
    length = rng.randint(7, 14)
    with_sets = rng.chance(0.6)
    last_call = None
    while len(script) < length:
        r = rng.random()
        if script[-1]["do"] == "x" and r < 0.42:
            r = 0.42 + rng.random() * 0.5  # a written buffer is used (or a parameter is edited) before the next write
        if r < 0.30:
            q = good_point(cur)
            if q is None:
                break
            script.append({"do": "x", "p": q, "how": "inplace"})
            cur = q
        elif r < 0.36:
            # another array object with the same content
            script.append({"do": "x", "p": list(cur), "how": "fresh"})
        elif r < 0.42:
            q = good_point(cur)
            if q is None:
                break
            script.append({"do": "x", "p": q, "how": "fresh"})
            cur = q
        elif r < 0.82 or not with_sets:
            # alternate the kinds of calls more often than not
            kind = rng.pick(["v", "j", "j", "f"] if last_call in ("v", "f") else ["v", "v", "j", "f"] if last_call == "j" else ["v", "j"])
            st = {"do": kind}
            if rng.chance(0.2):
                # a sub-expression that the caller also uses on its own, with the same buffer
                inner = [k for k, (nd, nn) in enumerate(walk(desc, n)) if k > 0 and nn == n and nd["op"] not in ("num", "arr")
                         and not gens["smooth"](desc)]
                inner = [k for k in inner if gens["in_scope"](walk(desc, n)[k][0], n, [cur])]
                if inner:
                    st["on"] = rng.pick(inner)
            script.append(st)
            last_call = kind
        else:
            st = _gen_set(rng, desc, n, gens)
            if st is None:
                with_sets = False
                continue
            trial = copy.deepcopy(desc)
            apply_set_to_desc(trial, n, st)
            try:
                out_dim(trial, n)
            except IllShaped:
                continue
            desc = trial
            script.append(st)
            if not call_time_path(desc, st["leaf"]) or rng.chance(0.4):
                script.append({"do": "rebuild"})
            if not gens["in_scope"](desc, n, [cur]) or any(
                "on" in s_ and not gens["in_scope"](walk(desc, n)[s_["on"]][0], n, [cur]) for s_ in script
            ):
                q = good_point()
                if q is None:
                    break
                script.append({"do": "x", "p": q, "how": rng.pick(["inplace", "fresh"])})
                cur = q
    if not any(s["do"] in CALLS for s in script):
        return None
    return {"hist": True, "n": n, "tree": tree, "script": script}


def script_patterns(case: dict) -> set[str]:
    """The history shapes of the script (for the input-distribution histogram): for every pair of
    successive calls, what happened in between."""
    pats: set[str] = set()
    last_call = None  # kind of the last call
    since: set[str] = set()  # what happened since the last call
    pending_set = False
    for st in case["script"]:
        d = st["do"]
        if d in CALLS:
            if pending_set:
                since.add("set(tree-kept)")
                pending_set = False
            k = "jac" if d == "j" else "evaluate"
            if last_call is not None:
                lk = "jac" if last_call == "j" else "evaluate"
                pats.add(f"{lk} ; {'+'.join(sorted(since)) or 'nothing'} ; {k}")
            last_call = d
            since = set()
        elif d == "x":
            since.add("x-inplace" if st["how"] == "inplace" else "x-fresh")
        elif d == "set":
            if pending_set:
                since.add("set(tree-kept)")
            pending_set = True
        elif d == "rebuild":
            if pending_set:
                since.add("set(tree-rebuilt)")
                pending_set = False
    return pats


# --------------------------------------------------------------------------- implementation side


def _readback(obj, op: str) -> dict:
    """Current public parameters of a leaf object, exactly."""
    if op == "quad":
        return {
            "Q": [[rat(F(float(t))) for t in r] for r in np.asarray(obj.quad_coeffs, dtype=float)],
            "b": [rat(F(float(t))) for t in np.asarray(obj.linear_coeffs, dtype=float).ravel()],
        }
    if op == "lin":
        return {
            "A": [[rat(F(float(t))) for t in r] for r in np.atleast_2d(np.asarray(obj.coefficients, dtype=float))],
            "b": [rat(F(float(t))) for t in np.asarray(obj.value_at_zero, dtype=float).ravel()],
        }
    return {}


def _do_set(obj, nd: dict, st: dict, guard, tag: str) -> None:
    attr, how, val = st["attr"], st["how"], st["val"]
    if attr == "Q":
        if how == "assign":
            obj.quad_coeffs = flm(val)
        elif how == "inplace":
            obj.quad_coeffs[...] = flm(val)
        else:
            obj.quad_coeffs[st["i"], st["j"]] = fl(val)
    elif attr == "qb":
        if how == "assign":
            obj.linear_coeffs = fla(val)
        elif how == "inplace":
            obj.linear_coeffs[...] = fla(val)
        else:
            obj.linear_coeffs[0, st["j"]] = fl(val)
    elif attr == "A":
        if how == "assign":
            obj.coefficients = flm(val)
        elif how == "assign1d":
            obj.coefficients = fla(val[0])
        elif how == "inplace":
            obj.coefficients[...] = flm(val)
        else:
            obj.coefficients[st["i"], st["j"]] = fl(val)
    elif attr == "b":
        if how == "assign":
            obj.value_at_zero = fla(val)
        elif how == "number":
            obj.value_at_zero = fl(val)
        elif how == "inplace":
            obj.value_at_zero[...] = fla(val)
        else:
            obj.value_at_zero[st["i"]] = fl(val)
    elif attr == "polys":
        leaf = PolyLeaf({"polys": val, "style": "a" if nd["style"] == "w" else nd["style"]}, tag, guard)
        obj.func = leaf.func
        obj.jac = leaf.jac
    else:
        raise IllShaped(attr)


def observe_session(case: dict) -> dict:
    """Play the script on the real objects. One record per step."""
    n = case["n"]
    tree = copy.deepcopy(case["tree"])  # the description the objects are built from (ids are the keys of the leaves)
    obs: dict[str, Any] = {"steps": []}
    try:
        impl = Impl(tree, n)
    except (IllShaped, Undefined):
        raise
    except Exception as e:  # noqa: BLE001
        obs["build_exc"] = common.exc_class(e) + ": " + repr(e)[:200]
        return obs
    nodes = walk(tree, n)
    x: np.ndarray | None = None
    x_expected: np.ndarray | None = None
    held: list[tuple[int, str, np.ndarray, np.ndarray]] = []  # results returned so far: (step, kind, array, copy)
    kept: list[tuple[int, np.ndarray, np.ndarray]] = []  # values returned by the root (evaluate/func) outside the buffer
    for k, st in enumerate(case["script"]):
        rec: dict[str, Any] = {}
        d = st["do"]
        if d == "x":
            vals = np.array([float(Fraction(t)) for t in st["p"]])
            if st["how"] == "inplace" and x is not None:
                x[:] = vals
            else:
                x = vals
            x_expected = x.copy()
        elif d in CALLS:
            try:
                target = impl.root if not st.get("on") else impl.object_of(nodes[st["on"]][0])
                if d == "v":
                    out = target.evaluate(x)
                elif d == "f":
                    out = target.func(x)
                else:
                    out = target.jac(x)
                rec["got"] = canon_jac(out) if d == "j" else canon_value(out)
                if d != "j" and not st.get("on"):
                    # storage pattern of the values returned by the root (compared with `Hist` of the model)
                    in_buf = isinstance(out, np.ndarray) and bool(np.shares_memory(out, x))
                    rec["in_buffer"] = in_buf
                    if not in_buf:
                        arr = out if isinstance(out, np.ndarray) and out.dtype != object else np.atleast_1d(np.array(out, dtype=float))
                        rec["shares_with"] = [ks for ks, a_, _ in kept if np.shares_memory(arr, a_)]
                        kept.append((k, arr, arr.copy()))
                    else:
                        rec["shares_with"] = []
                    rec["kept_changed"] = [ks for ks, a_, ref in kept if a_.shape != ref.shape or not np.array_equal(a_, ref, equal_nan=True)]
                if isinstance(out, np.ndarray) and out.dtype != object:
                    if np.shares_memory(out, x):
                        # the function returned (a view of) the caller's own buffer - a user function x -> x[...] called
                        # directly: the caller changes that array itself when it updates the buffer in place
                        rec["result_is_callers_buffer"] = True
                    else:
                        held.append((k, d, out, out.copy()))
            except Exception as e:  # noqa: BLE001
                rec["exc"] = common.exc_class(e) + ": " + repr(e)[:160]
            if not np.array_equal(x, x_expected):
                rec["x_modified"] = [float(t) for t in x]
                x[:] = x_expected
            rec["modified"] = impl.modified_operands()
            over = [f"the array returned by {'jac' if kk == 'j' else 'evaluate'} at step {ks}" for ks, kk, arr, ref in held
                    if arr.shape != ref.shape or not np.array_equal(arr, ref, equal_nan=True)]
            if over:
                rec["overwritten"] = over
                held = [(ks, kk, arr, arr.copy()) for ks, kk, arr, _ in held]
        elif d == "set":
            nd = nodes[st["leaf"]][0]
            obj = impl.leaf_objs[id(nd)]
            pre = impl.modified_operands()
            if pre:
                rec["modified"] = pre
            try:
                _do_set(obj, nd, st, impl.guard, f"{nd['op']}@{st['leaf']}")
            except Exception as e:  # noqa: BLE001
                rec["exc"] = common.exc_class(e) + ": " + repr(e)[:160]
            rec["readback"] = _readback(obj, nd["op"])
            impl.resnap()
            held = []  # a Jacobian returned earlier may legitimately BE a coefficient array
        elif d == "rebuild":
            try:
                impl = Impl(tree, n, reuse=impl)
            except Exception as e:  # noqa: BLE001
                rec["exc"] = common.exc_class(e) + ": " + repr(e)[:160]
                obs["steps"].append(rec)
                break
            held = []
        obs["steps"].append(rec)
    return obs


# --------------------------------------------------------------------------- oracle


def descs_of(case: dict, obs: dict | None) -> list[dict]:
    """The description of the tree in force at every step: the parameters are those the public getters
    return after each edit (for user callables: the polynomials the caller has installed)."""
    n = case["n"]
    desc = copy.deepcopy(case["tree"])
    out = []
    for k, st in enumerate(case["script"]):
        if st["do"] == "set":
            desc = copy.deepcopy(desc)
            nd = walk(desc, n)[st["leaf"]][0]
            rb = None
            if obs is not None and k < len(obs.get("steps", [])):
                rb = obs["steps"][k].get("readback")
            if rb:
                for key, v in rb.items():
                    nd[key] = v
            else:
                apply_set_to_desc(desc, n, st)
        out.append(desc)
    return out


def judge_session(case: dict, obs: dict, expect, res=None) -> list[tuple[str, str]]:
    """Property clauses violated on this session.

    `expect(desc, x) -> (values, jacobian | None, close, bounds | None)` is the oracle of harness/c10.py for a
    tree description at an exact point: exact dual numbers (compared exactly when every float intermediate is
    representable, within 2^-40 x majorant otherwise), mpmath references for KS/IKS roots; `close(float, expected)
    -> (ok, exact)`; `bounds(float)` the documented-side clauses of the smooth maxima."""
    if "build_exc" in obs:
        return [("raises-build", f"building the function raised {obs['build_exc']}")]
    n = case["n"]
    bad: list[tuple[str, str]] = []
    descs = descs_of(case, obs)
    cur: list[str] | None = None
    hist: list[str] = []
    for k, (st, rec) in enumerate(zip(case["script"], obs["steps"])):
        d = st["do"]
        if d == "x":
            cur = st["p"]
            hist.append(("x[:]=" if st["how"] == "inplace" else "x=array") + "(" + ",".join(st["p"]) + ")")
            continue
        if d == "rebuild":
            hist.append("rebuild")
            if "exc" in rec:
                bad.append(("raises-build", f"building the tree again raised {rec['exc']}"))
            continue
        if d == "set":
            hist.append(f"set {st['attr']} of node {st['leaf']} ({st['how']})")
            if rec.get("modified"):
                bad.append(("operand-modified", "modified in place: " + "; ".join(sorted(set(rec["modified"]))[:3])))
            continue
        name = {"v": "evaluate", "f": "func", "j": "jac"}[d] + (f"[node {st['on']}]" if st.get("on") else "")
        hist.append(name)
        where = f"step {k} ({name} after " + (" ; ".join(hist[-6:-1]) or "nothing") + f") at x={cur}"
        target = descs[k] if not st.get("on") else walk(descs[k], n)[st["on"]][0]
        try:
            exp_v, exp_j, close, bounds = expect(target, [Fraction(t) for t in cur])
        except Undefined:
            continue
        m = len(exp_v)
        if "exc" in rec:
            bad.append(("raises-" + ("jac" if d == "j" else "evaluate"), f"{where}: raised {rec['exc']}"))
        elif d in ("v", "f"):
            got = rec["got"]
            if len(got) != m:
                bad.append(("value-shape", f"{where}: {len(got)} components, the combination has {m}"))
            else:
                for i, (g, e) in enumerate(zip(got, exp_v)):
                    ok, exact = close(g, e)
                    if res is not None:
                        res.count("compared-exactly" if exact else "compared-rounded")
                    if not ok:
                        bad.append(("value", f"{where}: component {i} is {g!r}, mathematically {_show(e)} with the current operands"))
                        break
                if bounds is not None:
                    for key, msg in bounds(got[0]):
                        bad.append((key, f"{where}: {msg}"))
        elif exp_j is not None:
            got = rec["got"]
            if len(got) != m or any(len(r) != n for r in got):
                bad.append(("jac-shape", f"{where}: shape {len(got)}x{len(got[0]) if got else 0}, expected {m}x{n}"))
            else:
                stop = False
                for i in range(m):
                    for j in range(n):
                        ok, exact = close(got[i][j], exp_j[i][j])
                        if res is not None:
                            res.count("compared-exactly" if exact else "compared-rounded")
                        if not ok:
                            bad.append(("jac", f"{where}: entry [{i}][{j}] is {got[i][j]!r}, the exact derivative of the current combination is {_show(exp_j[i][j])}"))
                            stop = True
                            break
                    if stop:
                        break
        if "x_modified" in rec:
            bad.append(("operand-modified", f"{where}: the caller's point buffer was modified: {rec['x_modified']}"))
        if rec.get("modified"):
            bad.append(("operand-modified", f"{where}: modified in place: " + "; ".join(sorted(set(rec["modified"]))[:3])))
        if rec.get("overwritten"):
            bad.append(("result-overwritten", f"{where}: a later call changed {rec['overwritten'][0]}"))
    seen = set()
    out = []
    for key, msg in bad:
        if key not in seen:
            seen.add(key)
            out.append((key, msg))
    return out


def _show(e) -> str:
    if isinstance(e, tuple):  # (mpf reference, tolerance) of a smooth aggregation
        return str(e[0])
    v = e.v
    return rat(v) if v.denominator < 10**6 else f"{float(v)!r}"


def is_history(case: dict) -> bool:
    """The script is more than one call on a fresh array."""
    sc = case["script"]
    return sum(1 for s in sc if s["do"] in CALLS) > 1 or any(s["do"] in ("set", "rebuild") for s in sc) or sum(1 for s in sc if s["do"] == "x") > 1


# --------------------------------------------------------------------------- shrinking


def _valid(case: dict) -> bool:
    sc = case["script"]
    if not sc or sc[0]["do"] != "x" or not any(s["do"] in CALLS for s in sc):
        return False
    try:
        out_dim(case["tree"], case["n"])
        if not share_consistent(case["tree"]):
            return False
        nodes = walk(case["tree"], case["n"])
        in_shared = {id(nd) for nd in shared_nodes(case["tree"])}
        if any(s["do"] == "set" and 0 <= s["leaf"] < len(nodes) and id(nodes[s["leaf"]][0]) in in_shared for s in sc):
            return False
        desc = copy.deepcopy(case["tree"])
        stale = False
        for s in sc:
            if s["do"] == "set":
                if not 0 <= s["leaf"] < len(nodes) or nodes[s["leaf"]][0]["op"] not in LEAVES:
                    return False
                apply_set_to_desc(desc, case["n"], s)
                out_dim(desc, case["n"])
                if not call_time_path(desc, s["leaf"]):
                    stale = True
            elif s["do"] == "rebuild":
                stale = False
            elif s["do"] in CALLS and stale:
                return False  # a tree with construction-time copies of an edited operand: outside the scope
            elif s["do"] in CALLS and s.get("on"):
                if not 0 < s["on"] < len(nodes) or nodes[s["on"]][1] != case["n"] or nodes[s["on"]][0]["op"] in ("num", "arr"):
                    return False
    except (IllShaped, KeyError, IndexError):
        return False
    return True


def shrink_session(case: dict, clause: str, fails, local_point, budget: int = 80) -> tuple[dict, str]:
    """Drop steps, then descend into the operand whose own session fails, until nothing changes."""
    cur = copy.deepcopy(case)
    calls = 0

    def try_(c) -> bool:
        nonlocal calls
        if not _valid(c):
            return False
        calls += 1
        return bool(fails(c, clause))

    changed = True
    while changed and calls < budget:
        changed = False
        # 1. truncate after the first failing call, then drop steps from the end
        for i in range(len(cur["script"]) - 1, 0, -1):
            if calls >= budget:
                break
            c = dict(cur, script=cur["script"][:i] + cur["script"][i + 1 :])
            if try_(c):
                cur = c
                changed = True
        # 2. descend into a child
        tree, n = cur["tree"], cur["n"]
        pos = 1
        for ci, ch in enumerate(children(tree)):
            size = subtree_size(ch)
            lo, hi = pos, pos + size
            pos = hi
            if ch["op"] in ("num", "arr") or tree["op"] in ("t1", "t2", "cl", "nrm", "lres"):
                continue
            script = []
            cn = None
            ok = True
            for s in cur["script"]:
                if s["do"] == "x":
                    lp = local_point(tree, ci, [Fraction(t) for t in s["p"]])
                    if lp is None:
                        ok = False
                        break
                    cn = lp[0]
                    script.append(dict(s, p=[rat(t) for t in lp[1]]))
                elif s["do"] == "set":
                    if lo <= s["leaf"] < hi:
                        script.append(dict(s, leaf=s["leaf"] - lo))
                elif s["do"] in CALLS and s.get("on"):
                    # a call on an inner node keeps its meaning only if the child receives the buffer itself
                    if lo <= s["on"] < hi and (tree["op"] in BINOPS or tree["op"] in ("neg", "offn", "offa", "cat", "agg")):
                        script.append({k_: v_ for k_, v_ in s.items() if k_ != "on"} if s["on"] == lo else dict(s, on=s["on"] - lo))
                else:
                    script.append(s)
            if not ok or cn is None:
                continue
            c = {"hist": True, "n": cn, "tree": ch, "script": script}
            if not _valid(c):
                continue
            calls += 1
            sub_bad = fails(c, None)
            if sub_bad:
                cur = c
                if not any(kk == clause for kk, _ in sub_bad):
                    clause = sub_bad[0][0]
                changed = True
                break
    return cur, clause


# --------------------------------------------------------------------------- Lean driver lines


def _has_smooth(node: dict) -> bool:
    return (node["op"] == "agg" and node["kind"] in ("uks", "lks", "iks")) or any(_has_smooth(c) for c in children(node))


def _leaf_new_line(k: int, nd: dict, nn: int) -> str:
    op = nd["op"]
    if op == "quad":
        return " ".join(["newQ", str(k), str(nn), *[_rl(r) for r in nd["Q"]], "_" if nd["b"] is None else _rl(nd["b"]), rat(Fraction(nd["c"]))])
    if op == "lin":
        return " ".join(["newL", str(k), str(len(nd["A"])), *[_rl(r) for r in nd["A"]], _rl(nd["b"])])
    return " ".join(["newP", str(k), str(nn), str(len(nd["polys"])), *[_poly_tok(p) for p in nd["polys"]]])


def session_lines(case: dict) -> tuple[list[str], list[tuple[int, int]]]:
    """Protocol lines of the session and, for every step, the span of its lines.

    Every leaf that is edited at some step is registered as an object (`U <id>` in the trees); the
    other leaves stay literal."""
    n = case["n"]
    tree = copy.deepcopy(case["tree"])
    nodes = walk(tree, n)
    edited = sorted({s["leaf"] for s in case["script"] if s["do"] == "set"})
    # a leaf object used at several places of the tree ("share" key) is ONE registered object of the model's session,
    # referred to by `U <id>` at every occurrence
    shared_first: dict[Any, int] = {}
    for k, (nd, nn) in enumerate(nodes):
        if nd.get("share") is not None and nd["op"] in LEAVES:
            shared_first.setdefault(nd["share"], k)
    lines = ["sess"]
    for k in sorted(set(edited) | set(shared_first.values())):
        nd, nn = nodes[k]
        lines.append(_leaf_new_line(k, nd, nn))
        nd["uref"] = k
    for nd, nn in nodes:
        if nd.get("share") in shared_first and nd["op"] in LEAVES:
            nd["uref"] = shared_first[nd["share"]]
    call_line = " ".join(["call", str(n), *tree_tokens(tree, n)])
    spans = []
    smooth = _has_smooth(tree)
    for st in case["script"]:
        a = len(lines)
        d = st["do"]
        if d == "x":
            lines.append("x " + _rl(st["p"]))
        elif d in CALLS:
            if smooth and not st.get("on"):
                pass  # KS/IKS are not in the executable model (rounded oracle only)
            else:
                lines.append(call_line if not st.get("on") else " ".join(["call", str(n), *tree_tokens(nodes[st["on"]][0], n)]))
        elif d == "set":
            k, attr, how, val = st["leaf"], st["attr"], st["how"], st["val"]
            nd, nn = nodes[k]
            if attr == "Q":
                if how == "assign":
                    lines.append(" ".join(["setQ", str(k), str(len(val)), *[_rl(r) for r in val]]))
                elif how == "inplace":
                    lines += [f"edQ {k} {i} {j} {rat(Fraction(v))}" for i, r in enumerate(val) for j, v in enumerate(r)]
                else:
                    lines.append(f"edQ {k} {st['i']} {st['j']} {rat(Fraction(val))}")
            elif attr == "qb":
                if how == "assign":
                    lines.append(f"setQb {k} {_rl(val)}")
                elif how == "inplace":
                    lines += [f"edQb {k} {j} {rat(Fraction(v))}" for j, v in enumerate(val)]
                else:
                    lines.append(f"edQb {k} {st['j']} {rat(Fraction(val))}")
            elif attr == "A":
                if how in ("assign", "assign1d"):
                    lines.append(" ".join(["setLA", str(k), str(len(val)), *[_rl(r) for r in val]]))
                elif how == "inplace":
                    lines += [f"edLA {k} {i} {j} {rat(Fraction(v))}" for i, r in enumerate(val) for j, v in enumerate(r)]
                else:
                    lines.append(f"edLA {k} {st['i']} {st['j']} {rat(Fraction(val))}")
            elif attr == "b":
                if how == "assign":
                    lines.append(f"setLb {k} {_rl(val)}")
                elif how == "number":
                    lines.append(f"setLbn {k} {rat(Fraction(val))}")
                elif how == "inplace":
                    lines += [f"edLb {k} {i} {rat(Fraction(v))}" for i, v in enumerate(val)]
                else:
                    lines.append(f"edLb {k} {st['i']} {rat(Fraction(val))}")
            else:
                lines.append(" ".join(["setP", str(k), str(nn), str(len(val)), *[_poly_tok(p) for p in val]]))
        # "rebuild": the model has no such operation - a tree is the expression on the current objects
        spans.append((a, len(lines)))
    return lines, spans


# --------------------------------------------------------------------------- storage histories (`Hist` of the model)


def store_tokens(node: dict, n: int) -> list[str] | None:
    """The tree in the `stree` syntax of Driver/C10.lean, None outside the fragment of `SExpr` (user functions
    returning views or new arrays; restriction, linear composition, the four operators between functions, generic
    negation, concatenation)."""
    from harness.c10_tree import view_indices

    op = node["op"]
    if op == "poly":
        if node.get("style") == "w":
            return ["W", ",".join(str(i) for i in view_indices(n, node["view"]))]
        return ["P", str(len(node["polys"])), *[_poly_tok(p) for p in node["polys"]]]
    if op in BINOPS:
        if node["b"]["op"] in ("num", "arr"):
            return None
        a, b = store_tokens(node["a"], n), store_tokens(node["b"], n)
        return None if a is None or b is None else [op, *a, *b]
    if op == "neg":
        a = store_tokens(node["a"], n)
        return None if a is None else ["neg", *a]
    if op == "res":
        a = store_tokens(node["a"], node["N"])
        return None if a is None else ["res", str(node["N"]), ",".join(map(str, node["frozen"])), _rl(node["values"]), *a]
    if op == "lc":
        a = store_tokens(node["a"], len(node["A"]))
        return None if a is None else ["lc", str(len(node["A"])), *[_rl(r) for r in node["A"]], *a]
    if op == "cat":
        parts = [store_tokens(a, n) for a in node["args"]]
        if any(p is None for p in parts):
            return None
        return ["cat", str(len(parts)), *[t for p in parts for t in p]]
    return None


def store_lines(case: dict) -> tuple[list[str], list[int]] | None:
    """Lines of the storage history of a session (buffer writes and evaluate/func calls of the root) and the steps of
    the `hc` lines, None when the session is outside the storage model (other node kinds, edited parameters)."""
    n = case["n"]
    sc = case["script"]
    if any(s["do"] in ("set", "rebuild") for s in sc) or not sc or sc[0]["do"] != "x":
        return None
    toks = store_tokens(case["tree"], n)
    if toks is None:
        return None
    call = " ".join(["hc", str(n), *toks])
    lines, steps = [], []
    for k, st in enumerate(sc):
        if st["do"] == "x":
            lines.append(("hs " if k == 0 else "hw ") + _rl(st["p"]))
        elif st["do"] in ("v", "f") and not st.get("on"):
            lines.append(call)
            steps.append(k)
    return (lines, steps) if steps else None


def compare_store_with_model(case: dict, obs: dict, lines: list[str], steps: list[int], answers: list[str], close, Q) -> list[str]:
    """Storage pattern of the returned values: model (`Hist.step`) against the real arrays.

    For every evaluate/func call of the root: is the returned array (a view of) the caller's buffer, which earlier
    returned arrays does it share storage with, and which of the kept arrays no longer show the numbers they showed
    when they were returned (the model: never - `kept_results_keep_their_values`)."""
    diffs: list[str] = []
    calls = [a for ln, a in zip(lines, answers) if ln.startswith("hc ")]
    model_v: list[list[Fraction]] = []
    model_kept_steps: list[int] = []
    for i, (k, ans) in enumerate(zip(steps, calls)):
        rec = obs["steps"][k] if k < len(obs.get("steps", [])) else {}
        if "exc" in rec or "in_buffer" not in rec:
            diffs.append(f"step {k}: the call raised or was not observed ({rec.get('exc')}), model {ans}")
            break
        parts = dict(t.split("=", 1) for t in ans.split(" ") if "=" in t)
        if set(parts) != {"v", "buf", "shares", "kept"}:
            diffs.append(f"step {k}: model answers {ans}")
            break
        v = [] if parts["v"] == "[]" else [Fraction(t) for t in parts["v"].split(",")]
        model_v.append(v)
        cur = next(s_["p"] for s_ in reversed(case["script"][:k]) if s_["do"] == "x")
        try:
            exp_v, _, _ = oracle_eval(case["tree"], [Fraction(t) for t in cur])
        except Undefined:
            exp_v = None
        got = rec.get("got")
        if exp_v is not None:
            if got is None or len(got) != len(v):
                diffs.append(f"step {k}: value at {cur}: code {got}, storage model {[rat(t) for t in v]}")
            else:
                for i_, (g, e) in enumerate(zip(got, v)):
                    sc_ = exp_v[i_] if i_ < len(exp_v) else Q(e)
                    if not close(g, Q(e, sc_.m, sc_.d))[0]:
                        diffs.append(f"step {k}: value[{i_}] at {cur}: code {g!r}, storage model {rat(e)}")
                        break
        m_buf = parts["buf"] == "1"
        if m_buf != rec["in_buffer"]:
            diffs.append(f"step {k}: the returned array {'is' if rec['in_buffer'] else 'is not'} (a view of) the caller's buffer, model: {'is' if m_buf else 'is not'}")
        m_shares = [] if parts["shares"] == "-" else [steps[int(t)] for t in parts["shares"].split(",")]
        if sorted(m_shares) != sorted(rec.get("shares_with", [])):
            diffs.append(f"step {k}: the returned array shares its storage with the arrays returned at steps {rec.get('shares_with')}, model: {m_shares}")
        if not m_buf:
            model_kept_steps.append(k)
        now = [] if parts["kept"] == "-" else [([] if u == "[]" else [Fraction(t) for t in u.split(",")]) for u in parts["kept"].split(";")]
        m_changed = [ks for ks, cur in zip(model_kept_steps, now) if cur != model_v[steps.index(ks)]]
        if sorted(m_changed) != sorted(rec.get("kept_changed", [])):
            diffs.append(f"step {k}: the arrays returned at steps {rec.get('kept_changed')} no longer show the values they were returned with, model: {m_changed}")
    return diffs


def parse_obj(ans: str) -> dict | None:
    """`obj <id> Q Q=<rows> b=<b> c=<c>` | `obj <id> L A=<rows> b=<b>` -> parameters as rat strings."""
    t = ans.split(" ")
    if len(t) < 3 or t[0] != "obj":
        return None

    def rows(s):
        return [] if s == "[]" else [[rat(Fraction(u)) for u in r.split(",")] if r != "[]" else [] for r in s.split(";")]

    def lst(s):
        return [] if s == "[]" else [rat(Fraction(u)) for u in s.split(",")]

    if t[2] == "Q":
        return {"Q": rows(t[3][2:]), "b": lst(t[4][2:])}
    if t[2] == "L":
        return {"A": rows(t[3][2:]), "b": lst(t[4][2:])}
    if t[2] == "P":
        return {}
    return None


def compare_session_with_model(case: dict, obs: dict, answers: list[str], spans, close, parse_model, Q) -> list[str]:
    """Differences between the real objects and the model on the session (calls and parameter states)."""
    diffs: list[str] = []
    n = case["n"]
    descs = descs_of(case, obs)
    cur = None
    for k, (st, rec, (a, b)) in enumerate(zip(case["script"], obs["steps"], spans)):
        d = st["do"]
        if d == "x":
            cur = st["p"]
            continue
        if d == "rebuild" or b <= a:
            continue
        ans = answers[b - 1]
        if d == "set":
            if st["attr"] == "polys":
                continue
            mod = parse_obj(ans)
            rb = rec.get("readback") or {}
            if mod is None:
                diffs.append(f"step {k}: model answers {ans}")
                continue
            for key in rb:
                mv = mod.get(key)
                if mv != rb[key]:
                    diffs.append(f"step {k}: after `{st['attr']}` ({st['how']}) the public attribute {key} is {rb[key]}, model {mv}")
            continue
        target = descs[k] if not st.get("on") else walk(descs[k], n)[st["on"]][0]
        try:
            exp_v, exp_j, _ = oracle_eval(target, [Fraction(t) for t in cur])
        except Undefined:
            continue
        mod = parse_model(ans)
        if isinstance(mod, str):
            diffs.append(f"step {k}: model answers {mod}")
            continue
        mv, mj = mod
        got = rec.get("got")
        if d in ("v", "f"):
            if got is None or len(got) != len(mv):
                diffs.append(f"step {k}: value at {cur}: code {got if got is not None else rec.get('exc')}, model {[rat(t) for t in mv]}")
            else:
                for i, (g, e) in enumerate(zip(got, mv)):
                    sc = exp_v[i] if i < len(exp_v) else Q(e)
                    if not close(g, Q(e, sc.m, sc.d))[0]:
                        diffs.append(f"step {k}: value[{i}] at {cur}: code {g!r}, model {rat(e)}")
                        break
        elif exp_j is not None:
            if got is None or len(got) != len(mj) or any(len(r1) != len(r2) for r1, r2 in zip(got, mj)):
                diffs.append(f"step {k}: jacobian at {cur}: code {got if got is not None else rec.get('exc')}, model {[[rat(t) for t in r] for r in mj]}")
            else:
                done = False
                for i, (ra, rb_) in enumerate(zip(got, mj)):
                    for j, (g, e) in enumerate(zip(ra, rb_)):
                        sc = exp_j[i][j] if i < len(exp_j) and j < len(exp_j[i]) else Q(e)
                        if not close(g, Q(e, sc.m, sc.d))[0]:
                            diffs.append(f"step {k}: jacobian[{i}][{j}] at {cur}: code {g!r}, model {rat(e)}")
                            done = True
                            break
                    if done:
                        break
    return diffs


def finite(x) -> bool:
    return isinstance(x, float) and math.isfinite(x)
