"""C03 — drivers respect the evaluation budget and always return a result.

Two correspondence streams, both traced at the level of the preprocessed problem functions
(harness-side wrappers around ProblemFunction._compute_{output,jacobian}_db[_norm] log every
request with its physical key, its outcome and the counter/database sizes after it):
 (i)  a *scripted driver* (harness/c03_lib.py) replaying generated request scripts through the real
      BaseOptimizationLibrary.execute (budgets, NaN-producing functions, store_jacobian, normalization,
      repeated executions with/without counter reset);
 (ii) *trace validation* of the real optimisation and DOE algorithms of the factories.
Every traced request sequence is replayed in the Lean model (Driver/C03.lean), which must reproduce
each outcome and the counter/database sizes.  Oracle (property text): new non-empty entries <= N,
distinct points at which original value functions ran <= N (+1 for a NaN stop), execute returns a
result, DOE samples evaluated once and recorded in generation order.
"""

from __future__ import annotations

import contextlib
import json
import math
from fractions import Fraction
from typing import Any

import numpy as np

from harness import common
from harness.common import Result

PID = "C03"
TRUSTED_EXTRA = (
    "C03: the optimisers' internals (SciPy, NLopt, ...) are not modelled: only the request traces they issue are validated against the model",
    "C03: wall-clock time limit and tolerance testers are adversarial inputs of the model; the harness feeds the model the termination it observed",
)



def pre_lean(ctx) -> None:
    """Translator: regenerate lean/GemseoVerif/Gen/C03Term.lean (termination-exception table) from the sources."""
    from harness import translate_c03

    ctx.term_table = translate_c03.write()


COMPOSITE = {"MultiStart", "Augmented_Lagrangian_order_0", "Augmented_Lagrangian_order_1", "MNBI"}
LINEAR_ONLY = {"DUAL_SIMPLEX", "INTERIOR_POINT", "Scipy_MILP"}

# --------------------------------------------------------------------------- tracing


class Tracer:
    """Log every request made to a preprocessed problem function (database on)."""

    def __init__(self):
        self.events: list[dict[str, Any]] = []
        self.calls: list[tuple[str, str, tuple]] = []  # original callables: (name, kind, point)
        self._depth_jac = 0
        self._stack = []
        self._saved = {}

    def install(self):
        from gemseo.algos.problem_function import ProblemFunction as PF

        tracer = self
        for meth, kind, norm in (
            ("_compute_output_db", "v", False),
            ("_compute_output_db_norm", "v", True),
            ("_compute_jacobian_db", "j", False),
            ("_compute_jacobian_db_norm", "j", True),
        ):
            orig = getattr(PF, meth)
            self._saved[meth] = orig

            def wrapper(self_pf, x, _orig=orig, _kind=kind, _norm=norm):
                key = None
                for _attempt in (0, 1):
                    # (second attempt: a wrapped optimiser may call back with a stale Python error indicator set —
                    # seen with the NLopt binding after a termination criterion raised in the previous callback —
                    # which the first C call that checks it consumes and re-raises)
                    try:
                        xu = self_pf._unnormalize_vect(x) if _norm else x
                        key = tuple(float(t) for t in np.asarray(xu).real)
                        break
                    except Exception:  # noqa: BLE001
                        key = None

                def snapshot(ev):
                    ev["cur"] = self_pf._evaluation_counter.current
                    db = self_pf._database
                    ev["len"] = len(db)
                    ev["nonempty"] = sum(1 for v in db.values() if v)

                # a request issued from a new-iteration listener is nested in its parent request:
                # the parent has computed and stored by then; freeze the parent's observation now
                if tracer._stack:
                    parent, psnap = tracer._stack[-1]
                    if "outcome" not in parent:
                        parent["outcome"] = "computed"
                        parent["called"] = True
                        psnap(parent)
                n0 = len(tracer.calls)
                ev = {"name": self_pf.name, "kind": _kind, "key": key}
                try:
                    ev["cur_before"] = self_pf._evaluation_counter.current
                    ev["max"] = self_pf._evaluation_counter.maximum
                    ev["seen_before"] = bool(self_pf._database.get(self_pf._database.get_hashable_ndarray(np.asarray(xu))))
                except Exception:  # noqa: BLE001
                    ev["seen_before"] = None
                tracer.events.append(ev)  # request order
                tracer._stack.append((ev, snapshot))
                if _kind == "j":
                    tracer._depth_jac += 1
                try:
                    out = _orig(self_pf, x)
                    if "outcome" not in ev:
                        ev["outcome"] = "computed" if len(tracer.calls) > n0 else "served"
                    return out
                except Exception as e:  # noqa: BLE001
                    if "outcome" not in ev:
                        ev["outcome"] = "stop:" + type(e).__name__
                    raise
                finally:
                    tracer._stack.pop()
                    if _kind == "j":
                        tracer._depth_jac -= 1
                    if "called" not in ev:
                        ev["called"] = len(tracer.calls) > n0
                    if "cur" not in ev:
                        snapshot(ev)

            setattr(PF, meth, wrapper)

    def uninstall(self):
        from gemseo.algos.problem_function import ProblemFunction as PF

        for meth, orig in self._saved.items():
            setattr(PF, meth, orig)
        self._saved.clear()

    def log_call(self, name, kind, x):
        self.calls.append((name, kind if not self._depth_jac else kind + "@jac", tuple(float(t) for t in np.asarray(x).real)))


@contextlib.contextmanager
def tracing():
    t = Tracer()
    t.install()
    try:
        yield t
    finally:
        t.uninstall()


# --------------------------------------------------------------------------- problems


def make_problem(kind: str, tracer: Tracer, nan_region: bool = False, x0=(0.5, 0.5), integer=False, raise_region: str = ""):
    """Small 2-D problems; every original callable logs its calls in the tracer."""
    from gemseo.algos.design_space import DesignSpace
    from gemseo.algos.optimization_problem import OptimizationProblem
    from gemseo.core.mdo_functions.mdo_function import MDOFunction

    ds = DesignSpace()
    ds.add_variable("x", 2, lower_bound=-2.0, upper_bound=2.0, value=np.array(x0, dtype=float))
    pb = OptimizationProblem(ds)

    def mk(name, f, df):
        def func(x):
            tracer.log_call(name, "v", x)
            x = np.asarray(x).real
            if raise_region == name and x[1] > 0.75:
                msg = "the user function cannot be evaluated here"
                raise ValueError(msg)
            if nan_region and name == "f" and x[0] > 1.25:
                return float("nan")
            return f(x)

        def jac(x):
            tracer.log_call(name, "j", x)
            x = np.asarray(x).real
            return df(x)

        return MDOFunction(func, name, jac=jac)

    pb.objective = mk("f", lambda x: float((x[0] - 1.0) ** 2 + 2.0 * (x[1] + 0.5) ** 2 + 0.5 * x[0] * x[1]),
                      lambda x: np.array([2 * (x[0] - 1.0) + 0.5 * x[1], 4 * (x[1] + 0.5) + 0.5 * x[0]]))
    if kind in ("ineq", "both"):
        pb.add_constraint(mk("g", lambda x: np.array([x[0] + x[1] - 1.0]), lambda x: np.array([[1.0, 1.0]])),
                          constraint_type=MDOFunction.ConstraintType.INEQ)
    if kind in ("eq", "both"):
        pb.add_constraint(mk("h", lambda x: np.array([x[0] - 2.0 * x[1]]), lambda x: np.array([[1.0, -2.0]])),
                          constraint_type=MDOFunction.ConstraintType.EQ)
    return pb


# --------------------------------------------------------------------------- model replay


TERM = {
    "MaxIterReachedException": "maxIter", "FunctionIsNan": "functionIsNan", "DesvarIsNan": "desvarIsNan",
    "MaxTimeReached": "maxTime", "FtolReached": "ftol", "XtolReached": "xtol", "KKTReached": "kkt",
}


def model_lines(runs: list[dict[str, Any]]) -> tuple[list[str], list[list[str]]]:
    """Protocol lines for a list of executions on one problem + the expected (impl) answers."""
    lines, expected = ["cleardb"], [None]
    for run in runs:
        lines.append(f"start {run['max_iter']} {run['previous']} {int(run['reset'])} {int(run['store_jac'])} {int(run['stop_if_nan'])}")
        expected.append(None)
        for ev in run["events"]:
            if ev["key"] is None or any(math.isnan(t) or math.isinf(t) for t in ev["key"]):
                lines.append(None)  # DesvarIsNan: outside the model's key space
                expected.append(None)
                continue
            out = ev["outcome"]
            nan = tol = "0"
            tolname = "_"
            tup = "0"
            if out.startswith("stop:"):
                t = TERM.get(out[5:])
                if t is None:
                    # an exception of the user's function (not a termination criterion)
                    out = "raised"
                    nan = "2"
                else:
                    out = "stop:" + t
                    if t == "functionIsNan":
                        nan = "1"
                    if t in ("ftol", "xtol", "kkt"):
                        tolname = t
                    if t == "maxTime":
                        tup = "1"
            elif ev.get("nan_value"):
                nan = "1"
            key = ",".join(common.rat(t) for t in ev["key"])
            lines.append(f"req {ev['name']} {ev['kind']} {key} {nan} {tup} {tolname}")
            vc = ev["vcalls"]
            jc = ev["jcalls"]
            expected.append(f"{out} cur={ev['cur']} len={ev['len']} nonempty={ev['nonempty']} vcalls={vc} jcalls={jc}")
            del tol
    return lines, expected


def annotate(run, tracer_events, n_ev0):
    """Attach per-request cumulative counts of requests that called an original function."""
    vc = jc = 0
    evs = []
    for ev in tracer_events[n_ev0:]:
        if ev["called"]:
            if ev["kind"] == "v":
                vc += 1
            else:
                jc += 1
        ev = dict(ev)
        ev["vcalls"], ev["jcalls"] = vc, jc
        evs.append(ev)
    run["events"] = evs


# --------------------------------------------------------------------------- oracle


def oracle_run(run, label) -> list[tuple[str, str]]:
    """Property clauses for one execution."""
    bad = []
    n = run["max_iter"]
    new_entries = run["nonempty_after"] - run["nonempty_before"]
    if not new_entries <= n:
        bad.append(("budget-entries", f"{label}: {new_entries} new database entries for a budget of {n}"))
    stopped_nan = run.get("stopped_by") == "FunctionIsNan" or any(e["outcome"] == "stop:FunctionIsNan" for e in run["events"])
    allowed = n + (1 if stopped_nan else 0)
    if not len(run["new_value_points"]) <= allowed:
        bad.append(("budget-calls", f"{label}: original functions called at {len(run['new_value_points'])} distinct new points for a budget of {n}"))
    # the mechanism named by the property: once the counter is full, no original callable (value or
    # Jacobian) runs at a point that has no recorded output yet
    for ev in run["events"]:
        if ev.get("called") and ev.get("seen_before") is False and ev.get("max", 0) and ev.get("cur_before", 0) >= ev["max"]:
            bad.append(("evaluated-unseen-after-budget",
                        f"{label}: original {ev['name']} ({'Jacobian' if ev['kind'] == 'j' else 'value'}) was called at the unseen point {ev['key']} although the counter was full ({ev['cur_before']}/{ev['max']})"))
            break
    if run.get("raised"):
        bad.append(("execute-raises", f"{label}: execute raised {run['raised']} instead of returning a result"))
    elif run.get("is_opt") and run.get("result_none"):
        bad.append(("no-result", f"{label}: execute returned no result"))
    return bad


# --------------------------------------------------------------------------- executions


def execute(lib_factory, pb, tracer: Tracer, max_iter: int, label: str, **settings) -> dict[str, Any]:
    """Run one `execute` and collect what the oracle and the model need."""
    db = pb.database
    before_keys = {tuple(float(t) for t in k.unwrap()) for k, v in db.items() if v}
    run: dict[str, Any] = {
        "label": label,
        "max_iter": max_iter,
        "previous": pb.evaluation_counter.current,
        "reset": settings.get("reset_iteration_counters", True),
        "store_jac": settings.get("store_jacobian", True),
        "nonempty_before": len(before_keys),
        "is_opt": True,
    }
    n_ev0, n_c0 = len(tracer.events), len(tracer.calls)
    try:
        res = lib_factory(pb, max_iter, settings)
        run["result_none"] = res is None
        run["message"] = getattr(res, "message", None)
    except Exception as e:  # noqa: BLE001
        run["raised"] = f"{type(e).__name__}: {str(e)[:120]}"
        run["tb"] = common.short_tb(e)
    run["stop_if_nan"] = bool(pb.stop_if_nan)
    annotate(run, tracer.events, n_ev0)
    run["nonempty_after"] = sum(1 for v in db.values() if v)
    pts = {p for (_, k, p) in tracer.calls[n_c0:] if k == "v"}
    run["new_value_points"] = sorted(pts - before_keys)
    return run


def scripted_case(rng: common.Rng) -> dict[str, Any]:
    grid = [-1.0, -0.5, 0.0, 0.5, 1.0, 1.5]
    kind = rng.pick(["none", "ineq", "both"])
    names = ["f"] + (["g"] if kind in ("ineq", "both") else []) + (["h"] if kind == "both" else [])
    runs = []
    for _ in range(rng.pick([1, 1, 2, 3])):
        script = []
        pts = []
        for _ in range(rng.pick([1, 3, 6, 10, 16])):
            if pts and rng.chance(0.35):
                x = rng.pick(pts)
            else:
                x = [rng.pick(grid), rng.pick(grid)]
                pts.append(x)
            script.append([rng.pick(names), rng.pick(["v", "v", "j"]), x])
        runs.append({"script": script, "max_iter": rng.pick([1, 2, 3, 4, 6, 8]), "reset": rng.chance(0.6)})
    nan = rng.chance(0.3)
    return {"kind": kind, "nan": nan, "normalize": rng.chance(0.5), "store_jac": rng.chance(0.7), "runs": runs,
            # the user may switch the NaN stop off: NaN values are then recorded like any other value
            "stop_if_nan": (not nan) or rng.chance(0.5),
            "x0": [rng.pick(grid), rng.pick(grid)],
            # termination criteria other than the budget: a time limit that is always exceeded, loose tolerances
            "max_time": rng.pick([0, 0, 0, 1e-12]), "ftol_abs": rng.pick([0, 0, 100.0]), "xtol_abs": rng.pick([0, 0, 0, 100.0])}


def run_scripted(case) -> list[dict[str, Any]]:
    from harness.c03_lib import ScriptOpt

    out = []
    with tracing() as tr:
        pb = make_problem(case["kind"], tr, nan_region=case["nan"], x0=case["x0"])
        if not case.get("stop_if_nan", True):
            pb.stop_if_nan = False
        ds = pb.design_space
        for i, r in enumerate(case["runs"]):
            script = r["script"]
            if case["normalize"]:
                script = [[n, k, list(ds.normalize_vect(np.array(x, dtype=float)))] for n, k, x in script]

            def fac(pb_, n, st, script=script):
                return ScriptOpt(script).execute(pb_, max_iter=n, **st)

            out.append(execute(fac, pb, tr, r["max_iter"], f"scripted run {i}",
                               normalize_design_space=case["normalize"], store_jacobian=case["store_jac"],
                               reset_iteration_counters=r["reset"], enable_progress_bar=False,
                               max_time=case.get("max_time", 0), ftol_abs=case.get("ftol_abs", 0), xtol_abs=case.get("xtol_abs", 0)))
    return out


def real_algo_runs(algo: str, kind: str, budget: int, nan: bool, is_doe: bool, raising: str = "", kkt: bool = False) -> list[dict[str, Any]] | None:
    """Run a factory algorithm once; None when it cannot be configured in this sandbox."""
    from gemseo.algos.doe.factory import DOELibraryFactory
    from gemseo.algos.opt.factory import OptimizationLibraryFactory

    factory = DOELibraryFactory() if is_doe else OptimizationLibraryFactory()
    with tracing() as tr:
        pb = make_problem(kind, tr, nan_region=nan, raise_region=raising if is_doe else "")
        lib = factory.create(algo)
        if not lib.is_algorithm_suited(lib.ALGORITHM_INFOS[algo], pb):
            return None

        def fac(pb_, n, st):
            if is_doe:
                st = dict(st)
                for trial in ({"n_samples": n}, {}):
                    try:
                        return lib.execute(pb_, **trial, **st)
                    except Exception as e:  # noqa: BLE001
                        if type(e).__name__ != "ValidationError":
                            raise
                        last = e
                raise last
            if kkt:
                st = dict(st, kkt_tol_abs=1e-14)
            return factory.execute(pb_, algo_name=algo, max_iter=n, **st)

        try:
            run = execute(fac, pb, tr, budget, f"{algo} on {kind} N={budget}", enable_progress_bar=False)
        except Exception:  # noqa: BLE001
            return None
        if run.get("raised") and not run["events"]:
            # rejected before any request was issued: invalid settings for this algorithm, not a run
            return None
        if is_doe:
            run["is_doe"] = True
            # "a DOE evaluates each distinct generated sample once and records them in generation order"
            samples = [tuple(float(t) for t in row) for row in np.asarray(lib.samples)]
            distinct = list(dict.fromkeys(samples))
            fails = {smp for smp in distinct if raising and smp[1] > 0.75}
            fnames = ["f"] + (["g"] if kind in ("ineq", "both") else []) + (["h"] if kind == "both" else [])
            order = {nme: i for i, nme in enumerate(fnames)}
            # outputs evaluated before the raising function of a failing sample are still recorded
            def expected_entry(smp):
                if smp not in fails:
                    return True
                return order.get(raising, 0) > 0
            run["doe_expected_keys"] = [smp for smp in distinct if expected_entry(smp)]
            run["doe_failing"] = len(fails)
            # for DOEs the budget is the number of generated samples
            n_samples = run["nonempty_after"] - run["nonempty_before"]
            run["doe_db_keys"] = [tuple(float(t) for t in k.unwrap()) for k, v in pb.database.items() if v]
            vcalls = [(nme, p) for (nme, k, p) in tr.calls if k == "v"]
            run["doe_duplicate_calls"] = len(vcalls) - len(set(vcalls))
            run["max_iter"] = max(len(samples), 1)
        return [run]


# --------------------------------------------------------------------------- run


def check_runs(res: Result, runs: list[dict[str, Any]], tag: str, batch: list):
    """Oracle now; model comparison is batched."""
    for run in runs:
        res.evaluations += 1
        res.count(f"{tag}:budget={min(run['max_iter'], 10)}")
        for ev in run["events"]:
            res.count("outcome:" + ev["outcome"])
        if len(run["events"]) >= 2:
            res.nontrivial(json.dumps([run["label"], [(e["name"], e["kind"], e["key"], e["outcome"]) for e in run["events"]]]))
        for key, msg in oracle_run(run, run["label"]):
            res.violate("oracle", key, msg, {"run": strip_run(run), "case": run.get("case")})
        if run.get("is_doe"):
            if run["doe_db_keys"] != run["doe_expected_keys"] and not run.get("raised"):
                res.violate("oracle", "doe-samples-not-recorded-in-order",
                            f"{run['label']}: the database holds {len(run['doe_db_keys'])} points, expected the {len(run['doe_expected_keys'])} distinct generated samples (failing ones excepted) in generation order",
                            {"run": strip_run(run), "db_keys": run["doe_db_keys"][:20], "expected": run["doe_expected_keys"][:20]})
            if run["doe_duplicate_calls"]:
                res.violate("oracle", "doe-sample-twice", f"{run['label']}: a distinct sample was evaluated more than once",
                            {"run": strip_run(run)})
    batch.append(runs)


def strip_run(run):
    r = {k: v for k, v in run.items() if k not in ("events",)}
    r["events"] = [{k: ev[k] for k in ("name", "kind", "key", "outcome", "cur", "len", "nonempty")} for ev in run["events"][:60]]
    return r


def compare_with_model(res: Result, batch: list[list[dict[str, Any]]]):
    all_lines, spans = [], []
    for runs in batch:
        lines, expected = model_lines(runs)
        keep = [(ln, ex) for ln, ex in zip(lines, expected) if ln is not None]
        spans.append((len(all_lines), keep, runs))
        all_lines.extend(ln for ln, _ in keep)
    answers = common.run_lean_driver(PID, all_lines)
    for start, keep, runs in spans:
        ok = True
        for j, (ln, ex) in enumerate(keep):
            if ex is None:
                continue
            got = answers[start + j]
            if got != ex:
                ok = False
                res.disagreements += 1
                if not any(v.kind == "oracle" for v in res.violations):
                    res.violate(
                        "correspondence", "model-vs-impl",
                        f"request trace of `{runs[0]['label']}` is not reproduced by the model at `{ln}`",
                        {"protocol_lines": [l for l, _ in keep[: j + 1]], "impl": ex, "model": got,
                         "correspondence": "Driver/C03.lean", "runs": [strip_run(r) for r in runs]},
                    )
                break
        if ok:
            res.traces_validated += 1


def run(ctx) -> Result:
    from gemseo.algos.doe.factory import DOELibraryFactory
    from gemseo.algos.opt.factory import OptimizationLibraryFactory

    res = Result(PID)
    res.rule = (
        "(i) scripted driver: random request scripts (value/Jacobian, repeated points, NaN region, normalized or not, "
        "store_jacobian on/off, 1-3 successive executions with/without counter reset, budgets 1-8); (ii) every single-level "
        "optimisation algorithm and every DOE algorithm of the factories x problems (unconstrained / inequality / equality+"
        "inequality, with or without NaN region) x budgets; non-trivial = a run with >= 2 traced requests; distinct by trace"
    )
    res.assumptions = [
        "database on (use_database=True): without a database the budget is enforced by the wrapped algorithm, not by GEMSEO",
        "composite algorithms (MultiStart, augmented Lagrangian, MNBI) are excluded: held to per-level budgets by the property",
        "time limit not exercised (adversarial input of the model only)",
    ]
    rng = ctx.rng
    batch: list = []
    n_script = 15000 if ctx.thorough else 500
    corpus_dir = common.CORPUS_DIR / PID
    cases = [json.loads(p.read_text())["case"] for p in sorted(corpus_dir.glob("*.json"))] if corpus_dir.is_dir() else []
    cases += [scripted_case(rng) for _ in range(n_script)]
    for case in cases:
        runs = run_scripted(case)
        for r in runs:
            r["case"] = case
        check_runs(res, runs, "script", batch)
    res.sample({"scripted_case": cases[-1], "trace": [(e["name"], e["kind"], e["outcome"], e["cur"]) for e in runs[0]["events"][:8]]})
    # real algorithms
    opt_algos = [a for a in sorted(OptimizationLibraryFactory().algorithms) if a not in COMPOSITE and a not in LINEAR_ONLY]
    doe_algos = [a for a in sorted(DOELibraryFactory().algorithms) if a not in ("CustomDOE", "OT_SOBOL_INDICES")]
    budgets = [1, 2, 3, 5, 10]
    kinds = ["none", "ineq", "both"]
    skipped = []
    for algo in opt_algos + doe_algos:
        is_doe = algo in doe_algos
        combos = [(k, b, nan, extra) for k in kinds for b in budgets for nan in (False, True)
                  for extra in (("", "f", "g") if is_doe else (False, True))]
        combos = [c for c in combos if not (is_doe and c[3] == "g" and c[0] == "none")]
        if not ctx.thorough:
            combos = rng.sample(combos, 4)
        for kind, b, nan, extra in combos:
            import time as _t

            if _t.time() > ctx.deadline:
                break
            runs = real_algo_runs(algo, kind, b, nan, is_doe, raising=extra if is_doe else "", kkt=(extra is True))
            if runs is not None:
                res.count("doe:raising=" + (extra or "none") if is_doe else f"opt:kkt={int(bool(extra))}")
            if runs is None:
                skipped.append(f"{algo}/{kind}")
                continue
            res.count("algo:" + algo)
            check_runs(res, runs, "doe" if is_doe else "opt", batch)
    # repeated KKT-stopped NLopt runs in one process: the NLopt binding reports a termination criterion raised from a
    # function call as a forced stop only now and then (history dependent), see known_findings fixed 187eb68
    for algo in ("NLOPT_BFGS", "NLOPT_SLSQP", "NLOPT_MMA"):
        if algo not in opt_algos:
            continue
        for _ in range(12 if ctx.thorough else 6):
            try:
                runs = real_algo_runs(algo, "none", 10, False, False, kkt=True)
            except SystemError:  # stale error indicator left by the NLopt binding (third party), not a verdict
                res.count("nlopt-kkt-repeat:stale-error-indicator-skipped")
                continue
            if runs is not None:
                res.count("nlopt-kkt-repeat:" + algo)
                check_runs(res, runs, "opt", batch)
    termination_family_stream(res, ctx)
    doe_reexecution_stream(res, ctx)
    res.extra["algorithms_skipped_unsuited_or_unconfigurable"] = sorted(set(skipped))[:60]
    compare_with_model(res, batch)
    return res


def termination_family_stream(res: Result, ctx) -> None:
    """Directed search behind the translator-fed obligation `raised_all_caught`: every exception class of
    `stop_criteria.py` is raised from inside a driver's `_run` after some evaluations; `execute` must return a
    result built from the recorded history (property: "... the driver still returns a result instead of raising").
    Also cross-checks the translated class table against run-time introspection."""
    from gemseo.algos import stop_criteria as sc
    from harness import translate_c03
    from harness.c03_lib import RaisingOpt

    table = getattr(ctx, "term_table", None) or translate_c03.extract()
    rt = translate_c03.runtime_table()
    if sorted(map(tuple, table["classes"])) != rt["classes"]:
        res.notes.append(f"translator/introspection mismatch on the exception classes: {table['classes']} vs {rt['classes']}")
        res.count("translator-crosscheck-mismatch")
    else:
        res.count("translator-crosscheck-ok")
    names = sorted(set(table["raised"]) | {n for n, _ in rt["classes"]})
    for name in names:
        cls = rt["family"].get(name)
        if cls is None:
            continue
        for kind in ("none", "both"):
            with tracing() as tr:
                pb = make_problem(kind, tr)
                script = [["f", "v", [0.5, 0.5]], ["f", "v", [0.0, -0.5]]]
                if kind == "both":
                    script += [["g", "v", [0.0, -0.5]], ["h", "v", [0.0, -0.5]]]
                out: dict[str, Any] = {}
                try:
                    r = RaisingOpt(script, cls).execute(pb, max_iter=10, enable_progress_bar=False)
                    out["result_none"] = r is None
                    out["x_opt"] = None if r is None or r.x_opt is None else [float(t) for t in r.x_opt]
                except Exception as e:  # noqa: BLE001
                    out["raised"] = f"{type(e).__name__}: {str(e)[:100]}"
            res.evaluations += 1
            res.count("termination-class:" + name)
            res.nontrivial(("term", name, kind))
            ok = "raised" not in out and out.get("result_none") is False and out.get("x_opt") is not None
            if not ok:
                res.violate(
                    "oracle",
                    "termination-escapes:" + name,
                    f"a driver stopped by {name} (problem kind {kind!r}, 2 recorded points) does not return a result built "
                    f"from the recorded history: {out}",
                    {"termination_class": name, "kind": kind, "observed": out},
                )


def _f_exact(x):
    return (x[0] - 1.0) ** 2 + 2.0 * (x[1] + 0.5) ** 2 + 0.5 * x[0] * x[1]


def doe_reexecution_case(samples_per_run: list, n_processes: int) -> dict[str, Any]:
    """Successive CustomDOE executions on ONE problem (same database): each distinct generated sample is
    evaluated once over the whole history and recorded, in generation order, with ITS outputs."""
    from gemseo.algos.doe.factory import DOELibraryFactory

    out: dict[str, Any] = {"samples": samples_per_run, "n_processes": n_processes}
    with tracing() as tr:
        pb = make_problem("ineq", tr)
        try:
            for smp in samples_per_run:
                DOELibraryFactory().execute(pb, algo_name="CustomDOE", samples=np.array(smp, dtype=float),
                                            n_processes=n_processes, enable_progress_bar=False)
        except Exception as e:  # noqa: BLE001
            out["raised"] = f"{type(e).__name__}: {str(e)[:120]}"
        out["db"] = [[[float(t) for t in k.unwrap()], {n: (np.asarray(v).ravel().tolist() if not n.startswith("@") else None) for n, v in vals.items()}]
                     for k, vals in pb.database.items() if vals]
        vcalls = [(nme, p) for (nme, k, p) in tr.calls if k == "v"]
        out["dup_calls"] = len(vcalls) - len(set(vcalls))
    return out


def doe_reexecution_oracle(out) -> list[tuple[str, str]]:
    bad = []
    if out.get("raised"):
        return [("doe-reexecution-raises", f"successive DOE executions raised {out['raised']}")]
    flat = [tuple(float(t) for t in row) for smp in out["samples"] for row in smp]
    expected = list(dict.fromkeys(flat))
    keys = [tuple(k) for k, _ in out["db"]]
    if keys != expected:
        bad.append(("doe-reexecution-order", f"after {len(out['samples'])} DOE executions (n_processes={out['n_processes']}) the database holds {keys}, expected the distinct generated samples in generation order {expected}"))
    for k, vals in out["db"]:
        fx = _f_exact(k)
        got = (vals.get("f") or [None])[0]
        if got is None or not abs(got - fx) <= 1e-12 * max(1.0, abs(fx)):
            bad.append(("doe-reexecution-values", f"entry {k} holds f={got}, but f({k}) = {fx} (n_processes={out['n_processes']})"))
            break
        g = (vals.get("g") or [None])[0]
        if g is None or not abs(g - (k[0] + k[1] - 1.0)) <= 1e-12:
            bad.append(("doe-reexecution-values", f"entry {k} holds g={g}, but g({k}) = {k[0] + k[1] - 1.0} (n_processes={out['n_processes']})"))
            break
    if out["n_processes"] == 1 and out["dup_calls"]:
        bad.append(("doe-reexecution-twice", "a distinct sample was evaluated more than once over successive sequential DOE executions"))
    return bad


def doe_reexecution_stream(res: Result, ctx) -> None:
    rng = ctx.rng
    grid = [-1.5, -1.0, -0.5, 0.0, 0.5, 1.0, 1.5]
    n_cases = 40 if ctx.thorough else 10
    for i in range(n_cases):
        pool = [[rng.pick(grid), rng.pick(grid)] for _ in range(6)]
        runs = []
        for _ in range(rng.pick([2, 2, 3])):
            runs.append([rng.pick(pool) for _ in range(rng.pick([2, 3, 4, 5]))])
        n_proc = 1 if i % 2 == 0 else 2
        out = doe_reexecution_case(runs, n_proc)
        res.evaluations += 1
        res.count(f"doe-reexecution:n_processes={n_proc}")
        flat = [tuple(r) for smp in runs for r in smp]
        if len(set(flat)) < len(flat):
            res.count("doe-reexecution:repeated-sample")
        res.nontrivial(("doe-reexec", json.dumps(runs), n_proc))
        for key, msg in doe_reexecution_oracle(out):
            res.violate("oracle", key, msg, {"doe_reexecution": {"samples": runs, "n_processes": n_proc}})


def replay(path: str) -> int:
    data = json.loads(open(path).read())
    rp = data["replay"]
    if rp.get("case"):
        runs = run_scripted(rp["case"])
        bad = []
        for r in runs:
            print(r["label"], "budget", r["max_iter"], [(e["name"], e["kind"], e["outcome"], e["cur"], e["nonempty"]) for e in r["events"]], r.get("raised"))
            bad += oracle_run(r, r["label"])
        for k, m in bad:
            print("ORACLE FAILS:", k, m)
        return 1 if bad else 0
    if rp.get("doe_reexecution"):
        d = rp["doe_reexecution"]
        bad = doe_reexecution_oracle(doe_reexecution_case(d["samples"], d["n_processes"]))
        for k, m in bad:
            print("ORACLE FAILS:", k, m)
        return 1 if bad else 0
    if rp.get("termination_class"):
        from gemseo.algos import stop_criteria as sc
        from harness.c03_lib import RaisingOpt

        cls = getattr(sc, rp["termination_class"])
        with tracing() as tr:
            pb = make_problem(rp["kind"], tr)
            try:
                r = RaisingOpt([["f", "v", [0.5, 0.5]], ["f", "v", [0.0, -0.5]]], cls).execute(pb, max_iter=10, enable_progress_bar=False)
                print("execute returned", r is not None and r.x_opt)
                return 0 if r is not None and r.x_opt is not None else 1
            except Exception as e:  # noqa: BLE001
                print("ORACLE FAILS: execute raised", type(e).__name__, e)
                return 1
    print(json.dumps(rp, indent=1)[:4000])
    return 1
