"""C02 — design space views stay consistent; normalization is an exact bijection.

Correspondence: generated edit/query histories are run on a real `DesignSpace` and on the Lean
model (Driver/C02.lean); after EVERY operation the whole public view is compared.
Oracle: invariants stated by the property, evaluated on the implementation's own answers in exact
arithmetic (index ranges vs variable order vs bound arrays, lossless dict/array conversion, affine
normalisation formulas, gradient scaling, membership/projection), plus the expected effect of each
edit computed by an independent Python shadow written from the API documentation.
"""

from __future__ import annotations

import copy
import json
import math
from fractions import Fraction
from typing import Any

import numpy as np

from harness import common
from harness.common import F
from harness.common import Result
from harness.common import rat
from harness.common import rats

PID = "C02"
TOL = Fraction(25, 2**50)  # 100 * eps
NAMES = ["x", "y", "xy", "x_1", "ab", "abc", "z", "yx"]

TRUSTED_EXTRA = (
    "C02: exact stream only — bounds are dyadic with power-of-two ranges, probes are dyadic, so every float intermediate of (un)normalisation is exact",
    "C02: complex dtypes, pretty tables and file formats are not modelled (file formats: C11)",
)

# --------------------------------------------------------------------------- shadow (oracle side)


class SVar:
    def __init__(self, name, is_int, lb, ub, value):
        self.name, self.is_int, self.lb, self.ub, self.value = name, is_int, list(lb), list(ub), (None if value is None else list(value))

    @property
    def size(self):
        return len(self.lb)


class Shadow:
    """Independent reference semantics of the edits (from the API documentation)."""

    def __init__(self):
        self.vars: list[SVar] = []
        self.int_norm = False

    def names(self):
        return [v.name for v in self.vars]

    def get(self, n):
        return next(v for v in self.vars if v.name == n)

    def dim(self):
        return sum(v.size for v in self.vars)

    def flat(self, attr):
        return [c for v in self.vars for c in getattr(v, attr)]

    def norm_mask(self):
        return [
            (not v.is_int or self.int_norm) and l is not None and u is not None
            for v in self.vars
            for l, u in zip(v.lb, v.ub)
        ]

    def int_mask(self):
        return [v.is_int for v in self.vars for _ in v.lb]

    def has_value(self):
        return bool(self.vars) and all(v.value is not None for v in self.vars)


# --------------------------------------------------------------------------- encoding helpers


def olist(b):
    return ",".join("_" if c is None else rat(c) for c in b) if b else "[]"


def varspec(name, is_int, lb, ub, value):
    return f"{name}:{'i' if is_int else 'f'}:{olist(lb)}:{olist(ub)}:{'_' if value is None else rats(value)}"


def to_np_bound(b, lower):
    return np.array([(-math.inf if lower else math.inf) if c is None else float(c) for c in b])


def fnum(x) -> str:
    """Canonical string of an implementation number (inf -> `_`)."""
    x = float(np.real(x))
    if math.isinf(x):
        return "_"
    if math.isnan(x):
        return "nan"
    return rat(x)


def flist(a) -> str:
    a = np.atleast_1d(np.asarray(a))
    return ",".join(fnum(c) for c in a) if a.size else "[]"


# --------------------------------------------------------------------------- implementation side


def impl_view(ds) -> str:
    names = list(ds.variable_names)
    sizes = [ds.variable_sizes[n] for n in names]
    types = ["i" if str(ds.variable_types[n]) == "integer" else "f" for n in names]
    n2i = ds.names_to_indices
    idx = ",".join(
        f"{n}:{n2i[n].start}:{n2i[n].stop}" if n in n2i else f"{n}:?:?" for n in names
    ) or "[]"
    lb = flist(ds.get_lower_bounds()) if names else "[]"
    ub = flist(ds.get_upper_bounds()) if names else "[]"
    norm = ",".join("1" if b else "0" for n in names for b in np.atleast_1d(ds.normalize[n])) or "[]"
    has = ds.has_current_value
    cur_d = ds.get_current_value(as_dict=True)
    cur = ";".join(
        f"{n}=" + ("_" if cur_d.get(n) is None else flist(cur_d[n])) for n in names
    ) or "[]"
    if has:
        arr = flist(ds.get_current_value())
        narr = flist(ds.get_current_value(normalize=True))
    else:
        arr = narr = "_"
    return (
        f"names={','.join(names) or '[]'} sizes={','.join(map(str, sizes)) or '[]'} types={','.join(types) or '[]'} "
        f"idx={idx} dim={ds.dimension} lb={lb} ub={ub} norm={norm} has={1 if has else 0} cur={cur} "
        f"arr={arr} narr={narr} intnorm={1 if ds.enable_integer_variables_normalization else 0}"
    )


def parse_olist(s):
    return [] if s == "[]" else [None if t == "_" else Fraction(t) for t in s.split(",")]


def parse_rlist(s):
    return [] if s == "[]" else [Fraction(t) for t in s.split(",")]


def parse_varspec(s):
    n, t, lb, ub, v = s.split(":")
    return n, t == "i", parse_olist(lb), parse_olist(ub), (None if v == "_" else parse_rlist(v))


def np_value(vals, is_int, as_int=False):
    """The array handed to the design space. `as_int`: whole-number values of a FLOAT variable are handed as an
    int64 array (what `array([5, 3, 1])` gives a caller); the values are the same, so every view must be too."""
    if is_int or (as_int and all(Fraction(v).denominator == 1 for v in vals)):
        return np.array([int(Fraction(v)) for v in vals], dtype=np.int64)
    return np.array([float(v) for v in vals])


def _int_dtype_choice(line: str) -> bool:
    """Deterministic per protocol line (so that replays reproduce it): one line in three."""
    import zlib

    return zlib.crc32(line.encode()) % 3 == 0


def impl_add(ds, spec, scalar_style=False):
    from gemseo.algos.design_space import DesignSpace

    n, is_int, lb, ub, val = parse_varspec(spec)
    kw = {}
    size = len(lb)
    # exercise the scalar-broadcast signature when all components agree
    def arg(b, lower):
        if scalar_style and len(set(b)) == 1:
            c = b[0]
            return (-math.inf if lower else math.inf) if c is None else (int(c) if is_int else float(c))
        return to_np_bound(b, lower)

    value = None
    if val is not None:
        value = float(val[0]) if (scalar_style and len(set(val)) == 1) else np.array([float(v) for v in val])
    ds.add_variable(
        n, size=size, type_=DesignSpace.DesignVariableType.INTEGER if is_int else DesignSpace.DesignVariableType.FLOAT,
        lower_bound=arg(lb, True), upper_bound=arg(ub, False), value=value, **kw,
    )


def impl_step(ds, line: str, holder: dict) -> str:
    """Execute one protocol line on the real design space, return the canonical answer."""
    from gemseo.algos.design_space import DesignSpace

    toks = line.split()
    op = toks[0]
    mutating = True
    try:
        if op == "add":
            impl_add(ds, toks[1], holder.get("scalar_style", False))
        elif op == "remove":
            ds.remove_variable(toks[1])
        elif op == "filter":
            ds.filter(toks[1].split(","))
        elif op == "filterdim":
            ds.filter_dimensions(toks[1], [int(t) for t in toks[2].split(",")])
        elif op == "rename":
            ds.rename_variable(toks[1], toks[2])
        elif op == "extend":
            other = DesignSpace()
            for spec in toks[1:]:
                impl_add(other, spec)
            ds.extend(other)
        elif op in ("setlb", "setub"):
            b = parse_olist(toks[2])
            arr = to_np_bound(b, op == "setlb")
            (ds.set_lower_bound if op == "setlb" else ds.set_upper_bound)(toks[1], arr)
        elif op == "setarr":
            fr = [Fraction(t) for t in toks[1].split(",")]
            if _int_dtype_choice(line) and all(f.denominator == 1 for f in fr):
                ds.set_current_value(np.array([int(f) for f in fr], dtype=np.int64))
            else:
                ds.set_current_value(np.array([float(f) for f in fr]))
        elif op == "setdict":
            d = {}
            for kv in toks[1:]:
                k, v = kv.split("=")
                is_int = k in ds and str(ds.variable_types[k]) == "integer"
                d[k] = np_value(parse_rlist(v), is_int, as_int=_int_dtype_choice(line))
            ds.set_current_value(d)
        elif op == "setvar":
            is_int = str(ds.variable_types[toks[1]]) == "integer"
            ds.set_current_variable(toks[1], np_value(parse_rlist(toks[2]), is_int, as_int=_int_dtype_choice(line)))
        elif op == "initmissing":
            ds.initialize_missing_current_values()
        elif op == "intnorm":
            ds.enable_integer_variables_normalization = toks[1] == "1"
        else:
            mutating = False
    except (ValueError, KeyError, TypeError, IndexError) as e:
        holder["last_exc"] = repr(e)[:200]
        return "E"
    if mutating:
        return "ok " + impl_view(ds)
    if op == "view":
        return impl_view(ds)
    if op == "toscalar":
        return impl_view(ds.to_scalar_variables())
    if op == "probe":
        x, u, g = (np.array([float(Fraction(t)) for t in tk.split(",")]) for tk in toks[1:4])
        x0, u0, g0 = x.copy(), u.copy(), g.copy()
        nv = ds.normalize_vect(x)
        uv = ds.unnormalize_vect(u, no_check=True)
        ng = ds.normalize_grad(g)
        ug = ds.unnormalize_grad(g)
        rv = ds.round_vect(x)
        # the API must not modify its arguments
        if not (np.array_equal(x, x0) and np.array_equal(u, u0) and np.array_equal(g, g0)):
            holder["arg_mutated"] = line
        # transform/untransform are the same maps; 2-row batches act row-wise
        holder["extra"] = {
            "tv": flist(ds.transform_vect(x)),
            "utv": flist(ds.untransform_vect(u, no_check=True)),
            "batch_nv": [flist(r) for r in ds.normalize_vect(np.vstack([x, x]))],
            "batch_uv": [flist(r) for r in ds.unnormalize_vect(np.vstack([u, u]), no_check=True)],
        }
        return f"nv={flist(nv)} uv={flist(uv)} ng={flist(ng)} ug={flist(ug)} rv={flist(rv)}"
    if op == "sub":
        ns = toks[1].split(",")
        try:
            cur = flist(ds.get_current_value(ns))
        except KeyError:
            cur = "_"
        d = {n: np.arange(r.start, r.stop, dtype=float) for n, r in ds.names_to_indices.items()}
        holder["sub_d2a"] = flist(ds.convert_dict_to_array(d, variable_names=ns))
        return (
            f"lb={flist(ds.get_lower_bounds(ns))} ub={flist(ds.get_upper_bounds(ns))} cur={cur} "
            f"idxds={','.join(str(int(i)) for i in ds.get_variables_indexes(ns)) or '[]'} "
            f"idxreq={','.join(str(int(i)) for i in ds.get_variables_indexes(ns, use_design_space_order=False)) or '[]'}"
        )
    if op == "member":
        x = np.array([float(Fraction(t)) for t in toks[1].split(",")])
        try:
            ds.check_membership(x)
            return "1"
        except ValueError:
            return "0"
    if op == "project":
        x = np.array([float(Fraction(t)) for t in toks[1].split(",")])
        return flist(ds.project_into_bounds(x))
    if op == "a2d":
        x = np.array([float(Fraction(t)) for t in toks[1].split(",")])
        d = ds.convert_array_to_dict(x)
        # a batch of design vectors (n_samples x dimension) is converted row-wise, and back without loss:
        # the rows of the batch conversion are the conversions of the rows
        if x.size:
            rows = [x, x[::-1] * 2.0 + 1.0, x * 0.5]
            batch = np.vstack(rows)
            db = ds.convert_array_to_dict(batch)
            for n in ds.variable_names:
                size = ds.get_size(n)
                if np.shape(db[n]) != (len(rows), size):
                    msg = f"convert_array_to_dict of a {batch.shape} batch gives {n} the shape {np.shape(db[n])}, expected {(len(rows), size)}"
                    raise AssertionError(msg)
                for r, row in enumerate(rows):
                    if not np.array_equal(db[n][r], ds.convert_array_to_dict(row)[n]):
                        msg = f"row {r} of the batch conversion of {n} differs from the conversion of that row"
                        raise AssertionError(msg)
            back = ds.convert_dict_to_array(db)
            if np.shape(back) != batch.shape or not np.array_equal(back, batch):
                msg = "convert_dict_to_array(convert_array_to_dict(batch)) is not the batch"
                raise AssertionError(msg)
        return ";".join(f"{n}={flist(d[n])}" for n in ds.variable_names) or "[]"
    if op == "d2a":
        d = {}
        for kv in toks[1:]:
            k, v = kv.split("=")
            d[k] = np.array([float(t) for t in parse_rlist(v)])
        return flist(ds.convert_dict_to_array(d))
    return "bad-op"


# --------------------------------------------------------------------------- comparisons
REL = Fraction(1, 2**40)


def close(a: Fraction, b: Fraction) -> bool:
    """Positive assertion: equal up to 2^-40 relative (floats are exact on the exact stream)."""
    return abs(a - b) <= REL * max(1, abs(a), abs(b))


def same_answer(a: str, b: str) -> bool:
    """Canonical answers agree: identical text, or numerically equal leaf by leaf (2^-40)."""
    if a == b:
        return True
    import re

    ta, tb = re.split(r"([ ;,=:])", a), re.split(r"([ ;,=:])", b)
    if len(ta) != len(tb):
        return False
    for x, y in zip(ta, tb):
        if x == y:
            continue
        try:
            if not close(Fraction(x), Fraction(y)):
                return False
        except (ValueError, ZeroDivisionError):
            return False
    return True


# --------------------------------------------------------------------------- oracle


def oracle_view(ds, sh: Shadow | None, line: str, answer: str, holder) -> list[tuple[str, str]]:
    """Property invariants on the implementation's own views (+ expected effect of the edit)."""
    bad: list[tuple[str, str]] = []
    names = list(ds.variable_names)
    sizes = ds.variable_sizes
    n2i = ds.names_to_indices
    # (O1) index ranges follow the variable order: contiguous prefix sums covering 0..dimension
    off = 0
    for n in names:
        r = n2i.get(n)
        if r is None or r.start != off or r.stop != off + sizes[n]:
            bad.append(("index-ranges", f"names_to_indices[{n}]={r} but variable order/sizes give {off}:{off + sizes[n]}"))
            break
        off += sizes[n]
    if set(n2i) != set(names):
        bad.append(("index-ranges", f"names_to_indices keys {sorted(n2i)} != variables {sorted(names)}"))
    if off != ds.dimension and not bad:
        bad.append(("dimension", f"dimension={ds.dimension} but sizes sum to {off}"))
    if names:
        # (O2) vector bounds = concatenation of per-variable bounds in variable order
        for get_all, get_one, tag in (
            (ds.get_lower_bounds, ds.get_lower_bound, "lower"),
            (ds.get_upper_bounds, ds.get_upper_bound, "upper"),
        ):
            arr = np.asarray(get_all())
            cat = np.concatenate([np.atleast_1d(get_one(n)) for n in names]).astype(float)
            asd = get_all(as_dict=True)
            catd = np.concatenate([np.atleast_1d(asd[n]) for n in names]).astype(float)
            if arr.shape != cat.shape or not np.array_equal(arr, cat) or not np.array_equal(cat, catd):
                bad.append((f"{tag}-bounds-order", f"get_{tag}_bounds()={arr} but per-variable bounds in variable order give {cat}"))
        # normalisation policy sizes
        for n in names:
            if len(np.atleast_1d(ds.normalize[n])) != sizes[n]:
                bad.append(("normalize-policy-size", f"normalize[{n}] has {len(np.atleast_1d(ds.normalize[n]))} entries for a variable of size {sizes[n]}"))
                break
        if set(ds.normalize) != set(names):
            bad.append(("normalize-policy-keys", f"normalize keys {sorted(ds.normalize)} != variables {sorted(names)}"))
        # get_variables_indexes agrees with the ranges
        try:
            gi = list(ds.get_variables_indexes(names))
            if gi != list(range(ds.dimension)):
                bad.append(("variables-indexes", f"get_variables_indexes(all)={gi}"))
        except Exception as e:  # noqa: BLE001
            bad.append(("variables-indexes", f"get_variables_indexes raised {e!r}"))
    # (O8) current value views
    if ds.has_current_value:
        cd = ds.get_current_value(as_dict=True)
        arr = np.asarray(ds.get_current_value())
        cat = np.concatenate([np.atleast_1d(cd[n]) for n in names])
        if arr.shape != cat.shape or not np.array_equal(arr, cat):
            bad.append(("current-value-order", f"get_current_value()={arr} but dict view in variable order gives {cat}"))
        else:
            narr = np.asarray(ds.get_current_value(normalize=True))
            fresh = np.asarray(ds.normalize_vect(arr.astype(float)))
            if narr.shape != fresh.shape or not np.array_equal(narr, fresh):
                bad.append(("normalized-current-stale", f"get_current_value(normalize=True)={narr} but normalize_vect(current)={fresh}"))
    # (O9) expected effect of the edit (shadow)
    if sh is not None and answer.startswith("ok "):
        exp = shadow_view(sh)
        got = answer[3:]
        if not same_answer(exp, got):
            bad.append(("edit-effect", f"after `{line}` expected view\n   {exp}\n got\n   {got}"))
    # equality with a copy rebuilt from the public views
    if names and not bad:
        try:
            from gemseo.algos.design_space import DesignSpace

            clone = DesignSpace()
            cd = ds.get_current_value(as_dict=True)
            for n in names:
                clone.add_variable(
                    n, sizes[n], ds.variable_types[n], ds.get_lower_bound(n), ds.get_upper_bound(n),
                    cd.get(n) if cd.get(n) is not None else None,
                )
            if not (clone == ds and ds == clone):
                bad.append(("eq-rebuilt", "design space is not equal to a copy rebuilt from its public views"))
        except Exception as e:  # noqa: BLE001
            bad.append(("eq-rebuilt", f"rebuilding a copy from the public views raised {e!r}"))
    return bad


def shadow_view(sh: Shadow) -> str:
    names = sh.names()
    off = 0
    idx = []
    for v in sh.vars:
        idx.append(f"{v.name}:{off}:{off + v.size}")
        off += v.size
    cur = ";".join(f"{v.name}=" + ("_" if v.value is None else rats(v.value)) for v in sh.vars) or "[]"
    if sh.has_value():
        x = sh.flat("value")
        arr = rats(x)
        narr = rats(shadow_normalize(sh, x))
    else:
        arr = narr = "_"
    return (
        f"names={','.join(names) or '[]'} sizes={','.join(str(v.size) for v in sh.vars) or '[]'} "
        f"types={','.join('i' if v.is_int else 'f' for v in sh.vars) or '[]'} idx={','.join(idx) or '[]'} dim={off} "
        f"lb={olist(sh.flat('lb'))} ub={olist(sh.flat('ub'))} norm={','.join('1' if b else '0' for b in sh.norm_mask()) or '[]'} "
        f"has={1 if sh.has_value() else 0} cur={cur} arr={arr} narr={narr} intnorm={1 if sh.int_norm else 0}"
    )


def shadow_normalize(sh: Shadow, x, minus_lb=True):
    out = []
    for xi, n, l, u in zip(x, sh.norm_mask(), sh.flat("lb"), sh.flat("ub")):
        if n:
            s = u - l
            out.append(((xi - l) if minus_lb else xi) * (1 if s == 0 else 1 / s))
        else:
            out.append(xi)
    return out


def round_half_even(f: Fraction) -> Fraction:
    fl = math.floor(f)
    d = f - fl
    if d < Fraction(1, 2):
        return Fraction(fl)
    if d > Fraction(1, 2):
        return Fraction(fl + 1)
    return Fraction(fl if fl % 2 == 0 else fl + 1)


def oracle_probe(sh: Shadow, line: str, answer: str, holder) -> list[tuple[str, str]]:
    """(O4)-(O6): affine normalisation, inverse, gradient scaling — from the property text."""
    bad = []
    toks = line.split()
    x, u, g = (parse_rlist(t) for t in toks[1:4])
    fields = dict(kv.split("=") for kv in answer.split())
    try:
        nv, uv, ng, ug, rv = (parse_rlist(fields[k]) for k in ("nv", "uv", "ng", "ug", "rv"))
    except Exception:  # noqa: BLE001
        return [("probe-nonfinite", f"non finite (un)normalisation result: {answer}")]
    mask, lb, ub, im = sh.norm_mask(), sh.flat("lb"), sh.flat("ub"), sh.int_mask()
    if not (len(nv) == len(uv) == len(ng) == len(ug) == len(x)):
        return [("probe-shape", f"wrong result size: {answer}")]
    for i in range(len(x)):
        if mask[i] and lb[i] < ub[i]:
            s = ub[i] - lb[i]
            if not close(nv[i], (x[i] - lb[i]) / s):
                bad.append(("normalize-affine", f"component {i}: normalize({x[i]}) = {nv[i]}, expected ({x[i]}-{lb[i]})/{s}"))
            want = u[i] * s + lb[i]
            if im[i]:
                want = round_half_even(want)
            if not close(uv[i], want):
                bad.append(("unnormalize-affine", f"component {i}: unnormalize({u[i]}) = {uv[i]}, expected {want}"))
            if not close(ng[i], g[i] * s):
                bad.append(("normalize-grad", f"component {i}: normalize_grad({g[i]}) = {ng[i]}, expected {g[i] * s}"))
            if not close(ug[i], g[i] / s):
                bad.append(("unnormalize-grad", f"component {i}: unnormalize_grad({g[i]}) = {ug[i]}, expected {g[i] / s}"))
        elif mask[i]:
            # lb == ub: the normalised coordinate is inert, unnormalisation returns the bound
            want = round_half_even(lb[i]) if im[i] else lb[i]
            if uv[i] != want:
                bad.append(("unnormalize-equal-bounds", f"component {i}: unnormalize({u[i]}) = {uv[i]}, expected the bound {lb[i]}"))
            if ng[i] != 0:
                bad.append(("normalize-grad-equal-bounds", f"component {i}: normalize_grad({g[i]}) = {ng[i]}, expected 0"))
        else:
            wantn = x[i]
            wantu = round_half_even(u[i]) if im[i] else u[i]
            wantg = round_half_even(g[i]) if im[i] else g[i]
            if nv[i] != wantn:
                bad.append(("normalize-unchanged", f"component {i} is not normalisable but normalize({x[i]}) = {nv[i]}"))
            if uv[i] != wantu:
                bad.append(("unnormalize-unchanged", f"component {i} is not normalisable but unnormalize({u[i]}) = {uv[i]}"))
            if ug[i] != g[i]:
                bad.append(("unnormalize-grad-unchanged", f"component {i} is not normalisable but unnormalize_grad({g[i]}) = {ug[i]}"))
            del wantg
        want_r = round_half_even(x[i]) if im[i] else x[i]
        if rv[i] != want_r:
            bad.append(("round-vect", f"component {i}: round_vect({x[i]}) = {rv[i]}, expected {want_r}"))
    ex = holder.get("extra", {})
    if ex:
        if ex["tv"] != fields["nv"] or ex["utv"] != fields["uv"]:
            bad.append(("transform-alias", "transform_vect/untransform_vect differ from normalize_vect/unnormalize_vect"))
        if ex["batch_nv"] != [fields["nv"]] * 2 or ex["batch_uv"] != [fields["uv"]] * 2:
            bad.append(("batch-rows", f"2-row batch does not act row-wise: {ex['batch_nv']} / {ex['batch_uv']} vs {fields['nv']} / {fields['uv']}"))
    if holder.pop("arg_mutated", None):
        bad.append(("argument-mutated", "a (un)normalisation call modified its argument in place"))
    return bad


def oracle_query(sh: Shadow, line: str, answer: str) -> list[tuple[str, str]]:
    toks = line.split()
    op = toks[0]
    lb, ub = sh.flat("lb"), sh.flat("ub")
    if op == "member":
        x = parse_rlist(toks[1])
        want = len(x) == sh.dim() and all(
            (l is None or l - TOL <= xi) and (u is None or xi <= u + TOL) for xi, l, u in zip(x, lb, ub)
        )
        if answer != ("1" if want else "0"):
            return [("membership", f"check_membership({toks[1]}) says {answer}, bounds say {int(want)}")]
    elif op == "project":
        x = parse_rlist(toks[1])
        try:
            p = parse_rlist(answer)
        except Exception:  # noqa: BLE001
            return [("projection", f"non finite projection {answer}")]
        want = [min(max(xi, l) if l is not None else xi, u) if u is not None else (max(xi, l) if l is not None else xi) for xi, l, u in zip(x, lb, ub)]
        if p != want:
            return [("projection", f"project_into_bounds({toks[1]}) = {answer}, expected {rats(want)}")]
    elif op == "sub":
        ns = toks[1].split(",")
        starts, off = {}, 0
        for v in sh.vars:
            starts[v.name] = off
            off += v.size
        lbw = olist([c for n in ns for c in sh.get(n).lb])
        ubw = olist([c for n in ns for c in sh.get(n).ub])
        curw = rats([c for n in ns for c in sh.get(n).value]) if all(sh.get(n).value is not None for n in ns) else "_"
        idxreq = [starts[n] + k for n in ns for k in range(sh.get(n).size)]
        idxds = [starts[v.name] + k for v in sh.vars if v.name in ns for k in range(v.size)]
        want = (f"lb={lbw} ub={ubw} cur={curw} idxds={','.join(map(str, idxds)) or '[]'} "
                f"idxreq={','.join(map(str, idxreq)) or '[]'}")
        if not same_answer(answer, want):
            return [("subset-views", f"views for the requested variables {ns}: got {answer}, expected {want}")]
    elif op == "a2d":
        x = parse_rlist(toks[1])
        off = 0
        parts = []
        for v in sh.vars:
            parts.append(f"{v.name}={rats(x[off:off + v.size])}")
            off += v.size
        if answer != (";".join(parts) or "[]"):
            return [("array-to-dict", f"convert_array_to_dict({toks[1]}) = {answer}, expected {';'.join(parts)}")]
    elif op == "d2a":
        d = dict(kv.split("=") for kv in toks[1:])
        want = ",".join(d[v.name] for v in sh.vars) or "[]"
        if answer != want:
            return [("dict-to-array", f"convert_dict_to_array = {answer}, expected {want}")]
    return []


# --------------------------------------------------------------------------- generation


def gen_bounds(rng, size, is_int):
    lb, ub = [], []
    for _ in range(size):
        kind = rng.random()
        if is_int:
            l = Fraction(rng.randint(-4, 4))
            rg = rng.pick([1, 2, 4, 8, 0])
        else:
            l = Fraction(rng.randint(-16, 16), 4)
            rg = rng.pick([Fraction(1, 2), 1, 2, 4, 8, 0])
        u = l + rg
        if kind < 0.15:
            lb.append(None), ub.append(u)
        elif kind < 0.3:
            lb.append(l), ub.append(None)
        elif kind < 0.38:
            lb.append(None), ub.append(None)
        else:
            lb.append(l), ub.append(u)
    return lb, ub


def gen_value_in(rng, lb, ub, is_int):
    out = []
    for l, u in zip(lb, ub):
        lo = l if l is not None else ((u - 4) if u is not None else Fraction(-4))
        hi = u if u is not None else lo + 4
        if is_int:
            out.append(Fraction(rng.randint(math.ceil(lo), math.floor(hi))))
        else:
            k = rng.randint(0, 8)
            out.append(lo + (hi - lo) * Fraction(k, 8))
    return out


def fresh_name(rng, sh):
    free = [n for n in NAMES if n not in sh.names()]
    return rng.pick(free) if free else None


def gen_var(rng, sh, name=None):
    name = name or fresh_name(rng, sh)
    if name is None:
        return None
    is_int = rng.chance(0.3)
    size = rng.pick([1, 1, 2, 3, 4])
    lb, ub = gen_bounds(rng, size, is_int)
    val = gen_value_in(rng, lb, ub, is_int) if rng.chance(0.6) else None
    return SVar(name, is_int, lb, ub, val)


def probe_line(rng, sh):
    x, u, g = [], [], []
    for l, b, im in zip(sh.flat("lb"), sh.flat("ub"), sh.int_mask()):
        x.append(gen_value_in(rng, [l], [b], False)[0] if not im or rng.chance(0.5) else gen_value_in(rng, [l], [b], True)[0])
        u.append(Fraction(rng.randint(0, 8), 8) if rng.chance(0.8) else Fraction(rng.randint(-8, 16), 8))
        g.append(Fraction(rng.randint(-8, 8), 2))
    return f"probe {rats(x)} {rats(u)} {rats(g)}"


def vec_line(rng, sh, op):
    x = []
    for l, b in zip(sh.flat("lb"), sh.flat("ub")):
        r = rng.random()
        if r < 0.6:
            x.append(gen_value_in(rng, [l], [b], False)[0])
        elif r < 0.7 and l is not None:
            x.append(l)
        elif r < 0.8 and b is not None:
            x.append(b)
        elif r < 0.9 and b is not None:
            x.append(b + Fraction(rng.randint(1, 8), 8))
        elif l is not None:
            x.append(l - Fraction(rng.randint(1, 8), 8))
        else:
            x.append(Fraction(rng.randint(-8, 8)))
    return f"{op} {rats(x)}"


def _inside(v_is_int, lb, ub, val) -> bool:
    if len(val) != len(lb):
        return False
    for x, l, u in zip(val, lb, ub):
        if (l is not None and x < l) or (u is not None and x > u):
            return False
        if v_is_int and x.denominator != 1:
            return False
    return True


def _bounds_ok(is_int, lb, ub) -> bool:
    if len(lb) != len(ub) or not lb:
        return False
    for l, u in zip(lb, ub):
        if l is not None and u is not None and l > u:
            return False
        if is_int and any(b is not None and b.denominator != 1 for b in (l, u)):
            return False
    return True


def _spec_ok(sh, spec, taken) -> bool:
    n, is_int, lb, ub, val = parse_varspec(spec)
    return n not in taken and _bounds_ok(is_int, lb, ub) and (val is None or _inside(is_int, lb, ub, val))


def is_rejected_add(sh: Shadow, line: str) -> bool:
    """An `add_variable` that the code must refuse only because the given current value is outside the bounds (or not
    an integer for an integer variable). Such a call is part of the histories the property quantifies over: the caller
    catches the ValueError and goes on using the design space, which must be what it was before the call."""
    toks = line.split()
    if toks[0] != "add" or len(toks) != 2:
        return False
    try:
        n, is_int, lb, ub, val = parse_varspec(toks[1])
    except Exception:  # noqa: BLE001
        return False
    return n not in sh.names() and _bounds_ok(is_int, lb, ub) and val is not None and len(val) == len(lb) and not _inside(is_int, lb, ub, val)


def valid_line(sh: Shadow, line: str) -> bool:
    """Is the operation inside the property's quantifier in the current (shadow) state?"""
    toks = line.split()
    op = toks[0]
    names = sh.names()
    try:
        if op == "add":
            return len(toks) == 2 and (_spec_ok(sh, toks[1], names) or is_rejected_add(sh, line))
        if op == "remove":
            return toks[1] in names
        if op == "filter":
            keep = toks[1].split(",")
            return all(k in names for k in keep) and len(set(keep)) == len(keep)
        if op == "filterdim":
            dims = [int(t) for t in toks[2].split(",")]
            return toks[1] in names and dims == sorted(set(dims)) and dims and max(dims) < sh.get(toks[1]).size
        if op == "rename":
            return toks[1] in names and toks[2] not in names
        if op == "extend":
            taken = list(names)
            for spec in toks[1:]:
                if not _spec_ok(sh, spec, taken):
                    return False
                taken.append(spec.split(":")[0])
            return len(toks) > 1
        if op in ("setlb", "setub"):
            if toks[1] not in names:
                return False
            v = sh.get(toks[1])
            b = parse_olist(toks[2])
            lb, ub = (b, v.ub) if op == "setlb" else (v.lb, b)
            return len(b) == v.size and _bounds_ok(v.is_int, lb, ub) and (v.value is None or _inside(v.is_int, lb, ub, v.value))
        if op == "setarr":
            x = parse_rlist(toks[1])
            return bool(names) and len(x) == sh.dim() and _inside_all(sh, x)
        if op == "setdict":
            d = dict(kv.split("=") for kv in toks[1:])
            if not d:
                return True
            return set(d) == set(names) and all(_inside(sh.get(k).is_int, sh.get(k).lb, sh.get(k).ub, parse_rlist(v)) for k, v in d.items())
        if op == "setvar":
            return toks[1] in names and _inside(sh.get(toks[1]).is_int, sh.get(toks[1]).lb, sh.get(toks[1]).ub, parse_rlist(toks[2]))
        if op in ("initmissing", "view", "toscalar"):
            return True
        if op == "intnorm":
            return toks[1] in ("0", "1")
        if op == "probe":
            return bool(names) and all(len(parse_rlist(t)) == sh.dim() for t in toks[1:4])
        if op in ("member", "project", "a2d"):
            return bool(names) and len(parse_rlist(toks[1])) == sh.dim()
        if op == "sub":
            ns = toks[1].split(",")
            return bool(ns) and all(n in names for n in ns) and len(set(ns)) == len(ns)
        if op == "d2a":
            d = dict(kv.split("=") for kv in toks[1:])
            return bool(names) and set(d) == set(names) and all(len(parse_rlist(v)) == sh.get(k).size for k, v in d.items())
    except Exception:  # noqa: BLE001
        return False
    return False


def _inside_all(sh, x) -> bool:
    off = 0
    for v in sh.vars:
        if not _inside(v.is_int, v.lb, v.ub, x[off:off + v.size]):
            return False
        off += v.size
    return True


def apply_shadow(sh: Shadow, line: str) -> None:
    """Reference semantics of the in-scope edits (valid arguments only)."""
    toks = line.split()
    op = toks[0]
    if op == "add":
        if is_rejected_add(sh, line):
            return  # refused by the code: the design space is unchanged
        sh.vars.append(SVar(*parse_varspec(toks[1])))
    elif op == "remove":
        sh.vars = [v for v in sh.vars if v.name != toks[1]]
    elif op == "filter":
        keep = toks[1].split(",")
        sh.vars = [v for v in sh.vars if v.name in keep]
    elif op == "filterdim":
        v = sh.get(toks[1])
        dims = [int(t) for t in toks[2].split(",")]
        v.lb = [v.lb[i] for i in dims]
        v.ub = [v.ub[i] for i in dims]
        if v.value is not None:
            v.value = [v.value[i] for i in dims]
    elif op == "rename":
        sh.get(toks[1]).name = toks[2]
    elif op == "extend":
        for spec in toks[1:]:
            sh.vars.append(SVar(*parse_varspec(spec)))
    elif op == "setlb":
        sh.get(toks[1]).lb = parse_olist(toks[2])
    elif op == "setub":
        sh.get(toks[1]).ub = parse_olist(toks[2])
    elif op == "setarr":
        x = parse_rlist(toks[1])
        off = 0
        for v in sh.vars:
            v.value = x[off:off + v.size]
            off += v.size
    elif op == "setdict":
        d = dict(kv.split("=") for kv in toks[1:])
        for v in sh.vars:
            v.value = parse_rlist(d[v.name]) if v.name in d else None
    elif op == "setvar":
        sh.get(toks[1]).value = parse_rlist(toks[2])
    elif op == "initmissing":
        for v in sh.vars:
            if v.value is None:
                c = []
                for l, u in zip(v.lb, v.ub):
                    if l is None:
                        ci = Fraction(0) if u is None else u
                    else:
                        ci = l if u is None else (l + u) / 2
                    if v.is_int:
                        ci = Fraction(math.trunc(ci))
                    c.append(ci)
                v.value = c
    elif op == "intnorm":
        sh.int_norm = toks[1] == "1"


def gen_history(rng: common.Rng, n_ops: int) -> list[str]:
    """In-scope history: valid public edits interleaved with queries."""
    sh = Shadow()
    lines: list[str] = []

    def emit(line):
        lines.append(line)
        apply_shadow(sh, line)

    for _ in range(n_ops):
        r = rng.random()
        names = sh.names()
        if not names or r < 0.2:
            v = gen_var(rng, sh)
            if v is not None:
                if rng.chance(0.12) and any(b is not None for b in list(v.lb) + list(v.ub)):
                    # a refused add: one component of the current value outside its bounds
                    val = list(v.value) if v.value is not None else gen_value_in(rng, v.lb, v.ub, v.is_int)
                    ks = [k for k in range(len(val)) if v.lb[k] is not None or v.ub[k] is not None]
                    k = rng.pick(ks)
                    val[k] = (v.ub[k] + 1) if v.ub[k] is not None else (v.lb[k] - 1)
                    bad_line = "add " + varspec(v.name, v.is_int, v.lb, v.ub, val)
                    if is_rejected_add(sh, bad_line):
                        lines.append(bad_line)
                emit("add " + varspec(v.name, v.is_int, v.lb, v.ub, v.value))
        elif r < 0.26 and len(names) > 1:
            emit(f"remove {rng.pick(names)}")
        elif r < 0.30 and len(names) > 1:
            keep = rng.subset(names, 0.6) or [rng.pick(names)]
            rng.shuffle(keep)
            emit("filter " + ",".join(keep))
        elif r < 0.38:
            cands = [v for v in sh.vars if v.size > 1]
            if cands:
                v = rng.pick(cands)
                dims = sorted(rng.subset(list(range(v.size)), 0.6)) or [rng.randrange(v.size)]
                emit(f"filterdim {v.name} {','.join(map(str, dims))}")
        elif r < 0.48:
            new = fresh_name(rng, sh)
            if new:
                emit(f"rename {rng.pick(names)} {new}")
        elif r < 0.53:
            tmp = Shadow()
            tmp.vars = list(sh.vars)
            specs = []
            for _k in range(rng.randint(1, 2)):
                v = gen_var(rng, tmp)
                if v is not None:
                    tmp.vars.append(v)
                    specs.append(varspec(v.name, v.is_int, v.lb, v.ub, v.value))
            if specs:
                emit("extend " + " ".join(specs))
        elif r < 0.67:
            v = rng.pick(sh.vars)
            lower = rng.chance(0.5)
            nb = []
            for l, u, c in zip(v.lb, v.ub, v.value or [None] * v.size):
                # new bound keeps lb <= ub and the current value inside; power-of-two ranges when finite
                if lower:
                    hi = u if c is None else c
                    if hi is None:
                        nb.append(None if rng.chance(0.5) else Fraction(rng.randint(-4, 4)))
                    elif u is None:
                        nb.append(None if rng.chance(0.3) else Fraction(math.floor(hi)) - rng.pick([0, 1, 2]))
                    else:
                        cands = [u - k for k in ([1, 2, 4, 8, 0] if v.is_int else [Fraction(1, 2), 1, 2, 4, 8, 0]) if c is None or u - k <= c]
                        nb.append(rng.pick(cands) if cands and rng.chance(0.85) else None)
                else:
                    lo = l if c is None else c
                    if lo is None:
                        nb.append(None if rng.chance(0.5) else Fraction(rng.randint(-4, 4)))
                    elif l is None:
                        nb.append(None if rng.chance(0.3) else Fraction(math.ceil(lo)) + rng.pick([0, 1, 2]))
                    else:
                        cands = [l + k for k in ([1, 2, 4, 8, 0] if v.is_int else [Fraction(1, 2), 1, 2, 4, 8, 0]) if c is None or l + k >= c]
                        nb.append(rng.pick(cands) if cands and rng.chance(0.85) else None)
            emit(f"{'setlb' if lower else 'setub'} {v.name} {olist(nb)}")
        elif r < 0.75:
            x = [c for v in sh.vars for c in gen_value_in(rng, v.lb, v.ub, v.is_int)]
            emit(f"setarr {rats(x)}")
        elif r < 0.80:
            if rng.chance(0.8):
                emit("setdict " + " ".join(f"{v.name}={rats(gen_value_in(rng, v.lb, v.ub, v.is_int))}" for v in sh.vars))
            else:
                emit("setdict")  # empty mapping: every current value is dropped
        elif r < 0.86:
            v = rng.pick(sh.vars)
            emit(f"setvar {v.name} {rats(gen_value_in(rng, v.lb, v.ub, v.is_int))}")
        elif r < 0.91:
            emit("initmissing")
        elif r < 0.96:
            emit(f"intnorm {rng.pick([0, 1])}")
        else:
            lines.append("toscalar")
        # queries (they fill the implementation's caches between two edits)
        if sh.vars:
            if rng.chance(0.6):
                lines.append(probe_line(rng, sh))
            if rng.chance(0.4):
                ns = rng.subset(sh.names(), 0.7) or [rng.pick(sh.names())]
                rng.shuffle(ns)
                lines.append("sub " + ",".join(ns))
            if rng.chance(0.35):
                lines.append(vec_line(rng, sh, "member"))
            if rng.chance(0.3):
                lines.append(vec_line(rng, sh, "project"))
            if rng.chance(0.25):
                lines.append(vec_line(rng, sh, "a2d"))
            if rng.chance(0.2):
                lines.append("d2a " + " ".join(f"{v.name}={rats(gen_value_in(rng, v.lb, v.ub, False))}" for v in rng.sample(sh.vars, len(sh.vars))))
    return lines


def gen_probe_history(rng: common.Rng, n_ops: int) -> list[str]:
    """Out-of-scope stream: a valid prefix followed by ONE malformed edit (error branch)."""
    lines = gen_history(rng, n_ops)
    sh = Shadow()
    for ln in lines:
        apply_shadow(sh, ln)
    names = sh.names() or ["x"]
    bad = rng.pick([
        f"add {varspec(names[0], False, [Fraction(0)], [Fraction(1)], None)}",          # existing name
        "remove nope", "filter nope", f"filterdim {names[0]} 9", "rename nope q",
        f"add {varspec('q', False, [Fraction(1)], [Fraction(0)], None)}",               # ub < lb
        f"add {varspec('q', False, [Fraction(0)], [Fraction(1)], [Fraction(5)])}",      # value outside
        f"add {varspec('q', True, [Fraction(1, 2)], [Fraction(1)], None)}",             # non-integer bound
        "setarr 1,2,3,4,5,6,7,8,9,10,11,12,13,14,15,16,17,18,19",
    ])
    return [*lines, bad]


# --------------------------------------------------------------------------- running


def run_history(lines: list[str], scalar_style: bool = False, use_oracle: bool = True):
    """Run a history on the implementation; return (answers, oracle failures [(i, key, msg)])."""
    from gemseo.algos.design_space import DesignSpace

    ds = DesignSpace()
    sh = Shadow()
    holder: dict[str, Any] = {"scalar_style": scalar_style}
    answers = []
    failures = []
    for i, line in enumerate(lines):
        op = line.split()[0]
        if use_oracle and not valid_line(sh, line):
            # malformed w.r.t. the current state (only happens in shrunk / neighbour histories):
            # outside the property's quantifier, the history ends here without a verdict
            return answers, failures
        rejected = use_oracle and is_rejected_add(sh, line)
        try:
            ans = impl_step(ds, line, holder)
        except Exception as e:  # noqa: BLE001
            ans = "X:" + common.exc_class(e)
            holder["last_exc"] = common.short_tb(e)
        answers.append(ans)
        if rejected:
            # the call must be refused and must leave every view as it was
            if not ans.startswith("E"):
                failures.append((i, "add-out-of-bounds-value-accepted", f"`{line}` was not refused: {ans[:120]}"))
                break
            try:
                bad = oracle_view(ds, sh, line, impl_step(ds, "view", holder), holder)
            except Exception as e:  # noqa: BLE001
                bad = [("rejected-add-view-raises", f"view after the refused `{line}` raised {common.exc_class(e)}")]
            if bad:
                failures.append((i, "rejected-add:" + bad[0][0], f"after the refused `{line}`: {bad[0][1]}"))
                break
            continue
        mutating = op not in ("view", "toscalar", "probe", "member", "project", "a2d", "d2a", "sub")
        if not use_oracle:
            if ans.startswith(("E", "X:")):
                break
            continue
        if mutating:
            try:
                apply_shadow(sh, line)
            except Exception:  # noqa: BLE001
                # the history is malformed (e.g. an op of a shrunk/neighbour history refers to a
                # variable that no longer exists): outside the property's quantifier
                return answers, []
        if ans.startswith(("E", "X:")):
            failures.append((i, f"{op}-raises:{ans}", f"`{line}` raised: {holder.get('last_exc', ans)}"))
            break
        try:
            if mutating:
                bad = oracle_view(ds, sh, line, ans, holder)
            elif op == "probe":
                bad = oracle_probe(sh, line, ans, holder)
            elif op == "toscalar":
                bad = []
            else:
                bad = oracle_query(sh, line, ans)
        except Exception as e:  # noqa: BLE001
            bad = [("oracle-crash", f"evaluating the invariants after `{line}` raised {common.short_tb(e)}")]
        for key, msg in bad:
            failures.append((i, key, msg))
        if bad:
            break
    return answers, failures


def shrink_history(lines, key, scalar_style):
    def fails(sub):
        _, fl = run_history(sub, scalar_style)
        return any(k == key for _, k, _ in fl)

    return common.shrink_list(lines, fails, budget=150)


def check_history(res: Result, lines: list[str], in_scope: bool, model_answers: list[str], scalar_style=False):
    answers, failures = run_history(lines, scalar_style, use_oracle=in_scope)
    res.evaluations += 1
    for ln in lines:
        res.count("op:" + ln.split()[0])
    res.count(f"history-len<={(len(lines) // 10 + 1) * 10}")
    if len(lines) >= 3:
        res.nontrivial(" ; ".join(lines))
    if in_scope:
        for i, key, msg in failures:
            small = shrink_history(lines[: i + 1], key, scalar_style)
            a2, f2 = run_history(small, scalar_style)
            res.violate("oracle", key, (f2[0][2] if f2 else msg), {"history": small, "impl_answers": a2, "scalar_style": scalar_style})
    # correspondence with the Lean model, operation by operation
    n = len(answers)
    for i in range(n):
        if not same_answer(answers[i], model_answers[i]):
            res.disagreements += 1
            if in_scope and not failures:
                # search the neighbourhood for a failing input (drop / duplicate each op)
                found = False
                budget = [60]
                res.extra["searches"] = res.extra.get("searches", 0) + 1
                for j in (range(len(lines)) if res.extra["searches"] <= 3 else ()):
                    budget[0] -= 2
                    if budget[0] < 0:
                        break
                    for nb in (lines[:j] + lines[j + 1 :], lines[: j + 1] + [lines[j]] + lines[j + 1 :]):
                        _, f3 = run_history(nb, scalar_style)
                        f3 = [f for f in f3 if "-raises:" not in f[1]]
                        if f3:
                            res.violate("oracle", f3[0][1], f3[0][2], {"history": nb, "scalar_style": scalar_style})
                            found = True
                            break
                    if found:
                        break
                if not found:
                    res.violate(
                        "correspondence", "model-vs-impl",
                        f"implementation and Lean model disagree after `{lines[i]}`",
                        {"history": lines[: i + 1], "op_index": i, "impl": answers[i], "model": model_answers[i],
                         "correspondence": "Driver/C02.lean step", "scalar_style": scalar_style},
                    )
            elif not in_scope:
                if answers[i].startswith(("E", "X:")) and model_answers[i] == "E":
                    pass
                else:
                    res.count("probe-disagreement")
                    if len(res.notes) < 5:
                        res.notes.append(f"out-of-scope probe: `{lines[i]}` impl={answers[i][:80]} model={model_answers[i][:80]}")
            break
    else:
        res.traces_validated += 1
    res.sample({"history": lines[:6], "impl_last": answers[-1][:200] if answers else None}, cap=3)


def batch_model(histories: list[list[str]]) -> list[list[str]]:
    flat = []
    for h in histories:
        flat.append("reset")
        flat.extend(h)
    out = common.run_lean_driver(PID, flat)
    res, k = [], 0
    for h in histories:
        k += 1
        res.append(out[k : k + len(h)])
        k += len(h)
    return res


def load_corpus():
    d = common.CORPUS_DIR / PID
    out = []
    if d.is_dir():
        for p in sorted(d.glob("*.json")):
            j = json.loads(p.read_text())
            out.append((j["history"], j.get("scalar_style", False)))
    return out


EXH_ALPHABET = [
    "add x:f:0,1:2,5:1,2",
    "add yx:i:-2:2:_",
    "add x_1:f:_:3/4:_",
    "remove x",
    "rename x z",
    "rename yx x",
    "filterdim x 1",
    "setub x 4,5",
    "setlb yx -6",
    "setarr 1/2,2,0",
    "setarr 1,2",
    "initmissing",
    "intnorm 1",
    "probe 1/2,3,1 1/4,1/2,3/4 1,-2,3",
    "probe 1/2,3 1/4,1/2 1,-2",
    "member 2,5,2",
    "sub yx,x",
    "sub x",
]


def exhaustive_histories(max_len: int) -> list[list[str]]:
    """Every in-scope sequence of at most `max_len` operations over the reduced alphabet
    (prefixes that leave the quantifier are pruned; queries at the end are kept only after an edit)."""
    out: list[list[str]] = []

    def rec(prefix: list[str], sh: Shadow):
        if prefix:
            out.append(list(prefix))
        if len(prefix) == max_len:
            return
        for op in EXH_ALPHABET:
            if not valid_line(sh, op):
                continue
            sh2 = copy.deepcopy(sh)
            if op.split()[0] not in ("probe", "member", "sub"):
                apply_shadow(sh2, op)
            rec([*prefix, op], sh2)

    rec([], Shadow())
    # keep maximal histories only (every proper prefix is checked step by step anyway)
    keep = []
    seen = set()
    for h in sorted(out, key=len, reverse=True):
        t = tuple(h)
        if t in seen:
            continue
        keep.append(h)
        for k in range(1, len(h) + 1):
            seen.add(t[:k])
    return keep


def _worker(args):
    common.quiet_gemseo()
    lines, style = args
    return run_history(lines, style)


def run(ctx) -> Result:
    res = Result(PID)
    for old in common.REPLAY_DIR.glob(f"{PID}-*.json") if common.REPLAY_DIR.is_dir() else []:
        old.unlink()
    res.rule = (
        "random histories of public DesignSpace edits (add/remove/filter/filter_dimensions/rename/extend/set bounds/"
        "set current value by array, dict, variable/initialize/integer normalisation) over multi-character names, sizes 1-4, "
        "float and integer variables, finite/infinite/equal bounds, interleaved with cache-filling queries; the whole public "
        "view is compared after every edit; non-trivial = at least 3 operations; distinct by operation sequence"
    )
    res.assumptions = [
        "in-scope edits have valid arguments (fresh names, lb<=ub, values inside bounds); malformed edits are probed separately and cannot raise a violation",
        "floats are exact on this stream: dyadic bounds/values with power-of-two ranges",
    ]
    rng = ctx.rng
    n_hist = 6000 if ctx.thorough else 1000
    corpus = load_corpus()
    hs = [h for h, _ in corpus]
    styles = [s for _, s in corpus]
    for _ in range(n_hist):
        hs.append(gen_history(rng, rng.pick([3, 6, 10, 15, 25])))
        styles.append(rng.chance(0.3))
    models = batch_model(hs)
    for h, s, m in zip(hs, styles, models):
        check_history(res, h, True, m, s)
    probes = [gen_probe_history(rng, rng.pick([2, 5, 8])) for _ in range(n_hist // 8)]
    pm = batch_model(probes)
    for h, m in zip(probes, pm):
        check_history(res, h, False, m)
    if ctx.thorough:
        # exhaustive small scope: every in-scope sequence of <= 5 operations over a reduced alphabet
        ex = exhaustive_histories(5)
        res.extra["exhaustive_sequences"] = len(ex)
        res.exhaustive = True
        models = batch_model(ex)
        import multiprocessing as mp

        with mp.get_context("fork").Pool(14) as pool:
            results = pool.map(_worker, [(h, False) for h in ex], chunksize=64)
        for h, m, (answers, failures) in zip(ex, models, results):
            res.evaluations += 1
            res.count("exhaustive-small-scope")
            res.nontrivial("ex:" + " ; ".join(h))
            for i, key, msg in failures:
                res.violate("oracle", key, msg, {"history": h[: i + 1], "scalar_style": False})
            for a, mm, ln in zip(answers, m, h):
                if not same_answer(a, mm):
                    res.disagreements += 1
                    if not failures:
                        res.violate("correspondence", "model-vs-impl", f"implementation and Lean model disagree after `{ln}` (exhaustive stream)",
                                    {"history": h, "impl": a, "model": mm, "correspondence": "Driver/C02.lean step", "scalar_style": False})
                    break
            else:
                res.traces_validated += 1
    return res


def replay(path: str) -> int:
    data = json.loads(open(path).read())
    rp = data["replay"]
    lines = rp["history"]
    answers, failures = run_history(lines, rp.get("scalar_style", False))
    model = batch_model([lines])[0]
    for ln, a, m in zip(lines, answers, model):
        print(">", ln)
        print("  impl :", a)
        print("  model:", m)
    for i, k, msg in failures:
        print("ORACLE FAILS at op", i, k, msg)
    return 1 if failures else 0
