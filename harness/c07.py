"""C07 — coupled total derivatives satisfy the implicit-function equations.

Cases: random LINEAR coupled systems (2-4 coupled disciplines + optional weakly coupled
pre/post disciplines, variable sizes 1-3 chosen asymmetric on purpose, strong, weak and self
couplings, optionally one discipline with a residual/state pair) with exact dyadic partial
derivatives (harness/c07_disc.py), differentiated

* through ``MDA*.linearize`` (MDAJacobi, MDAGaussSeidel, MDAChain with and without chain
  linearization, MDANewtonRaphson on fully strongly coupled systems) and
* through successive ``JacobianAssembly.total_derivatives`` requests on one assembly,

for every (mode, matrix_type, use_lu_fact, linear_solver) combination and random ordered subsets
of inputs and outputs.

Oracle (independent of the model and of the code): the derivative of the *converged coupled
solution* computed in exact rational arithmetic from the specification of the system
(all discipline outputs and states are the unknowns of one affine system ``M u = N x + k``,
``du/dx = M^-1 N``), cross-checked against the closed form of the property text
``dF/dx = F_x - F_y R_y^-1 R_x`` (also over ``Fraction``).  POSITIVE assertion:
``|impl - exact| <= 2^-30 * max(1, |exact|)`` for every entry (rounded stream: the linear solvers
are iterative), shapes must match, no exception.

Round-2 strengthening (see notes/C07.md):
* badly scaled but well-conditioned data: the variables of a generated system are rescaled by exact
  powers of two (``exps``: design inputs, pure functions and the block of coupled variables get
  exponents in {-k, 0, +k}, k up to 45); the rescaled system is again an exact dyadic system whose
  total derivatives are the rescaled ones, and every entry is compared with a bound RELATIVE to the
  natural scale ``2^(e_f - e_x)`` of its block; "sweep" cases run one request through every
  (mode, matrix type, LU) combination;
* histories: the same MDA linearized again (same point / another point, added differentiated
  outputs), a second MDA built on the same discipline instances (simple and full memory caches),
  disciplines returning SciPy CSR/CSC/COO arrays and matrices, dense arrays or operators, possibly
  restricted to the requested blocks; after every step the disciplines' own Jacobians
  (``discipline.jac`` and the Jacobians held by their caches) must still be their exact partials;
* every step runs under a deterministic work limit (number of linear-operator applications,
  harness/c07_limits.py): a solve that does not return is an oracle failure with the case as replay.

Round-3 strengthening (see notes/C07.md):
* NON-LINEAR systems ("nl" cases): quadratic terms with dyadic coefficients (design x design, design x
  coupling on the couplings; also coupling x coupling on the pure functions) make the partial Jacobians
  depend on the point.  For fixed design inputs the coupled system is affine in the unknowns, so the oracle
  computes the converged point exactly (Fractions), the partial derivatives at that point (the "tangent
  system") and the implicit-function closed form; cross-check: central differences of exact solutions.
  The same MDA / the same assembly / several MDAs on the same disciplines are linearized at 2-3 DIFFERENT
  points, the point-dependent blocks being returned as JacobianOperator (half of the disciplines), sparse
  or dense; the model gets the tangent system of every step.
* requests WITHOUT connectivity condition ("free" cases): inputs on which no requested function depends
  (a `Side` discipline reads a design input of its own), functions that depend on no requested input, alone
  and together with dependent ones: zero blocks of the right shape, the other blocks unchanged; grammar
  defaults of the design inputs with OTHER lengths than the values passed (every point is explicit).

Correspondence with the Lean model (Driver/C07.lean):
* exact stream — ``JacobianAssembly.assemble_jacobian`` (sparse matrix, and linear operator
  applied to the canonical basis with ``matvec`` and ``rmatvec``) for random function/variable
  lists, with and without ``is_residual``: compared entry by entry, exactly;
* rounded stream — total derivatives (direct / adjoint / auto) against the model's exact result.
"""

from __future__ import annotations

import copy
import itertools
import json
import math
import os
import time
from fractions import Fraction
from typing import Any

import numpy as np

from harness import common
from harness.common import F
from harness.common import Result
from harness.common import rat
from harness.c07_limits import WallClockSkip
from harness.c07_limits import WorkLimit
from harness.c07_limits import work_limit

PID = "C07"
BOUND = Fraction(1, 2**30)
# Deterministic work limit of one step (operator applications, harness/c07_limits.py).  The
# unchanged code needs at most a few hundred (measured maximum printed in the evidence as
# `max_operator_applications_per_step`); see notes/C07.md.
WORK_LIMIT = 20000
WORK_LIMIT_LOW = 4000  # limit of the remaining steps of a run once 2 steps (GMRES-type solvers) have hit WORK_LIMIT
CASE_WALL_S = 300.0  # wall-clock guard of one step: the case is skipped (never judged)
SHRINK_WALL_S = 30.0  # wall-clock budget of one shrink (only the size of the replay depends on it)
_EXCEEDED = [0]  # number of steps of this process that hit the work limit
MAX_EXP = 48

TRUSTED_EXTRA = (
    "C07: SciPy's iterative solvers / SuperLU return a solution of the system they are given (assumed; the "
    "oracle checks the final derivatives against the exact closed form up to 2^-30, so a non-converged solve "
    "cannot pass)",
    "C07: matrix-free products (AssembledJacobianOperator, JacobianOperator algebra) are validated by the exact "
    "correspondence on the canonical basis, not proved",
    "C07: round-1/2 harness systems are linear (partial Jacobians independent of the point); the non-linear ones "
    "(round 3) are affine in the couplings for fixed design inputs: the oracle's converged point is the exact "
    "rational solution, the MDA's is within its tolerance (1e-14) of it, and the partial derivatives that depend "
    "on the couplings are compared within the bound of the rounded stream",
    "C07: multiplication of a double by 2^k (|k| <= 96, no underflow/overflow on the generated data) is exact, so "
    "the rescaled systems have exactly the partial derivatives the oracle uses",
    "C07: the work limit counts SciPy LinearOperator applications (monkey-patched counter in the harness process "
    "only); a hang that performs no operator application ends in the global time-out (exit 2)",
)

SOLVERS = ("DEFAULT", "LGMRES", "GMRES", "BICG", "BICGSTAB", "GCROT", "TFQMR", "CGS")
MODES = ("direct", "adjoint", "auto")
MTYPES = ("matrix", "linear_operator")
KINDS = ("dense", "operator", "csr_array", "csr_matrix", "csc_array", "csc_matrix", "coo_array", "coo_matrix")
SWEEP = [(m, mt, lu) for m in MODES for (mt, lu) in (("matrix", False), ("matrix", True), ("linear_operator", False))]

# --------------------------------------------------------------------------- exact linear algebra


def fzeros(r: int, c: int) -> list[list[Fraction]]:
    return [[Fraction(0)] * c for _ in range(r)]


def fmul(a, b):
    n, k, m = len(a), len(b), (len(b[0]) if b else 0)
    return [[sum((a[i][t] * b[t][j] for t in range(k)), Fraction(0)) for j in range(m)] for i in range(n)]


def fsolve(a, b):
    """Solve a x = b over Fraction by Gauss-Jordan; None when singular. a: n x n, b: n x m."""
    n = len(a)
    m = len(b[0]) if b and b[0] else 0
    aug = [list(a[i]) + list(b[i]) for i in range(n)]
    for col in range(n):
        piv = next((r for r in range(col, n) if aug[r][col] != 0), None)
        if piv is None:
            return None
        aug[col], aug[piv] = aug[piv], aug[col]
        p = aug[col][col]
        aug[col] = [v / p for v in aug[col]]
        for r in range(n):
            if r != col and aug[r][col] != 0:
                f = aug[r][col]
                aug[r] = [x - f * y for x, y in zip(aug[r], aug[col])]
    return [row[n : n + m] for row in aug]


# --------------------------------------------------------------------------- systems
# system = {"sizes": {var: n}, "discs": [spec, ...]} with spec as in harness/c07_disc.py


def producers(system) -> dict[str, int]:
    prod = {}
    for k, d in enumerate(system["discs"]):
        for o in [*d["outs"], *d.get("states", {}).values(), *d.get("states", {})]:
            prod[o] = k
    return prod


def disc_inputs(d) -> list[str]:
    return [*d["ins"], *d.get("states", {}).values()]


def design_inputs(system) -> list[str]:
    prod = producers(system)
    seen = []
    for d in system["discs"]:
        for i in d["ins"]:
            if i not in prod and i not in seen:
                seen.append(i)
    return seen


def all_states(system) -> dict[str, str]:
    res = {}
    for d in system["discs"]:
        res.update(d.get("states", {}))
    return res


def all_couplings(system) -> list[str]:
    """Outputs of a discipline that are inputs of a discipline (states excluded), sorted."""
    prod = producers(system)
    states = set(all_states(system).values())
    used = {i for d in system["discs"] for i in d["ins"]}
    return sorted(v for v in prod if v in used and v not in states)


def block(system, o: str, i: str):
    """Exact partial d o / d i of the producer of o (None when i is not one of its inputs or zero)."""
    prod = producers(system)
    d = system["discs"][prod[o]]
    inv = {w: r for r, w in d.get("states", {}).items()}
    if o in inv:
        r = inv[o]
        if i == o or i not in d["A"].get(r, {}):
            return None
        diag = [Fraction(d["A"][r][o][k][k]) for k in range(system["sizes"][o])]
        return [[-Fraction(v) / diag[k] for v in row] for k, row in enumerate(d["A"][r][i])]
    m = d["A"].get(o, {}).get(i)
    return None if m is None else [[Fraction(v) for v in row] for row in m]


def exact_total(system) -> dict[tuple[str, str], list[list[Fraction]]] | None:
    """Derivative of the converged coupled solution wrt the design inputs, exactly.

    Unknowns u: every discipline output and state; equations: the defining equation of each explicit
    output and each residual; M u = N x + k  =>  du/dx = M^-1 N.
    """
    sizes = system["sizes"]
    prod = producers(system)
    res_of = all_states(system)
    unknowns = [v for v in prod if v not in res_of]  # explicit outputs and states
    xs = design_inputs(system)
    uoff, off = {}, 0
    for v in unknowns:
        uoff[v] = off
        off += sizes[v]
    nu = off
    xoff, off = {}, 0
    for v in xs:
        xoff[v] = off
        off += sizes[v]
    nx = off
    m = fzeros(nu, nu)
    n = fzeros(nu, nx)
    row = 0
    state_res = {w: r for r, w in res_of.items()}
    for v in unknowns:
        d = system["discs"][prod[v]]
        eq = state_res.get(v, v)  # a state is defined by its residual equation
        blocks = d["A"].get(eq, {})
        for a in range(sizes[v]):
            if eq == v:
                m[row + a][uoff[v] + a] += 1  # v - (c + sum A in) = 0
            for i, mat in blocks.items():
                for b in range(sizes[i]):
                    coef = Fraction(mat[a][b])  # explicit: v - A u = A x + c;  residual: - A u = A x + c
                    if i in uoff:
                        m[row + a][uoff[i] + b] -= coef
                    else:
                        n[row + a][xoff[i] + b] += coef
        row += sizes[v]
    sol = fsolve(m, n)
    if sol is None:
        return None
    out = {}
    for v in unknowns:
        for x in xs:
            out[(v, x)] = [sol[uoff[v] + a][xoff[x] : xoff[x] + sizes[x]] for a in range(sizes[v])]
    for r in res_of:
        for x in xs:
            out[(r, x)] = fzeros(sizes[r], sizes[x])
    return out


def assemble_exact(system, functions, variables, is_residual: bool):
    """Property-text assembly over Fraction: block (i, j) at the prefix-sum offsets, -I on Yi-Yi."""
    sizes = system["sizes"]
    nr = sum(sizes[f] for f in functions)
    nc = sum(sizes[v] for v in variables)
    out = fzeros(nr, nc)
    r0 = 0
    for f in functions:
        c0 = 0
        for v in variables:
            b = block(system, f, v)
            for a in range(sizes[f]):
                for c in range(sizes[v]):
                    val = b[a][c] if b is not None else Fraction(0)
                    if is_residual and f == v and a == c:
                        val -= 1
                    out[r0 + a][c0 + c] = val
            c0 += sizes[v]
        r0 += sizes[f]
    return out


def closed_form(system, functions, variables):
    """dF/dx = F_x - F_y R_y^-1 R_x with all the couplings, the residuals and the states (property text)."""
    states = all_states(system)
    ys = all_couplings(system)
    rows = ys + list(states)
    cols = ys + list(states.values())
    r_y = assemble_exact(system, rows, cols, True)
    r_x = assemble_exact(system, rows, variables, True)
    x = fsolve(r_y, r_x) if rows else []
    if x is None:
        return None
    out = {}
    for f in functions:
        f_x = assemble_exact(system, [f], variables, False)
        f_y = assemble_exact(system, [f], cols, False)
        corr = fmul(f_y, x) if rows else fzeros(len(f_x), len(f_x[0]) if f_x else 0)
        tot = [[a - b for a, b in zip(ra, rb)] for ra, rb in zip(f_x, corr)]
        c0 = 0
        for v in variables:
            n = system["sizes"][v]
            out[(f, v)] = [row[c0 : c0 + n] for row in tot]
            c0 += n
    return out


# --------------------------------------------------------------------------- non-linear systems (round 3)
# A discipline may carry quadratic terms  "Q": {out: [[coef, a, ai, b, bi, row], ...]}
# (out[row] += coef * a[ai] * b[bi], a and b inputs of the discipline, coef dyadic).  On an output that is an
# input of some discipline (a coupling) every term has at least one DESIGN-input factor: for fixed design
# inputs the coupled system is then affine in the unknowns, so the converged point is a rational vector the
# oracle computes exactly (the certificate of the converged point), and the partial derivatives at that point
# are rational too.  Outputs used by no discipline (pure functions) may also carry products of two couplings.


def nonlinear(system) -> bool:
    return any(d.get("Q") for d in system["discs"])


def used_as_input(system) -> set[str]:
    return {i for d in system["discs"] for i in d["ins"]}


def point_values(system, point) -> dict[str, list[Fraction]]:
    """Values of the design inputs at the point of a step: an int p (round-2 cases) means every
    component = p/4; a dict {input: [rationals]} gives them explicitly (missing input: zeros)."""
    sizes = system["sizes"]
    if isinstance(point, dict):
        return {x: ([Fraction(v) for v in point[x]] if x in point else [Fraction(0)] * sizes[x]) for x in design_inputs(system)}
    return {x: [Fraction(int(point or 0), 4)] * sizes[x] for x in design_inputs(system)}


def solve_point(system, xv) -> dict[str, list[Fraction]] | None:
    """The converged coupled solution at the design inputs `xv`, exactly: every explicit output and
    state (residuals: zero), plus the design inputs themselves."""
    sizes = system["sizes"]
    prod = producers(system)
    res_of = all_states(system)
    state_res = {w: r for r, w in res_of.items()}
    unknowns = [v for v in prod if v not in res_of]
    uoff, off = {}, 0
    for v in unknowns:
        uoff[v] = off
        off += sizes[v]
    nu = off
    m = fzeros(nu, nu)
    rhs = [[Fraction(0)] for _ in range(nu)]
    late = []
    for v in unknowns:
        d = system["discs"][prod[v]]
        eq = state_res.get(v, v)
        cvec = d["c"].get(eq, [0] * sizes[v])
        for a in range(sizes[v]):
            row = uoff[v] + a
            if eq == v:
                m[row][row] += 1
            const = Fraction(cvec[a])
            for i, mat in d["A"].get(eq, {}).items():
                for b in range(sizes[i]):
                    coef = Fraction(mat[a][b])
                    if i in uoff:
                        m[row][uoff[i] + b] -= coef
                    else:
                        const += coef * xv[i][b]
            rhs[row][0] = const
        if eq != v:
            continue
        for t in (d.get("Q") or {}).get(v, []):
            coef, fa, ai, fb, bi, r = Fraction(t[0]), t[1], int(t[2]), t[3], int(t[4]), int(t[5])
            row = uoff[v] + r
            da, db = fa in xv, fb in xv
            if da and db:
                rhs[row][0] += coef * xv[fa][ai] * xv[fb][bi]
            elif da:
                m[row][uoff[fb] + bi] -= coef * xv[fa][ai]
            elif db:
                m[row][uoff[fa] + ai] -= coef * xv[fb][bi]
            else:
                late.append((row, coef, uoff[fa] + ai, uoff[fb] + bi))
    sol = fsolve(m, rhs) if nu else []
    if sol is None:
        return None
    u = [r[0] for r in sol]
    for row, coef, ia, ib in late:
        u[row] += coef * u[ia] * u[ib]
    vals = {x: list(v) for x, v in xv.items()}
    for v in unknowns:
        vals[v] = u[uoff[v] : uoff[v] + sizes[v]]
    for r in res_of:
        vals[r] = [Fraction(0)] * sizes[r]
    return vals


def tangent_system(system, xv):
    """The LINEAR system whose blocks are the exact partial derivatives of the disciplines at the
    converged point of `xv` (the quadratic terms differentiated at that point; no "Q" left)."""
    if not nonlinear(system):
        return system
    vals = solve_point(system, xv)
    if vals is None:
        return None
    sizes = system["sizes"]
    s = copy.deepcopy(system)
    for d in s["discs"]:
        q = d.pop("Q", None) or {}
        for o, terms in q.items():
            bl = d["A"].setdefault(o, {})
            acc = {}
            for t in terms:
                coef, fa, ai, fb, bi, r = Fraction(t[0]), t[1], int(t[2]), t[3], int(t[4]), int(t[5])
                for i, idx, other, oidx in ((fa, ai, fb, bi), (fb, bi, fa, ai)):
                    if i not in acc:
                        acc[i] = [[Fraction(v) for v in row] for row in bl[i]] if i in bl else fzeros(sizes[o], sizes[i])
                    acc[i][r][idx] += coef * vals[other][oidx]
            for i, mat in acc.items():
                bl[i] = [[rat(v) for v in row] for row in mat]
    return s


def quad_terms_valid(system) -> bool:
    """Shape of the quadratic terms: factors are inputs of the discipline (not its states), indices in
    range, dyadic coefficients; on a coupling every term has a design-input factor."""
    sizes = system["sizes"]
    xs = set(design_inputs(system))
    used = used_as_input(system)
    for d in system["discs"]:
        for o, terms in (d.get("Q") or {}).items():
            if o not in d["outs"]:
                return False
            for t in terms:
                if len(t) != 6:
                    return False
                coef, fa, ai, fb, bi, r = Fraction(t[0]), t[1], int(t[2]), t[3], int(t[4]), int(t[5])
                if fa not in d["ins"] or fb not in d["ins"]:
                    return False
                if not (0 <= ai < sizes[fa] and 0 <= bi < sizes[fb] and 0 <= r < sizes[o]):
                    return False
                if coef.denominator & (coef.denominator - 1) or abs(coef) > 1:
                    return False
                if o in used and fa not in xs and fb not in xs:
                    return False
    return True


def derivative_by_differences(system, xv, h=Fraction(1, 2**24)):
    """Independent cross-check of the oracle on a non-linear system: central differences of the EXACT
    converged solution (error O(h^2) on a quadratic system)."""
    out = {}
    sizes = system["sizes"]
    for x in xv:
        cols = []
        for b in range(sizes[x]):
            hi = {k: list(v) for k, v in xv.items()}
            lo = {k: list(v) for k, v in xv.items()}
            hi[x][b] += h
            lo[x][b] -= h
            vh, vl = solve_point(system, hi), solve_point(system, lo)
            if vh is None or vl is None:
                return None
            cols.append({v: [(p - q) / (2 * h) for p, q in zip(vh[v], vl[v])] for v in vh if v not in xv})
        for v in cols[0] if cols else []:
            out[(v, x)] = [[cols[b][v][a] for b in range(sizes[x])] for a in range(sizes[v])]
    return out


def add_quadratic_terms(rng, system):
    """A copy of a generated linear system with quadratic terms (dyadic coefficients)."""
    s = copy.deepcopy(system)
    sizes = s["sizes"]
    xs = set(design_inputs(s))
    used = used_as_input(s)
    added = 0
    for d in s["discs"]:
        ins = list(d["ins"])
        dx = [i for i in ins if i in xs]
        for o in d["outs"]:
            pure = o not in used
            terms = []
            for _ in range(rng.pick([0, 1, 1, 2, 3])):
                if pure and rng.chance(0.5):
                    fa = rng.pick(ins)
                elif dx:
                    fa = rng.pick(dx)
                else:
                    continue
                fb = rng.pick(ins)
                terms.append([rat(Fraction(rng.pick([-2, -1, 1, 2]), 8)), fa, rng.randrange(sizes[fa]),
                              fb, rng.randrange(sizes[fb]), rng.randrange(sizes[o])])
            if terms:
                d.setdefault("Q", {})[o] = terms
                added += len(terms)
    if not added:
        cands = [(d, o) for d in s["discs"] for o in d["outs"] if any(i in xs for i in d["ins"])]
        if not cands:
            return None
        d, o = rng.pick(cands)
        fa = rng.pick([i for i in d["ins"] if i in xs])
        fb = rng.pick(d["ins"])
        d.setdefault("Q", {})[o] = [[rat(Fraction(rng.pick([-1, 1]), 4)), fa, rng.randrange(sizes[fa]), fb,
                                     rng.randrange(sizes[fb]), rng.randrange(sizes[o])]]
    # contraction on the box |design inputs| <= 1: coupling row sums of |A| plus the |coefficients| of the
    # (design x coupling) terms <= 1/2 (the tangent system at every generated point is checked again)
    prod = producers(s)
    for d in s["discs"]:
        for o, terms in (d.get("Q") or {}).items():
            if o not in used:
                continue
            for a in range(sizes[o]):
                mine = [t for t in terms if int(t[5]) == a and ((t[1] in prod) != (t[3] in prod))]
                while True:
                    tot = sum(abs(Fraction(m[a][b])) for i, m in d["A"].get(o, {}).items() if i in prod for b in range(sizes[i]))
                    tot += sum(abs(Fraction(t[0])) for t in mine)
                    if tot <= Fraction(1, 2):
                        break
                    for i, m in d["A"].get(o, {}).items():
                        if i in prod:
                            m[a] = [rat(Fraction(v) / 2) for v in m[a]]
                    for t in mine:
                        t[0] = rat(Fraction(t[0]) / 2)
    return s


def add_side_discipline(rng, system):
    """A copy of the system with one more discipline `Side` computing a new function from a NEW design
    input (and possibly couplings / other design inputs): no other function depends on that input."""
    s = copy.deepcopy(system)
    sizes = s["sizes"]
    free = [n for n in _NAMES if n not in sizes]
    p, g = rng.sample(free, 2)
    sizes[p] = rng.pick([1, 2, 3, 3])
    sizes[g] = rng.pick([1, 2])
    prod = producers(s)
    res = set(all_states(s)) | set(all_states(s).values())
    ins = [p]
    for v in prod:
        if v not in res and rng.chance(0.3):
            ins.append(v)
    for x in design_inputs(system):
        if rng.chance(0.3):
            ins.append(x)
    rng.shuffle(ins)
    d = {"name": "Side", "ins": ins, "outs": [g],
         "A": {g: {i: [[rat(v) for v in row] for row in _rand_block(rng, sizes[g], sizes[i], lo=-2, hi=2)] for i in ins}},
         "c": {g: [rat(_dy(rng)) for _ in range(sizes[g])]}}
    s["discs"].insert(rng.randrange(len(s["discs"]) + 1), d)
    return s, p


def gen_point(rng, system) -> dict[str, list[str]]:
    """A point of the box |x| <= 1 with dyadic coordinates (multiples of 1/4)."""
    return {x: [rat(Fraction(rng.randint(-4, 4), 4)) for _ in range(system["sizes"][x])] for x in design_inputs(system)}


def gen_default_sizes(rng, system, sure=()) -> dict[str, int]:
    """Lengths of the grammar defaults of some design inputs, different from the lengths of the values."""
    out = {}
    for x in design_inputs(system):
        if x in sure or rng.chance(0.5):
            out[x] = rng.pick([n for n in (1, 2, 3, 4) if n != system["sizes"][x]])
    return out


# --------------------------------------------------------------------------- exact rescaling of the variables


def coupled_vars(system) -> set[str]:
    """The variables of the residual system: couplings (produced and used), states, residuals."""
    st = all_states(system)
    return set(all_couplings(system)) | set(st) | set(st.values())


def scale_system(system, exps):
    """The system expressed in the rescaled variables ``v' = 2^exps[v] * v`` (exact, Fractions):
    block d o / d i is multiplied by ``2^(e_o - e_i)``, the constant of ``o`` by ``2^e_o``."""
    if not exps:
        return system
    w = {v: Fraction(2) ** int(exps.get(v, 0)) for v in system["sizes"]}
    s = {"sizes": dict(system["sizes"]), "discs": []}
    for d in system["discs"]:
        e = {
            "name": d["name"],
            "ins": list(d["ins"]),
            "outs": list(d["outs"]),
            "A": {
                o: {i: [[rat(Fraction(v) * w[o] / w[i]) for v in row] for row in m] for i, m in bl.items()}
                for o, bl in d["A"].items()
            },
            "c": {o: [rat(Fraction(v) * w[o]) for v in vec] for o, vec in d["c"].items()},
        }
        if d.get("states"):
            e["states"] = dict(d["states"])
        s["discs"].append(e)
    return s


def eff_system(case):
    """The system the implementation is run on: the (well-scaled) base system of the case in the
    rescaled variables."""
    return scale_system(case["system"], case.get("exps"))


def block_scale(exps, f: str, x: str) -> Fraction:
    """Natural scale of the block d f / d x of a rescaled system."""
    if not exps:
        return Fraction(1)
    return Fraction(2) ** (int(exps.get(f, 0)) - int(exps.get(x, 0)))


def exps_valid(system, exps) -> bool:
    """All the variables of the residual system share one exponent (the residual Jacobian of the
    rescaled system is the one of the base system: well conditioned), |exponent| <= MAX_EXP."""
    if not exps:
        return True
    try:
        if any(v not in system["sizes"] or abs(int(e)) > MAX_EXP or int(e) != e for v, e in exps.items()):
            return False
    except (TypeError, ValueError):
        return False
    return len({int(exps.get(v, 0)) for v in coupled_vars(system)}) <= 1


def gen_exps(rng, system) -> dict[str, int]:
    k = rng.pick([20, 34, 36, 40, 45, 45])
    cv = coupled_vars(system)
    ec = rng.pick([-k, 0, k])
    exps = {}
    for v in system["sizes"]:
        e = ec if v in cv else rng.pick([-k, 0, k])  # design inputs, pure functions: their own unit
        if e:
            exps[v] = e
    vals = {int(exps.get(v, 0)) for v in system["sizes"]}
    if len(vals) < 2:
        # everything got the same exponent: nothing is rescaled relatively; move the design inputs
        e0 = vals.pop()
        for v in design_inputs(system):
            exps[v] = -k if e0 == 0 else 0
        exps = {v: e for v, e in exps.items() if e}
    return exps


def scaled_exact(exact, exps):
    """Rescaling of the exact total derivatives of the base system (cross-check of the oracle)."""
    return {(f, x): [[v * block_scale(exps, f, x) for v in row] for row in m] for (f, x), m in exact.items()}


# --------------------------------------------------------------------------- generation

_NAMES = [a + b for a in "abcdefgh" for b in "pqrs"]


def _dy(rng, lo=-4, hi=4, den=8) -> Fraction:
    return Fraction(rng.randint(lo, hi), den)


def _rand_block(rng, r, c, dense=0.8, lo=-4, hi=4, den=8):
    m = [[(_dy(rng, lo, hi, den) if rng.chance(dense) else Fraction(0)) for _ in range(c)] for _ in range(r)]
    if all(v == 0 for row in m for v in row):
        m[rng.randrange(r)][rng.randrange(c)] = Fraction(rng.pick([-1, 1]), den)
    return m


def gen_system(rng: common.Rng) -> dict[str, Any]:
    names = list(_NAMES)
    rng.shuffle(names)
    take = iter(names)
    sizes: dict[str, int] = {}

    def new(size=None):
        n = next(take)
        sizes[n] = size if size is not None else rng.pick([1, 1, 2, 2, 3])
        return n

    xs = [new() for _ in range(rng.pick([1, 2, 2, 3]))]
    n_c = rng.pick([2, 2, 3, 3, 4])
    p_edge = rng.pick([0.3, 0.6, 1.0])
    discs = []
    outs_of = []
    for k in range(n_c):
        outs = [new() for _ in range(rng.pick([1, 1, 2]))]
        outs_of.append(outs)
        discs.append({"name": f"D{k}", "ins": [], "outs": outs, "A": {}, "c": {}})
    # coupling edges j -> i (i takes some outputs of j), self loops allowed
    for i in range(n_c):
        for j in range(n_c):
            p = 0.2 if i == j else p_edge
            if rng.chance(p):
                for o in outs_of[j] if rng.chance(0.5) else [rng.pick(outs_of[j])]:
                    if o not in discs[i]["ins"]:
                        discs[i]["ins"].append(o)
    # optional weakly coupled pre-discipline (x -> p, p used by coupled ones)
    if rng.chance(0.35):
        pouts = [new()]
        discs.insert(rng.randrange(len(discs) + 1), {"name": "Pre", "ins": [], "outs": pouts, "A": {}, "c": {}})
        users = [d for d in discs if d["name"].startswith("D") and rng.chance(0.6)] or [discs[0] if discs[0]["name"] != "Pre" else discs[1]]
        for d in users:
            d["ins"].append(pouts[0])
    # optional post-discipline computing functions of couplings
    if rng.chance(0.7):
        fouts = [new() for _ in range(rng.pick([1, 2]))]
        cand = [o for outs in outs_of for o in outs]
        ins = [o for o in cand if rng.chance(0.6)] or [rng.pick(cand)]
        discs.insert(rng.randrange(len(discs) + 1), {"name": "Post", "ins": ins, "outs": fouts, "A": {}, "c": {}})
    # design inputs
    for d in discs:
        for x in xs:
            if rng.chance(0.55):
                d["ins"].append(x)
    for x in xs:
        if not any(x in d["ins"] for d in discs):
            rng.pick(discs)["ins"].append(x)
    for d in discs:
        if not d["ins"]:
            d["ins"].append(rng.pick(xs))
        rng.shuffle(d["ins"])
    # optional residual/state pair on one coupled discipline
    if rng.chance(0.3):
        d = rng.pick([d for d in discs if d["name"].startswith("D")])
        n = rng.pick([1, 2])
        w, r = new(n), new(n)
        d["states"] = {r: w}
    # coefficients
    for d in discs:
        st = d.get("states", {})
        for o in d["outs"]:
            d["A"][o] = {}
            for i in [*d["ins"], *st.values()]:
                if rng.chance(0.85) or len(d["ins"]) == 1:
                    d["A"][o][i] = _rand_block(rng, sizes[o], sizes[i])
            if not d["A"][o]:
                i = rng.pick(d["ins"])
                d["A"][o][i] = _rand_block(rng, sizes[o], sizes[i])
            d["c"][o] = [_dy(rng) for _ in range(sizes[o])]
        for r, w in st.items():
            n = sizes[w]
            diag = [[Fraction(0)] * n for _ in range(n)]
            for k in range(n):
                diag[k][k] = Fraction(rng.pick([-1, 1]) * rng.pick([1, 2, 4]))
            d["A"][r] = {w: diag}
            for i in d["ins"]:
                if rng.chance(0.8):
                    d["A"][r][i] = _rand_block(rng, n, sizes[i])
            d["c"][r] = [_dy(rng) for _ in range(n)]
    system = {"sizes": sizes, "discs": discs}
    _make_contractive(system)
    return _jsonable(system)


def _make_contractive(system) -> None:
    """Scale the coupling/state coefficients row-wise (by powers of two) until every defining
    equation has coupling row sum <= 1/2: the fixed-point map is then a contraction in the max norm
    (norm <= 1/2), so R_y is invertible with a condition number bounded by a small constant and every
    MDA algorithm converges."""
    sizes = system["sizes"]
    prod = producers(system)
    for d in system["discs"]:
        st = d.get("states", {})
        for o in d["outs"]:
            for a in range(sizes[o]):
                while True:
                    s = sum(abs(Fraction(m[a][b])) for i, m in d["A"][o].items() if i in prod for b in range(sizes[i]))
                    if s <= Fraction(1, 2):
                        break
                    for i, m in d["A"][o].items():
                        if i in prod:
                            m[a] = [Fraction(v) / 2 for v in m[a]]
        for r, w in st.items():
            for a in range(sizes[w]):
                dg = abs(Fraction(d["A"][r][w][a][a]))
                while True:
                    s = sum(abs(Fraction(m[a][b])) for i, m in d["A"][r].items() if i in prod and i != w for b in range(sizes[i]))
                    if s <= dg / 2:
                        break
                    for i, m in d["A"][r].items():
                        if i in prod and i != w:
                            m[a] = [Fraction(v) / 2 for v in m[a]]


def _jsonable(system):
    s = {"sizes": dict(system["sizes"]), "discs": []}
    for d in system["discs"]:
        e = {
            "name": d["name"],
            "ins": list(d["ins"]),
            "outs": list(d["outs"]),
            "A": {o: {i: [[rat(v) for v in row] for row in m] for i, m in bl.items()} for o, bl in d["A"].items()},
            "c": {o: [rat(v) for v in vec] for o, vec in d["c"].items()},
        }
        if d.get("states"):
            e["states"] = dict(d["states"])
        s["discs"].append(e)
    return s


def in_scope(system) -> bool:
    """Shadow validity check (also applied to shrunk/neighbour systems)."""
    try:
        sizes = system["sizes"]
        seen = set()
        for d in system["discs"]:
            st = d.get("states", {})
            for o in [*d["outs"], *st, *st.values()]:
                if o in seen:
                    return False
                seen.add(o)
            if not d["ins"] or not d["outs"]:
                return False
            for o, bl in d["A"].items():
                for i, m in bl.items():
                    if i not in disc_inputs(d):
                        return False
                    if len(m) != sizes[o] or any(len(row) != sizes[i] for row in m):
                        return False
        prod = producers(system)
        used = used_as_input(system)
        if nonlinear(system) and not quad_terms_valid(system):
            return False
        for d in system["discs"]:
            st = d.get("states", {})
            for o in d["outs"]:
                if o not in used:
                    continue  # a pure function is not part of the fixed-point map
                for a in range(sizes[o]):
                    s = sum(abs(Fraction(v)) for i, m in d["A"].get(o, {}).items() if i in prod for v in m[a])
                    if s > Fraction(1, 2):
                        return False
            for r, w in st.items():
                for a in range(sizes[w]):
                    row = d["A"][r][w][a]
                    if any(Fraction(v) != 0 for b, v in enumerate(row) if b != a):
                        return False
                    dg = abs(Fraction(row[a]))
                    if dg == 0 or dg.denominator != 1 or dg.numerator & (dg.numerator - 1):
                        return False
                    s = sum(abs(Fraction(v)) for i, m in d["A"][r].items() if i in prod and i != w for v in m[a])
                    if s > dg / 2:
                        return False
        return bool(design_inputs(system))
    except (KeyError, IndexError, ValueError, ZeroDivisionError, TypeError):
        return False


def candidate_outputs(system) -> list[str]:
    res = set(all_states(system))
    return [v for v in producers(system) if v not in res]


def gen_request(rng, system) -> dict[str, list[str]]:
    outs = candidate_outputs(system)
    xs = design_inputs(system)
    nf = rng.pick([1, 1, 2, 3, len(outs)])
    nv = rng.pick([1, 1, 2, len(xs)])
    fs = rng.sample(outs, min(nf, len(outs)))
    vs = rng.sample(xs, min(nv, len(xs)))
    return {"functions": fs, "variables": vs}


def strongly_coupled_only(system) -> bool:
    """Every discipline lies on a cycle of the coupling graph with at least two disciplines."""
    prod = producers(system)
    n = len(system["discs"])
    adj = [[False] * n for _ in range(n)]
    for i, d in enumerate(system["discs"]):
        for v in d["ins"]:
            if v in prod:
                adj[prod[v]][i] = True
    reach = [row[:] for row in adj]
    for k in range(n):
        for a in range(n):
            for b in range(n):
                reach[a][b] = reach[a][b] or (reach[a][k] and reach[k][b])
    return n >= 2 and all(any(j != i and reach[i][j] and reach[j][i] for j in range(n)) for i in range(n))


def gen_config(rng, system, path=None) -> dict[str, Any]:
    path = path or rng.pick(["assembly", "assembly", "MDAJacobi", "MDAGaussSeidel", "MDAChain", "MDAChainLin", "MDANewtonRaphson"])
    if path == "MDANewtonRaphson" and not strongly_coupled_only(system):
        path = rng.pick(["MDAJacobi", "MDAGaussSeidel", "MDAChain"])
    if path == "MDAChainLin" and all_states(system):
        # the chain rule of MDOChain does not know the residual/state convention (C09's domain): out of scope
        path = "MDAChain"
    mt = rng.pick(MTYPES)
    lu = mt == "matrix" and rng.chance(0.3)
    cfg = {
        "path": path,
        "mode": rng.pick(MODES),
        "matrix_type": mt,
        "lu": lu,
        "solver": rng.pick(SOLVERS),
        "kinds": gen_kinds(rng, system),
    }
    if path != "assembly" and not nonlinear(system) and rng.chance(0.4):
        # the accuracy of the coupled derivatives is the linear solver's, not the MDA's (round-5 change r5m2)
        cfg["tol"] = rng.pick([1e-6, 1e-3, 1e-2])
    return cfg


def gen_kinds(rng, system) -> list[str]:
    """Representation of the partial Jacobians of each discipline: 30% of the cases use one
    sparse format for every discipline, the others mix dense / operator / sparse formats."""
    n = len(system["discs"])
    if rng.chance(0.3):
        return [rng.pick(KINDS[2:])] * n
    return [rng.pick(["dense", "dense", "operator", *KINDS[2:]]) for _ in range(n)]


def self_coupled(system) -> bool:
    return any(set(d["ins"]) & set(d["outs"]) for d in system["discs"])


# --------------------------------------------------------------------------- implementation


def build_disciplines(system, kinds=None, restrict=False, cache="simple", default_sizes=None):
    from harness.c07_disc import LinDisc

    discs = []
    for k, spec in enumerate(system["discs"]):
        s = dict(spec)
        if default_sizes:
            s["default_sizes"] = dict(default_sizes)
        s["kind"] = (kinds or ["dense"] * len(system["discs"]))[k]
        s["restrict"] = bool(restrict)
        d = LinDisc(s, system["sizes"])
        if cache == "memory_full":
            d.set_cache(d.CacheType.MEMORY_FULL)
        discs.append(d)
    return discs


def _to_rows(m) -> list[list[float]]:
    if hasattr(m, "toarray"):
        m = m.toarray()
    elif hasattr(m, "matvec") and not isinstance(m, np.ndarray):
        # a (composed) JacobianOperator returned by the chain rule: apply it to the canonical basis
        nr, nc = m.shape
        m = np.column_stack([np.asarray(m.matvec(e), dtype=float).ravel() for e in np.eye(nc)]) if nc else np.zeros((nr, 0))
    a = np.asarray(m, dtype=float)
    if a.ndim != 2:
        raise ValueError(f"Jacobian block is not 2-D: shape {a.shape}")
    return a.tolist()


def _reraise_machinery(e: BaseException) -> None:
    """The global alarm of ./check (class `Timeout`) is not an observation of the code under test."""
    if type(e).__name__ == "Timeout":
        raise e


def _store(discs) -> dict[str, Any]:
    """The disciplines' own Jacobians after a step: `discipline.jac` and the Jacobians held by the
    entries of their caches (operands of the assembly: they must not be modified by it)."""
    out = {"jac": {}, "cache": {}}
    for d in discs:
        try:
            for o, row in (d.jac or {}).items():
                for i, m in row.items():
                    out["jac"][(o, i)] = _to_rows(m)
            if d.cache is not None:
                for n, entry in enumerate(d.cache):
                    for o, row in (entry.jacobian or {}).items():
                        for i, m in row.items():
                            out["cache"][(o, i, n)] = _to_rows(m)
        except Exception as e:  # noqa: BLE001
            _reraise_machinery(e)
            out["exc"] = f"{d.name}: {e!r}"[:200]
    return out


def _guarded(fun, solver="") -> dict[str, Any]:
    """Run one step of the implementation under the work limit; exceptions are observations."""
    limit = WORK_LIMIT if _EXCEEDED[0] < 2 else WORK_LIMIT_LOW
    try:
        with work_limit(limit, CASE_WALL_S, "lanczos-type" if solver in LANCZOS else "gmres-type"):
            return fun()
    except WorkLimit:
        if solver not in LANCZOS:
            _EXCEEDED[0] += 1
        return {"exc": "work-limit", "msg": f"more than {limit} linear-operator applications"}
    except WallClockSkip:
        return {"skip": "wall-clock"}
    except Exception as e:  # noqa: BLE001
        _reraise_machinery(e)
        return {"exc": common.exc_class(e), "msg": repr(e)[:300]}


def _point(system, p, full=False) -> dict[str, Any]:
    """Input data of a linearization.  Round-2 cases: an int p (0: the grammar defaults).  Round 3: a dict of
    explicit values, or `full` (the defaults have other lengths than the values): every design input is passed."""
    if not p and not full:
        return {}
    if isinstance(p, dict) or full:
        return {x: np.array([float(v) for v in vals], dtype=float) for x, vals in point_values(system, p).items()}
    return {x: np.full(system["sizes"][x], 0.25 * p) for x in design_inputs(system)}


def make_mda(path, discs, cfg):
    from gemseo.mda.gauss_seidel import MDAGaussSeidel
    from gemseo.mda.jacobi import MDAJacobi
    from gemseo.mda.mda_chain import MDAChain
    from gemseo.mda.newton_raphson import MDANewtonRaphson

    # cfg["tol"]: a looser MDA tolerance (linear systems only: their partial derivatives do not depend on the
    # converged point, so the total derivatives stay exact; the tolerance of the *linear solver* is untouched)
    kw = {"tolerance": float(cfg.get("tol", 1e-14)), "max_mda_iter": 200, "use_lu_fact": bool(cfg["lu"]), "linear_solver": cfg["solver"]}
    if path == "MDAJacobi":
        return MDAJacobi(discs, **kw)
    if path == "MDAGaussSeidel":
        return MDAGaussSeidel(discs, **kw)
    if path == "MDANewtonRaphson":
        return MDANewtonRaphson(discs, **kw)
    if path == "MDAChain":
        return MDAChain(discs, chain_linearize=False, **kw)
    if path == "MDAChainLin":
        return MDAChain(discs, chain_linearize=True, **kw)
    raise ValueError(path)


class MdaSession:
    """The MDA linearizations of one case.

    reuse = "fresh": a new MDA on new discipline instances for every step (no history);
    reuse = "mda":   ONE MDA linearized at every step: the differentiated inputs/outputs of the step
                     are added to those of the previous steps (the steps of such a case are cumulative),
                     at the point of the step; the LU option and the solver are those of the first step;
    reuse = "discs": a new MDA for every step (class given by the step) built on the SAME discipline
                     instances (their caches and last Jacobians are those left by the previous steps).
    """

    def __init__(self, case) -> None:
        self.case = case
        self.system = eff_system(case)
        self.reuse = case.get("reuse", "fresh")
        self.discs = None
        self.mda = None
        self.tainted = False  # a step was interrupted (work limit): the objects are in an undefined state

    def _new_discs(self):
        c = self.case
        return build_disciplines(self.system, c.get("kinds"), c.get("restrict", False), c.get("cache", "simple"),
                                 c.get("default_sizes"))

    def step(self, st) -> dict[str, Any]:
        cfg = step_cfg(self.case, st)
        path = st.get("path", self.case["path"])

        def fun():
            if self.reuse == "fresh" or self.discs is None:
                self.discs = self._new_discs()
                self.mda = None
            if self.reuse != "mda" or self.mda is None:
                self.mda = make_mda(path, self.discs, cfg)
            mda = self.mda
            mda.linearization_mode = cfg["mode"]
            mda.matrix_type = cfg["matrix_type"]
            if path.startswith("MDAChain"):
                for sub in mda.inner_mdas:
                    sub.linearization_mode = cfg["mode"]
                    sub.matrix_type = cfg["matrix_type"]
            mda.add_differentiated_inputs(st["variables"])
            mda.add_differentiated_outputs(st["functions"])
            jac = mda.linearize(_point(self.system, st.get("point", 0), bool(self.case.get("default_sizes"))))
            return {"jac": _collect(jac, st), "sizes": _sizes_seen(getattr(mda, "assembly", None), st)}

        if self.tainted and self.reuse != "fresh":
            return {"skip": "after-interrupted-step"}
        obs = _guarded(fun, cfg["solver"])
        if self.discs is not None and "skip" not in obs:
            obs["store"] = _store(self.discs)
        if "skip" in obs or obs.get("exc") == "work-limit":
            self.tainted = True
        return obs


def _sizes_seen(assembly, request) -> dict[str, Any]:
    """`JacobianAssembly.sizes` (public: variable name -> number of components used to place the blocks) of
    the requested names, when the assembly holds an entry for them."""
    out = {}
    try:
        sizes = assembly.sizes
        for v in [*request["functions"], *request["variables"]]:
            if v in sizes:
                out[v] = int(sizes[v])
    except Exception as e:  # noqa: BLE001
        _reraise_machinery(e)
    return out


def _collect(jac, request):
    out = {}
    for f in request["functions"]:
        for x in request["variables"]:
            out[(f, x)] = _to_rows(jac[f][x])
    return out


class AssemblySession:
    """One JacobianAssembly used for several successive total_derivatives requests."""

    def __init__(self, system, kinds=None, restrict=False, cache="simple", default_sizes=None):
        from gemseo.core.coupling_structure import CouplingStructure
        from gemseo.core.derivatives.jacobian_assembly import JacobianAssembly

        self.system = system
        self.discs = build_disciplines(system, kinds, restrict, cache, default_sizes)
        self.cs = CouplingStructure(self.discs)
        self.assembly = JacobianAssembly(self.cs)
        self.states = all_states(system)
        self.tainted = False
        self.in_data = {}
        for d in self.discs:
            for n in d.io.input_grammar:
                self.in_data.setdefault(n, np.zeros(system["sizes"][n]))
        # as an MDA does before linearizing: every discipline has been executed at the point
        for d in self.discs:
            d.execute(self.in_data)

    def set_point(self, point) -> None:
        """Round 3: the input data are the design inputs of the point and the EXACT converged values of the
        couplings and states (rounded to doubles): the certificate of the converged point an MDA would supply."""
        vals = solve_point(self.system, point_values(self.system, point))
        self.in_data = {}
        for d in self.discs:
            for n in d.io.input_grammar:
                self.in_data.setdefault(n, np.array([float(v) for v in vals[n]], dtype=float))
        for d in self.discs:
            d.execute(self.in_data)

    def couplings(self) -> list[str]:
        res = self.states
        return sorted(set(self.cs.all_couplings) - set(res) - set(res.values()))

    def total(self, request, cfg) -> dict[str, Any]:
        def fun():
            if isinstance(request.get("point"), dict):
                self.set_point(request["point"])
            jac = self.assembly.total_derivatives(
                self.in_data,
                list(request["functions"]),
                list(request["variables"]),
                self.couplings(),
                linear_solver=cfg["solver"],
                mode=cfg["mode"],
                matrix_type=cfg["matrix_type"],
                use_lu_fact=bool(cfg["lu"]),
                residual_variables=dict(self.states),
                rtol=1e-12,
            )
            return {"jac": _collect(jac, request), "sizes": _sizes_seen(self.assembly, request)}

        if self.tainted:
            return {"skip": "after-interrupted-step"}
        obs = _guarded(fun, cfg["solver"])
        if "skip" not in obs:
            obs["store"] = _store(self.discs)
        if "skip" in obs or obs.get("exc") == "work-limit":
            self.tainted = True
        return obs

    def assemble(self, functions, variables, is_residual: bool) -> dict[str, Any]:
        """assemble_jacobian as a matrix and as an operator (matvec / rmatvec on the canonical basis)."""
        from gemseo.core.derivatives.jacobian_assembly import JacobianAssembly

        try:
            for d in self.discs:
                d.linearize(self.in_data, compute_all_jacobians=True)
            a = self.assembly
            a.compute_sizes(functions, variables, [], {})
            mat = a.assemble_jacobian(functions, variables, is_residual=is_residual)
            dense = np.asarray(mat.toarray(), dtype=float)
            op = a.assemble_jacobian(
                functions, variables, is_residual=is_residual, jacobian_type=JacobianAssembly.JacobianType.LINEAR_OPERATOR
            )
            nr, nc = op.shape
            fwd = np.column_stack([op.matvec(e) for e in np.eye(nc)]) if nc else np.zeros((nr, 0))
            bwd = np.column_stack([op.rmatvec(e) for e in np.eye(nr)]).T if nr else np.zeros((0, nc))
            # a second assembly after the products: the operands must not have been consumed
            mat2 = a.assemble_jacobian(functions, variables, is_residual=is_residual)
            return {"matrix": dense.tolist(), "matvec": fwd.tolist(), "rmatvec": bwd.tolist(),
                    "matrix2": np.asarray(mat2.toarray(), dtype=float).tolist(), "store": _store(self.discs)}
        except Exception as e:  # noqa: BLE001
            _reraise_machinery(e)
            return {"exc": common.exc_class(e), "msg": repr(e)[:300]}


# --------------------------------------------------------------------------- oracle


def close(v: float, e: Fraction, scale: Fraction = Fraction(1)) -> bool:
    """POSITIVE assertion: finite and within the stated bound, relative to the natural scale of the
    block (1 for the well-scaled systems, 2^(e_f - e_x) for the rescaled ones)."""
    if not (isinstance(v, (int, float)) and math.isfinite(v)):
        return False
    return abs(F(v) - e) <= BOUND * max(scale, abs(e))


def resolved_mode(system, request, cfg) -> str:
    if cfg["mode"] != "auto":
        return cfg["mode"]
    nv = sum(system["sizes"][v] for v in request["variables"])
    nf = sum(system["sizes"][f] for f in request["functions"])
    return "direct" if nv <= nf else "adjoint"


def _close_eq(got, want) -> bool:
    try:
        return len(got) == len(want) and all(
            len(rg) == len(rw) and all(close(g, w) for g, w in zip(rg, rw)) for rg, rw in zip(got, want))
    except (TypeError, ValueError):
        return False


def store_failures(system, store, tangents=None) -> list[tuple[str, str]]:
    """The disciplines' own Jacobians (`discipline.jac`, cache entries) must still be the exact
    partial derivatives the disciplines returned: an assembly does not modify its operands.
    Non-linear cases (`tangents` = the tangent systems at the points linearized so far): `discipline.jac`
    must be, up to the bound of the rounded stream, the partial derivatives at one of these points (a
    discipline the current request does not involve keeps the Jacobian of an earlier point)."""
    if not store:
        return []
    if "exc" in store:
        return [("operand-unreadable", f"the Jacobian of a discipline cannot be read after the linearization: {store['exc']}")]
    bad = []
    if tangents is not None:
        # (an empty list: not observed -- Newton-Raphson linearizes the disciplines at its iterates too)
        for key, got in (store["jac"].items() if tangents else ()):
            o, i = key[0], key[1]
            wants = [block(t, o, i) or fzeros(t["sizes"][o], t["sizes"][i]) for t in tangents]
            if not any(_close_eq(got, w) for w in wants):
                bad.append((
                    "operand-modified:jac",
                    f"after the linearization the Jacobian d{o}/d{i} of the discipline computing {o} is {got}, its partial "
                    f"derivatives at the linearized point are {[[float(v) for v in r] for r in wants[-1]]}",
                ))
                break
        return bad
    for where in ("jac", "cache"):
        for key, got in store[where].items():
            o, i = key[0], key[1]
            want = block(system, o, i) or fzeros(system["sizes"][o], system["sizes"][i])
            if not _exact_eq(got, want):
                bad.append((
                    f"operand-modified:{where}",
                    f"after the linearization the {'cached ' if where == 'cache' else ''}Jacobian d{o}/d{i} of the discipline "
                    f"computing {o} is {got}, the discipline returned {[[str(v) for v in r] for r in want]}",
                ))
                break
    return bad


def oracle(system, request, cfg, obs, exact=None, exps=None, tangents=None) -> list[tuple[str, str]]:
    """(key, message) of every clause of the property the observation violates.
    `system` is the system the implementation was run on (rescaled when `exps` is given; for a non-linear
    case the tangent system at the exact converged point of the step, `tangents` = those of the steps so far)."""
    exact = exact or exact_total(system)
    tag = f"{resolved_mode(system, request, cfg)}:{cfg['matrix_type']}{':lu' if cfg['lu'] else ''}"
    if all_states(system):
        tag += ":states"
    if exps:
        tag += ":scaled"
    if obs.get("exc") == "work-limit":
        # The count is deterministic but a slow, correct solve cannot be told from a runaway one by
        # the count alone: the step is an oracle failure only when the exact observation of the
        # operands shows that the solver was given a corrupted system; otherwise it is skipped.
        st = store_failures(system, obs.get("store"), tangents)
        if not st:
            return [("probe:work-limit-unconfirmed", f"step stopped at the work limit ({obs.get('msg')}), operands intact: not judged")]
        return [*st, (f"no-return:{tag}", f"the linearization did not return within the limit ({obs.get('msg')}; "
                      f"99% of the steps of the unchanged code need < 1000) and the operands of the assembly were modified: {st[0][1]}"[:900])]
    if "exc" in obs:
        return [(f"raises:{obs['exc']}:{tag}", f"linearization raised {obs.get('msg')}")]
    bad = []
    sizes = system["sizes"]
    for f in request["functions"]:
        for x in request["variables"]:
            got = obs["jac"].get((f, x))
            want = exact[(f, x)]
            scale = block_scale(exps, f, x)
            if got is None or len(got) != sizes[f] or any(len(r) != sizes[x] for r in got):
                bad.append((f"shape:{tag}", f"d{f}/d{x}: block of shape {(sizes[f], sizes[x])} expected, got {got!r}"))
                continue
            for a in range(sizes[f]):
                for b in range(sizes[x]):
                    if not close(got[a][b], want[a][b], scale):
                        bad.append((
                            f"mismatch:{tag}",
                            f"d{f}[{a}]/d{x}[{b}] = {got[a][b]!r}, exact value "
                            + (f"{want[a][b]} ({float(want[a][b])!r})" if want[a][b].denominator < 10**9 else f"{float(want[a][b])!r} (rational, at the exact converged point)")
                            + (f", scale of the block 2^{int(exps.get(f, 0)) - int(exps.get(x, 0))}" if exps else ""),
                        ))
                        break
                else:
                    continue
                break
    for v, n in (obs.get("sizes") or {}).items():
        if n != sizes[v]:
            bad.append((f"sizes:{tag}", f"JacobianAssembly.sizes[{v!r}] = {n} after the request, the value of {v} has {sizes[v]} components"))
            break
    bad += store_failures(system, obs.get("store"), tangents)
    # one message per key
    seen, out = set(), []
    for k, m in bad:
        if k not in seen:
            seen.add(k)
            out.append((k, m))
    return out


# --------------------------------------------------------------------------- scope of a request

LANCZOS = ("BICG", "BICGSTAB", "CGS", "TFQMR")  # may break down (SciPy): see notes/C07.md


def _disc_reach(system) -> list[list[bool]]:
    """reach[a][b]: discipline b depends (reflexively, transitively) on an output of discipline a."""
    prod = producers(system)
    n = len(system["discs"])
    reach = [[a == b for b in range(n)] for a in range(n)]
    for i, d in enumerate(system["discs"]):
        for v in d["ins"]:
            if v in prod:
                reach[prod[v]][i] = True
    for k in range(n):
        for a in range(n):
            for b in range(n):
                reach[a][b] = reach[a][b] or (reach[a][k] and reach[k][b])
    return reach


def connected(system, request) -> bool:
    """Every requested function is computed by a discipline that depends (at the level of the
    discipline graph) on a requested variable, and every requested variable feeds a discipline on
    which a requested function depends.  Requests with a structurally independent function or
    variable make `JacobianAssembly` raise on purpose ("Failed to determine the size of input
    variable", tested by the test-suite): they are outside the in-scope stream (probe only)."""
    prod = producers(system)
    reach = _disc_reach(system)
    users = {x: [k for k, d in enumerate(system["discs"]) if x in d["ins"]] for x in request["variables"]}
    fprod = {f: prod[f] for f in request["functions"]}
    for f, pf in fprod.items():
        if not any(reach[u][pf] for x in request["variables"] for u in users[x]):
            return False
    for x in request["variables"]:
        if not any(reach[u][pf] for u in users[x] for pf in fprod.values()):
            return False
    return True


def needs_couplings(system, request) -> bool:
    """Some coupling variable lies on a dependency path of the request (else the code has an empty
    residual system)."""
    prod = producers(system)
    reach = _disc_reach(system)
    cpl = set(all_couplings(system))
    src = {k for k, d in enumerate(system["discs"]) if set(d["ins"]) & set(request["variables"])}
    dst = {prod[f] for f in request["functions"]}
    for k, d in enumerate(system["discs"]):
        on_path = any(reach[s][k] for s in src) and any(reach[k][t] for t in dst)
        if not on_path:
            continue
        names = set(d["ins"]) | set(d["outs"])
        if names & cpl:
            return True
    return False


# --------------------------------------------------------------------------- cases


MDA_PATHS = ("MDAJacobi", "MDAGaussSeidel", "MDAChain", "MDAChainLin", "MDANewtonRaphson")


def _gen_connected_request(rng, system):
    for _try in range(20):
        req = gen_request(rng, system)
        if connected(system, req):
            return req
    return None


def _step(req, c, **extra) -> dict[str, Any]:
    return {"functions": list(req["functions"]), "variables": list(req["variables"]), "mode": c["mode"],
            "matrix_type": c["matrix_type"], "lu": c["lu"], "solver": c["solver"],
            **({"tol": c["tol"]} if "tol" in c else {}), **extra}


def gen_case(rng, system=None, flavour=None, path=None) -> dict[str, Any]:
    """One case.  Flavours:
    * "plain":   successive requests on one assembly / one fresh MDA linearization (round-1 stream);
    * "history": the same MDA linearized several times (added differentiated outputs, same or other
                 point, other mode / matrix type) or several MDAs built on the same discipline instances;
    * "sweep":   ONE request through every (mode, matrix type, LU) combination;
    "history" and "sweep" cases are rescaled (`exps`) with probability 1/2 and 3/4."""
    system = system or gen_system(rng)
    flavour = flavour or rng.pick(["plain", "history", "sweep"])
    cfg0 = gen_config(rng, system, path)
    path = cfg0["path"]
    case = {"system": system, "path": path, "kinds": cfg0["kinds"], "steps": [], "flavour": flavour}
    if flavour == "plain":
        n_steps = rng.pick([2, 2, 3]) if path == "assembly" else 1
        for _ in range(n_steps):
            req = _gen_connected_request(rng, system)
            if req is not None:
                case["steps"].append(_step(req, gen_config(rng, system, path)))
        if rng.chance(0.25):
            case["exps"] = gen_exps(rng, system)
        return case
    case["restrict"] = rng.chance(0.3)
    case["cache"] = rng.pick(["simple", "simple", "simple", "simple", "memory_full"])
    if flavour == "sweep":
        req = _gen_connected_request(rng, system)
        if req is not None:
            combos = list(SWEEP)
            rng.shuffle(combos)
            if path.startswith("MDAChain") or path == "MDANewtonRaphson":
                # costly MDAs: both LU combinations and three others
                combos = [c for c in combos if c[2] and c[0] != "auto"] + [c for c in combos if not c[2]][:3]
            for mode, mt, lu in combos:
                case["steps"].append(_step(req, {"mode": mode, "matrix_type": mt, "lu": lu, "solver": rng.pick(SOLVERS)}))
        if path != "assembly":
            case["reuse"] = rng.pick(["fresh", "discs"])
        if rng.chance(0.75):
            case["exps"] = gen_exps(rng, system)
        return case
    # history
    if rng.chance(0.5):
        case["exps"] = gen_exps(rng, system)
    if path == "assembly":
        # successive requests on one assembly, the first one repeated at the end
        for _ in range(rng.pick([2, 3])):
            req = _gen_connected_request(rng, system)
            if req is not None:
                case["steps"].append(_step(req, gen_config(rng, system, path)))
        if case["steps"]:
            case["steps"].append(_step(case["steps"][0], gen_config(rng, system, path)))
        return case
    case["reuse"] = rng.pick(["mda", "mda", "discs"])
    if case["reuse"] == "mda":
        fs, vs = [], []
        c0 = gen_config(rng, system, path)
        pts = rng.pick([[0, 0, 0], [0, 0, 0], [0, 1, 0], [1, 1, 0]])
        for k in range(rng.pick([2, 3])):
            req = _gen_connected_request(rng, system)
            if req is None:
                continue
            fs += [f for f in req["functions"] if f not in fs]
            vs += [v for v in req["variables"] if v not in vs]
            c = gen_config(rng, system, path)
            c["lu"], c["solver"] = c0["lu"], c0["solver"]
            if c["lu"]:
                c["matrix_type"] = "matrix"
            case["steps"].append(_step({"functions": fs, "variables": vs}, c, point=pts[k]))
        return case
    for _ in range(rng.pick([2, 3])):
        req = _gen_connected_request(rng, system)
        if req is None:
            continue
        p2 = rng.pick(["MDAJacobi", "MDAGaussSeidel", "MDAChain", path])
        if p2 == "MDAChainLin" and all_states(system):
            p2 = "MDAChain"
        case["steps"].append(_step(req, gen_config(rng, system, p2), path=p2))
    return case


def request_profile(system, request) -> str:
    """Which requested inputs / functions are structurally independent of the rest of the request."""
    prod = producers(system)
    reach = _disc_reach(system)
    users = {x: [k for k, d in enumerate(system["discs"]) if x in d["ins"]] for x in request["variables"]}
    fprod = {f: prod[f] for f in request["functions"]}
    ind_x = [x for x in request["variables"] if not any(reach[u][pf] for u in users[x] for pf in fprod.values())]
    ind_f = [f for f, pf in fprod.items() if not any(reach[u][pf] for x in request["variables"] for u in users[x])]
    if len(ind_x) == len(request["variables"]):
        return "all-independent"
    if ind_x and ind_f:
        return "independent-input-and-function"
    if ind_x:
        return "independent-input"
    if ind_f:
        return "independent-function"
    return "connected"


def gen_free_request(rng, system, side=None) -> dict[str, list[str]]:
    """Any ordered subsets of the outputs and of the design inputs (no connectivity condition); the input of
    the `Side` discipline, on which only the function of that discipline depends, is requested in 70% of them."""
    outs = candidate_outputs(system)
    xs = design_inputs(system)
    fs = rng.sample(outs, min(len(outs), rng.pick([1, 1, 2, 3])))
    vs = rng.sample(xs, min(len(xs), rng.pick([1, 2, 2, len(xs)])))
    if side and side not in vs and rng.chance(0.7):
        vs.insert(rng.randrange(len(vs) + 1), side)
    return {"functions": fs, "variables": vs}


def gen_case_r3(rng, base_system, flavour, path=None) -> dict[str, Any] | None:
    """Round-3 cases (explicit points, the same objects linearized at several points):
    * "nl":   a NON-LINEAR system (quadratic terms: the partial derivatives depend on the point), partial
              Jacobians returned as operators by half of the disciplines, linearized at 2-3 different points by the
              same MDA (cumulative requests) / the same assembly / several MDAs on the same disciplines;
    * "free": requests without connectivity condition on a system with a `Side` discipline (an input on which
              one function only depends), grammar defaults of other lengths than the values passed."""
    system, side = base_system, None
    if flavour == "free" or rng.chance(0.4):
        system, side = add_side_discipline(rng, system)
    if flavour == "nl":
        system = add_quadratic_terms(rng, system)
        if system is None:
            return None
    cfg0 = gen_config(rng, system, path)
    path = cfg0["path"]
    kinds = cfg0["kinds"]
    if flavour == "nl":
        kinds = [rng.pick(["operator", "operator", "dense", rng.pick(KINDS[2:])]) for _ in system["discs"]]
    case = {"system": system, "path": path, "kinds": kinds, "steps": [], "flavour": flavour}
    free = flavour == "free" or side is not None or rng.chance(0.3)
    if free:
        case["free"] = True
    if flavour == "free":
        ds = gen_default_sizes(rng, system, (side,) if rng.chance(0.8) else ())
    else:
        ds = gen_default_sizes(rng, system) if rng.chance(0.4) else {}
    if ds:
        case["default_sizes"] = ds
    case["restrict"] = rng.chance(0.3)
    case["cache"] = rng.pick(["simple", "simple", "simple", "memory_full"])

    def request():
        return gen_free_request(rng, system, side) if free else _gen_connected_request(rng, system)

    n = rng.pick([2, 2, 3]) if flavour == "nl" else rng.pick([1, 2, 2, 3])
    if path == "assembly":
        for _ in range(n):
            req = request()
            if req is not None:
                case["steps"].append(_step(req, gen_config(rng, system, path), point=gen_point(rng, system)))
        if len(case["steps"]) > 1 and rng.chance(0.6):
            first = case["steps"][0]
            case["steps"].append(_step(first, gen_config(rng, system, path), point=copy.deepcopy(first["point"])))
        return case
    case["reuse"] = rng.pick(["mda", "mda", "mda", "discs", "fresh"] if flavour == "nl" else ["mda", "discs", "fresh"])
    if case["reuse"] == "mda":
        fs, vs = [], []
        c0 = gen_config(rng, system, path)
        for k in range(n):
            req = request()
            if req is None:
                continue
            fs = fs + [f for f in req["functions"] if f not in fs]
            vs = vs + [v for v in req["variables"] if v not in vs]
            c = gen_config(rng, system, path)
            c["lu"], c["solver"] = c0["lu"], c0["solver"]
            if c["lu"]:
                c["matrix_type"] = "matrix"
            pt = gen_point(rng, system)
            if k == 2 and rng.chance(0.4):
                pt = copy.deepcopy(case["steps"][0]["point"]) if case["steps"] else pt
            case["steps"].append(_step({"functions": fs, "variables": vs}, c, point=pt))
        return case
    for _ in range(n):
        req = request()
        if req is None:
            continue
        p2 = path
        if case["reuse"] == "discs":
            p2 = rng.pick(["MDAJacobi", "MDAGaussSeidel", "MDAChain", path])
            if p2 == "MDAChainLin" and all_states(system):
                p2 = "MDAChain"
        case["steps"].append(_step(req, gen_config(rng, system, p2), point=gen_point(rng, system),
                                   **({"path": p2} if p2 != path else {})))
    return case


def step_cfg(case, step) -> dict[str, Any]:
    return {
        "path": step.get("path", case["path"]),
        "kinds": case["kinds"],
        "mode": step["mode"],
        "matrix_type": step["matrix_type"],
        "lu": step["lu"],
        "solver": step["solver"],
        **({"tol": step["tol"]} if "tol" in step else {}),
    }


def step_systems(case, exact=None) -> list[tuple[Any, Any]]:
    """(system the oracle judges the step with, its exact total derivatives) for every step: the
    (rescaled) system itself for a linear case; for a non-linear case the tangent system at the exact
    converged point of the step."""
    system = eff_system(case)
    if not nonlinear(system):
        exact = exact or exact_total(system)
        return [(system, exact)] * len(case["steps"])
    memo, out = {}, []
    for st in case["steps"]:
        key = json.dumps(st.get("point", 0), sort_keys=True)
        if key not in memo:
            t = tangent_system(system, point_values(system, st.get("point", 0)))
            memo[key] = (t, exact_total(t))
        out.append(memo[key])
    return out


def run_case(case) -> list[dict[str, Any]]:
    """Observations of the real code, one per step."""
    system = eff_system(case)
    obs = []
    if case["path"] == "assembly":
        sess = AssemblySession(system, case["kinds"], case.get("restrict", False), case.get("cache", "simple"),
                               case.get("default_sizes"))
        for st in case["steps"]:
            obs.append(sess.total(st, step_cfg(case, st)))
    else:
        sess = MdaSession(case)
        for st in case["steps"]:
            obs.append(sess.step(st))
    return obs


def case_failures(case, exact=None, observations=None) -> list[tuple[int, str, str]]:
    """(step index, key, message) for every property clause the real code violates on the case."""
    exps = case.get("exps")
    per_step = step_systems(case, exact)
    nl = nonlinear(case["system"])
    out = []
    observations = observations if observations is not None else run_case(case)
    for k, (st, ob) in enumerate(zip(case["steps"], observations)):
        if "skip" in ob:
            out.append((k, "probe:skipped-" + ob["skip"], "step skipped (" + ob["skip"] + "), not judged"))
            continue
        cfg = step_cfg(case, st)
        system, exact = per_step[k]
        tangents = [per_step[j][0] for j in range(k + 1)] if nl else None
        if nl and case.get("reuse", "fresh") == "fresh" and case["path"] != "assembly":
            tangents = [system]
        if nl and any(s2.get("path", case["path"]) == "MDANewtonRaphson" for s2 in case["steps"][: k + 1]):
            tangents = []
        bad = oracle(system, st, cfg, ob, exact, exps, tangents)
        if bad and bad[0][0].startswith("probe:"):
            out.append((k, bad[0][0], bad[0][1]))
            continue
        if bad and st["solver"] in LANCZOS and not any(key.startswith("operand-") for key, _ in bad):
            if any(key.startswith("raises:E:runtime") for key, _ in bad):
                out.append((k, "probe:solver-breakdown", bad[0][1]))
                continue
            # accuracy of a Lanczos-type solver: only a violation when GMRES shows the same failure
            alt = copy.deepcopy(case)
            for s2 in alt["steps"]:
                s2["solver"] = "GMRES"
            ob2 = run_case(alt)[k]
            if "skip" in ob2:
                out.append((k, "probe:skipped-" + ob2["skip"], "step skipped (" + ob2["skip"] + "), not judged"))
                continue
            bad2 = oracle(system, alt["steps"][k], step_cfg(alt, alt["steps"][k]), ob2, exact, exps, tangents)
            if not bad2 or bad2[0][0].startswith("probe:"):
                out.append((k, "probe:solver-accuracy", bad[0][1]))
                continue
            bad = bad2
        for key, msg in bad:
            out.append((k, key, msg))
    return out


# --------------------------------------------------------------------------- shrinking


def _drop_disc(system, k):
    """Remove discipline k and every reference to its outputs."""
    s = copy.deepcopy(system)
    d = s["discs"].pop(k)
    gone = set(d["outs"]) | set(d.get("states", {})) | set(d.get("states", {}).values())
    for e in s["discs"]:
        e["ins"] = [i for i in e["ins"] if i not in gone]
        for o in e["A"]:
            e["A"][o] = {i: m for i, m in e["A"][o].items() if i not in gone}
        _prune_quad(e, lambda t: t[1] not in gone and t[3] not in gone)
    used = {v for e in s["discs"] for v in [*e["ins"], *e["outs"], *e.get("states", {}), *e.get("states", {}).values()]}
    s["sizes"] = {v: n for v, n in s["sizes"].items() if v in used}
    return s


def _prune_quad(d, keep) -> None:
    if "Q" in d and not d["Q"]:
        d.pop("Q")
    if d.get("Q"):
        d["Q"] = {o: [t for t in terms if keep(t)] for o, terms in d["Q"].items()}
        d["Q"] = {o: terms for o, terms in d["Q"].items() if terms}
        if not d["Q"]:
            d.pop("Q")


def _drop_output(system, k, o):
    s = copy.deepcopy(system)
    d = s["discs"][k]
    if len(d["outs"]) <= 1 or o not in d["outs"]:
        return None
    d["outs"].remove(o)
    d["A"].pop(o, None)
    d["c"].pop(o, None)
    if d.get("Q"):
        d["Q"].pop(o, None)
    for e in s["discs"]:
        e["ins"] = [i for i in e["ins"] if i != o]
        for oo in e["A"]:
            e["A"][oo].pop(o, None)
        _prune_quad(e, lambda t: t[1] != o and t[3] != o)
    s["sizes"].pop(o, None)
    return s


def _shrink_var(system, v):
    """Drop the last component of variable v (rows / columns of every block); a state and its
    residual shrink together."""
    s = copy.deepcopy(system)
    group = {v}
    for r, w in all_states(s).items():
        if v in (r, w):
            group |= {r, w}
    if s["sizes"][v] <= 1:
        return None
    for g in group:
        s["sizes"][g] -= 1
    for d in s["discs"]:
        for o, bl in d["A"].items():
            for i in list(bl):
                m = bl[i]
                if o in group:
                    m = m[:-1]
                if i in group:
                    m = [row[:-1] for row in m]
                bl[i] = m
        for o in list(d["c"]):
            if o in group:
                d["c"][o] = d["c"][o][:-1]
        sz = s["sizes"]
        for o in list(d.get("Q") or {}):
            d["Q"][o] = [t for t in d["Q"][o] if int(t[2]) < sz[t[1]] and int(t[4]) < sz[t[3]] and int(t[5]) < sz[o]]
        _prune_quad(d, lambda t: True)
    return s


def _fit_points(case) -> None:
    """After a reduction of the system: the explicit points keep the design inputs that are left, with
    their new lengths."""
    sizes = case["system"]["sizes"]
    xs = set(design_inputs(case["system"]))
    for st in case["steps"]:
        if isinstance(st.get("point"), dict):
            st["point"] = {x: list(v)[: sizes[x]] for x, v in st["point"].items() if x in xs}
    if case.get("default_sizes"):
        case["default_sizes"] = {x: n for x, n in case["default_sizes"].items() if x in xs and n != sizes[x]}
        if not case["default_sizes"]:
            case.pop("default_sizes")


def _valid_case(case) -> bool:
    system = case["system"]
    if not in_scope(system) or exact_total(system) is None:
        return False
    if not exps_valid(system, case.get("exps")):
        return False
    nl = nonlinear(system)
    if nl and case.get("exps"):
        return False
    dsz = case.get("default_sizes") or {}
    try:
        if any(int(n) < 1 or int(n) != n for n in dsz.values()):
            return False
        for st in case["steps"]:
            pt = st.get("point", 0)
            if isinstance(pt, dict):
                for x in design_inputs(system):
                    if x in pt and (len(pt[x]) != system["sizes"][x] or any(abs(Fraction(v)) > 1 for v in pt[x])):
                        return False
            elif not isinstance(pt, int) or abs(pt) > 4:
                return False
        if nl:
            for t, ex in step_systems(case):
                if t is None or ex is None or not in_scope(t):
                    return False
    except (TypeError, ValueError, KeyError, ZeroDivisionError):
        return False
    if case.get("reuse", "fresh") not in ("fresh", "mda", "discs") or case.get("cache", "simple") not in ("simple", "memory_full"):
        return False
    if any(k not in KINDS and k != "sparse" for k in case["kinds"]):
        return False
    prod = producers(system)
    xs = set(design_inputs(system))
    res = set(all_states(system))
    prev = None
    for st in case["steps"]:
        if not st["functions"] or not st["variables"]:
            return False
        if any(f not in prod or f in res for f in st["functions"]) or any(x not in xs for x in st["variables"]):
            return False
        if len(set(st["functions"])) != len(st["functions"]) or len(set(st["variables"])) != len(st["variables"]):
            return False
        if not case.get("free") and not connected(system, st):
            return False
        path = st.get("path", case["path"])
        if path == "MDANewtonRaphson" and not strongly_coupled_only(system):
            return False
        if path == "MDAChainLin" and all_states(system):
            return False
        if path != "assembly" and path not in MDA_PATHS:
            return False
        if (path == "assembly") != (case["path"] == "assembly"):
            return False
        if st["lu"] and st["matrix_type"] != "matrix":
            return False
        if case.get("reuse") == "mda" and case["path"] != "assembly":
            # one MDA: the differentiated inputs/outputs accumulate, LU option and solver are fixed
            if prev is not None and not (
                set(prev["functions"]) <= set(st["functions"]) and set(prev["variables"]) <= set(st["variables"])
                and prev["lu"] == st["lu"] and prev["solver"] == st["solver"]
            ):
                return False
            if "path" in st:
                return False
            prev = st
    return len(case["kinds"]) == len(system["discs"]) and bool(case["steps"])


def _prune_exps(case) -> None:
    if case.get("exps"):
        case["exps"] = {v: e for v, e in case["exps"].items() if v in case["system"]["sizes"]}
        if not case["exps"]:
            case.pop("exps")


def shrink_case(case, key, budget=40) -> dict[str, Any]:
    """Greedy reduction keeping `key` among the failures (every candidate is re-validated as in-scope)."""

    calls = [0]
    t_end = time.time() + SHRINK_WALL_S
    if key.startswith("no-return"):
        budget = min(budget, 10)

    def fails(c) -> bool:
        if calls[0] >= budget or time.time() > t_end or not _valid_case(c):
            return False
        calls[0] += 1
        try:
            return any(k == key for _, k, _ in case_failures(c))
        except Exception as e:  # noqa: BLE001
            _reraise_machinery(e)
            return False

    cur = copy.deepcopy(case)
    # 1. steps: keep a prefix ending at the failing step, then try the failing step alone, then drop
    #    intermediate steps one at a time
    fl = [k for k, kk, _ in case_failures(cur) if kk == key]
    if fl:
        cur["steps"] = cur["steps"][: fl[0] + 1]
        alone = {**cur, "steps": [cur["steps"][-1]]}
        if len(cur["steps"]) > 1 and fails(alone):
            cur = alone
        k = 0
        while len(cur["steps"]) > 2 and k < len(cur["steps"]) - 1:
            c = copy.deepcopy(cur)
            del c["steps"][k]
            if fails(c):
                cur = c
            else:
                k += 1
    # 2. no rescaling, simple cache, unrestricted Jacobians, fresh objects
    for fld, val in (("exps", None), ("cache", "simple"), ("restrict", False), ("reuse", "fresh")):
        if cur.get(fld) not in (None, val):
            c = copy.deepcopy(cur)
            if val is None:
                c.pop(fld)
            else:
                c[fld] = val
            if fails(c):
                cur = c
    # 3. single function / variable in the last step
    last = cur["steps"][-1]
    for fld in ("functions", "variables"):
        for name in list(last[fld]):
            if len(last[fld]) > 1:
                c = copy.deepcopy(cur)
                c["steps"][-1][fld] = [n for n in last[fld] if n != name]
                if fails(c):
                    cur = c
                    last = cur["steps"][-1]
    # 4. dense kinds, default solver
    for mod in (lambda c: c.update(kinds=["dense"] * len(c["kinds"])), lambda c: [s.update(solver="DEFAULT") for s in c["steps"]]):
        c = copy.deepcopy(cur)
        mod(c)
        if c != cur and fails(c):
            cur = c
    # 5. drop disciplines / outputs, shrink variable sizes
    progress = True
    while progress and calls[0] < budget:
        progress = False
        for k in range(len(cur["system"]["discs"])):
            c = copy.deepcopy(cur)
            c["system"] = _drop_disc(cur["system"], k)
            c["kinds"] = cur["kinds"][:k] + cur["kinds"][k + 1 :]
            _prune_exps(c)
            _fit_points(c)
            if fails(c):
                cur, progress = c, True
                break
        if progress:
            continue
        for k, d in enumerate(cur["system"]["discs"]):
            for o in list(d["outs"]):
                s2 = _drop_output(cur["system"], k, o)
                if s2 is None:
                    continue
                c = copy.deepcopy(cur)
                c["system"] = s2
                _prune_exps(c)
                _fit_points(c)
                if fails(c):
                    cur, progress = c, True
                    break
            if progress:
                break
        if progress:
            continue
        for v in list(cur["system"]["sizes"]):
            s2 = _shrink_var(cur["system"], v)
            if s2 is None:
                continue
            c = copy.deepcopy(cur)
            c["system"] = s2
            _fit_points(c)
            if fails(c):
                cur, progress = c, True
                break
    # 6. round 3: no quadratic terms / defaults of the lengths of the values / one term at a time
    if calls[0] < budget and cur.get("default_sizes"):
        c = copy.deepcopy(cur)
        c.pop("default_sizes")
        if fails(c):
            cur = c
    for k, d in enumerate(cur["system"]["discs"]):
        for o in list(d.get("Q") or {}):
            if calls[0] >= budget:
                break
            c = copy.deepcopy(cur)
            if o not in (c["system"]["discs"][k].get("Q") or {}):
                continue
            c["system"]["discs"][k]["Q"].pop(o)
            _prune_quad(c["system"]["discs"][k], lambda t: True)
            if fails(c):
                cur = c
    return cur


# --------------------------------------------------------------------------- protocol lines (Lean model)


def _names(l) -> str:
    return ",".join(l) if l else "[]"


def _rows(m) -> str:
    return ";".join(",".join(rat(v) for v in row) for row in m) if m else "[]"


def _sizes_field(system) -> str:
    return "S=" + ",".join(f"{n}:{k}" for n, k in system["sizes"].items())


def _blocks_fields(system) -> list[str]:
    out = []
    for d in system["discs"]:
        st = d.get("states", {})
        for o in [*d["outs"], *st.values(), *st]:
            for i in disc_inputs(d):
                b = block(system, o, i)
                if b is not None:
                    out.append(f"B={o}:{i}:{_rows(b)}")
    return out


def _discs_field(system) -> str:
    parts = []
    for d in system["discs"]:
        st = d.get("states", {})
        parts.append(f"{d['name']}:{_names(disc_inputs(d))}:{_names([*d['outs'], *st.values(), *st])}")
    return "D=" + "|".join(parts)


def _res_field(system) -> str:
    st = all_states(system)
    return "R=" + (",".join(f"{r}:{w}" for r, w in st.items()) if st else "[]")


def td_line(system, step, mode=None, exps=None) -> str:
    """`system` is the BASE system; with `exps` the model rescales the blocks itself (E= field)."""
    return " ".join([
        "td",
        mode or step["mode"],
        "F=" + _names(step["functions"]),
        "V=" + _names(step["variables"]),
        "Y=auto",
        _res_field(system),
        _sizes_field(system),
        *(["E=" + ",".join(f"{v}:{int(e)}" for v, e in exps.items())] if exps else []),
        _discs_field(system),
        *_blocks_fields(system),
    ])


def asm_lines(system, a) -> list[str]:
    common_f = ["F=" + _names(a["functions"]), "V=" + _names(a["variables"]), _sizes_field(system)]
    flag = "1" if a["is_residual"] else "0"
    bl = _blocks_fields(system)
    return [
        " ".join(["asm", flag, *common_f, *bl]),
        " ".join(["opv", flag, *common_f, "X=" + ",".join(a["x"]), *bl]),
        " ".join(["opr", flag, *common_f, "X=" + ",".join(a["xt"]), *bl]),
    ]


def parse_td(ans: str) -> dict[tuple[str, str], list[list[Fraction]]] | None:
    if ans.startswith("E:") or ans.startswith("bad"):
        return None
    out = {}
    for tok in ans.split(" "):
        key, rows = tok.split("=")
        f, x = key.split(":")
        out[(f, x)] = [] if rows == "[]" else [[Fraction(v) for v in r.split(",")] for r in rows.split(";")]
    return out


def parse_mat(ans: str):
    if ans == "[]":
        return []
    return [[Fraction(v) for v in r.split(",")] for r in ans.split(";")]


# --------------------------------------------------------------------------- assembly stream (exact)


def gen_asm(rng, system) -> dict[str, Any]:
    prod = producers(system)
    used = []
    for d in system["discs"]:
        for i in disc_inputs(d):
            if i not in used:
                used.append(i)
    fs = rng.sample(list(prod), min(len(prod), rng.pick([1, 2, 3, 4])))
    pool = used + [f for f in fs if f not in used]
    vs = rng.sample(pool, min(len(pool), rng.pick([1, 2, 3, 4])))
    if rng.chance(0.5) and fs and fs[0] not in vs and fs[0] in pool:
        vs[rng.randrange(len(vs))] = fs[0]  # make a residual diagonal block likely
    nr = sum(system["sizes"][f] for f in fs)
    nc = sum(system["sizes"][v] for v in vs)
    return {
        "functions": fs,
        "variables": vs,
        "is_residual": rng.chance(0.6),
        "x": [rat(rng.dyadic(-2, 2, 2)) for _ in range(nc)],
        "xt": [rat(rng.dyadic(-2, 2, 2)) for _ in range(nr)],
    }


def run_asm(system, kinds, a) -> dict[str, Any]:
    sess = AssemblySession(system, kinds)
    obs = sess.assemble(a["functions"], a["variables"], a["is_residual"])
    if "exc" in obs:
        return obs
    from gemseo.core.derivatives.jacobian_assembly import JacobianAssembly

    try:
        op = sess.assembly.assemble_jacobian(
            a["functions"], a["variables"], is_residual=a["is_residual"],
            jacobian_type=JacobianAssembly.JacobianType.LINEAR_OPERATOR,
        )
        obs["opv"] = np.asarray(op.matvec(np.array([float(Fraction(v)) for v in a["x"]]))).ravel().tolist()
        obs["opr"] = np.asarray(op.rmatvec(np.array([float(Fraction(v)) for v in a["xt"]]))).ravel().tolist()
        mt = sess.assembly.assemble_jacobian(a["functions"], a["variables"], is_residual=a["is_residual"])
        obs["matT"] = np.asarray(mt.T.toarray(), dtype=float).tolist()
    except Exception as e:  # noqa: BLE001
        _reraise_machinery(e)
        return {"exc": common.exc_class(e), "msg": repr(e)[:300]}
    return obs


def _exact_eq(got, want) -> bool:
    try:
        if len(got) != len(want):
            return False
        for rg, rw in zip(got, want):
            if len(rg) != len(rw):
                return False
            for g, w in zip(rg, rw):
                if not (math.isfinite(g) and F(g) == w):
                    return False
        return True
    except (TypeError, ValueError):
        return False


def asm_oracle(system, a, obs) -> list[tuple[str, str]]:
    """Block placement of the property text: exact comparison with `assemble_exact`."""
    tag = "residual" if a["is_residual"] else "plain"
    if "exc" in obs:
        return [(f"asm-raises:{obs['exc']}:{tag}", f"assemble_jacobian raised {obs.get('msg')}")]
    want = assemble_exact(system, a["functions"], a["variables"], a["is_residual"])
    nr, nc = len(want), (len(want[0]) if want else 0)
    bad = []
    if not _exact_eq(obs["matrix"], want):
        bad.append((f"asm-matrix:{tag}", f"assembled matrix {obs['matrix']} != exact {[[str(v) for v in r] for r in want]}"))
    if not _exact_eq(obs["matvec"], want):
        bad.append((f"asm-operator-matvec:{tag}", f"operator (matvec on the basis) {obs['matvec']} != exact {[[str(v) for v in r] for r in want]}"))
    if not _exact_eq(obs["rmatvec"], want):
        bad.append((f"asm-operator-rmatvec:{tag}", f"operator (rmatvec on the basis) {obs['rmatvec']} != exact {[[str(v) for v in r] for r in want]}"))
    wt = [[want[i][j] for i in range(nr)] for j in range(nc)]
    if nr and nc and not _exact_eq(obs["matT"], wt):
        bad.append((f"asm-transpose:{tag}", "transpose of the assembled matrix is not the exact transpose"))
    if "matrix2" in obs and not _exact_eq(obs["matrix2"], want):
        bad.append((f"asm-matrix-again:{tag}", f"the matrix assembled again after the operator products {obs['matrix2']} != exact {[[str(v) for v in r] for r in want]}"))
    bad += store_failures(system, obs.get("store"))
    return bad


def asm_model_diff(a, obs, answers) -> str | None:
    """Exact comparison of the observation with the three model answers (asm, opv, opr)."""
    if "exc" in obs:
        return f"implementation raised {obs['exc']}, model answered {answers[0][:80]}"
    m = parse_mat(answers[0])
    if not _exact_eq(obs["matrix"], m) and not (not m and not obs["matrix"]):
        return f"asm: impl {obs['matrix']} model {answers[0]}"
    if not _exact_eq(obs["matvec"], m) or not _exact_eq(obs["rmatvec"], m):
        return f"operator on the basis differs from the model matrix {answers[0]}"
    for key, ans in (("opv", answers[1]), ("opr", answers[2])):
        want = [] if ans == "[]" else [Fraction(v) for v in ans.split(",")]
        got = obs[key]
        if len(got) != len(want) or any(not (math.isfinite(g) and F(g) == w) for g, w in zip(got, want)):
            return f"{key}: impl {got} model {ans}"
    return None


# --------------------------------------------------------------------------- run


def model_line(case, st) -> str:
    """Protocol line of a step: the (base) system of a linear case; for a non-linear case the tangent system
    at the exact converged point of the step (the model is a function of the disciplines' Jacobians)."""
    system = case["system"]
    if nonlinear(system):
        system = tangent_system(system, point_values(system, st.get("point", 0)))
    return td_line(system, st, exps=case.get("exps"))


def _self_check_nonlinear(case) -> None:
    """Harness self-check on a non-linear case (first step): the implicit-function closed form of the
    tangent system equals the derivative of the exact converged solution obtained by central differences
    of exact solutions (bound 2^-30 relative; the truncation error is O(2^-48))."""
    system = case["system"]
    st = case["steps"][0]
    xv = point_values(system, st.get("point", 0))
    t = tangent_system(system, xv)
    ex = exact_total(t)
    fd = derivative_by_differences(system, xv)
    cf = closed_form(t, candidate_outputs(t), design_inputs(t))
    if fd is None or cf is None:
        raise RuntimeError("harness oracle: singular non-linear system")
    for key, m in cf.items():
        if m != ex[key]:
            raise RuntimeError("harness oracles disagree (closed form vs derivative of the solution, tangent system)")
        for ra, rb in zip(m, fd[key]):
            for a, b in zip(ra, rb):
                if abs(a - b) > BOUND * max(1, abs(a)):
                    raise RuntimeError(f"harness oracles disagree (implicit-function form {a} vs differences of exact solutions {b})")


def load_corpus() -> list[dict[str, Any]]:
    d = common.CORPUS_DIR / PID
    out = []
    if d.is_dir():
        for p in sorted(d.glob("*.json")):
            out.append(json.loads(p.read_text())["case"])
    return out


def _td_model_diff(system, step, obs, model_ans, exps=None) -> str | None:
    m = parse_td(model_ans)
    if m is None:
        return None if "exc" in obs else f"model answered {model_ans[:60]} but the implementation returned derivatives"
    if "exc" in obs:
        return f"implementation raised {obs['exc']} ({obs.get('msg', '')[:120]}), model returned derivatives"
    for f in step["functions"]:
        for x in step["variables"]:
            got, want = obs["jac"].get((f, x)), m.get((f, x))
            if want is None or got is None or len(got) != len(want) or any(len(a) != len(b) for a, b in zip(got, want)):
                return f"d{f}/d{x}: shapes differ (impl {got}, model {want})"
            scale = block_scale(exps, f, x)
            for ra, rb in zip(got, want):
                for a, b in zip(ra, rb):
                    if not close(a, b, scale):
                        return f"d{f}/d{x}: impl {a!r} model {b}"
    return None


def _histogram(res: Result, case, system) -> None:
    res.count(f"path={case['path']}")
    res.count(f"flavour={case.get('flavour', 'corpus')}")
    res.count(f"n_disc={len(system['discs'])}")
    if all_states(system):
        res.count("with-states")
    sc = self_coupled(system)
    if sc:
        res.count("self-coupled")
    for k in set(case["kinds"]):
        res.count(f"kind={k}")
    if sc and any(k not in ("dense", "operator") for k, d in zip(case["kinds"], system["discs"]) if set(d["ins"]) & set(d["outs"])):
        res.count("self-coupled-block-sparse")
    if case["path"] != "assembly":
        res.count(f"reuse={case.get('reuse', 'fresh')}")
    if len(case["steps"]) > 1 and (case["path"] == "assembly" or case.get("reuse", "fresh") != "fresh"):
        res.count("history:several-linearizations-on-the-same-objects")
    res.count(f"cache={case.get('cache', 'simple')}")
    if case.get("restrict"):
        res.count("restricted-discipline-jacobians")
    exps = case.get("exps")
    if exps:
        res.count("rescaled")
        cv = coupled_vars(system)
        ec = next((int(exps.get(v, 0)) for v in cv), 0)
        for st in case["steps"]:
            cfg = step_cfg(case, st)
            rm = resolved_mode(system, st, cfg)
            # the regime in which an absolute threshold on a right-hand side would matter
            small_rhs = (
                any(ec - int(exps.get(x, 0)) <= -30 for x in st["variables"]) if rm == "direct"
                else any(int(exps.get(f, 0)) - ec <= -30 for f in st["functions"] if f not in cv)
            )
            huge_rhs = (
                any(ec - int(exps.get(x, 0)) >= 30 for x in st["variables"]) if rm == "direct"
                else any(int(exps.get(f, 0)) - ec >= 30 for f in st["functions"] if f not in cv)
            )
            if small_rhs:
                res.count(f"rescaled:tiny-rhs:{rm}{':lu' if st['lu'] else ''}")
            if huge_rhs:
                res.count(f"rescaled:huge-rhs:{rm}{':lu' if st['lu'] else ''}")
    pts = [json.dumps(st.get("point", 0), sort_keys=True) for st in case["steps"]]
    if nonlinear(system):
        res.count("nonlinear")
        shared = case["path"] == "assembly" or case.get("reuse", "fresh") != "fresh"
        if shared and len(set(pts)) > 1:
            res.count("nonlinear:same-objects-linearized-at-several-points")
            if case.get("reuse") == "mda":
                res.count("nonlinear:same-mda-linearized-at-several-points")
            qd = [k for k, d in enumerate(system["discs"]) if d.get("Q")]
            if any(case["kinds"][k] == "operator" for k in qd):
                res.count("nonlinear:several-points:point-dependent-blocks-as-operator")
            if any(case["kinds"][k] not in ("operator", "dense") for k in qd):
                res.count("nonlinear:several-points:point-dependent-blocks-sparse")
    if case.get("default_sizes"):
        res.count("defaults-of-other-lengths-than-the-values")
    if case.get("free"):
        for st in case["steps"]:
            prof = request_profile(system, st)
            res.count("request:" + prof)
            if prof != "connected" and case.get("default_sizes"):
                ind = [x for x in st["variables"] if x in case["default_sizes"]
                       and request_profile(system, {"functions": st["functions"], "variables": [x]}) == "all-independent"]
                if ind:
                    res.count("request:independent-input-with-default-of-another-length")
    if case.get("reuse") == "mda":
        res.count("history:same-mda:" + ("same-point" if len(set(pts)) == 1 else "points-change"))
        if any(set(a["functions"]) < set(b["functions"]) for a, b in zip(case["steps"], case["steps"][1:])):
            res.count("history:same-mda:outputs-added")
    for st in case["steps"]:
        cfg = step_cfg(case, st)
        res.count(f"mode={st['mode']}->{resolved_mode(system, st, cfg)}")
        res.count(f"matrix_type={st['matrix_type']}{'+lu' if st['lu'] else ''}")
        res.count(f"solver={st['solver']}")
        res.count(f"mda-tolerance={st.get('tol', 1e-14):g}")
        nf = sum(system["sizes"][f] for f in st["functions"])
        nv = sum(system["sizes"][v] for v in st["variables"])
        res.count("shape=" + ("square" if nf == nv else "rect"))
        res.nontrivial(json.dumps([system["sizes"], st["functions"], st["variables"], st["mode"], st["matrix_type"], st["lu"],
                                   sorted((exps or {}).items()), st.get("point", 0)], sort_keys=True))


def model_request(cases):
    """(index, protocol lines, distinct lines) of the steps of a batch of cases.  Identical lines (the steps of
    a sweep differ by matrix type / LU / solver only, which the model does not have) are sent once."""
    lines, index = [], []
    for ci, case in enumerate(cases):
        for si, st in enumerate(case["steps"]):
            index.append((ci, si))
            lines.append(model_line(case, st))
    return index, lines, list(dict.fromkeys(lines))


def model_answers(request) -> dict[tuple[int, int], str]:
    index, lines, unique = request
    by_line = dict(zip(unique, common.run_lean_driver(PID, unique))) if unique else {}
    return {ix: by_line[ln] for ix, ln in zip(index, lines)}


class AsyncModel:
    """The Lean driver on the lines of a batch, started as a plain sub-process whose standard streams are FILES
    (no thread in the harness process, no pipe: GEMSEO forks worker processes for its parallel executions, a
    forked copy of a pipe end or of a lock held by another thread would block the driver / the worker for ever).
    The model must have been built (run() builds it first)."""

    def __init__(self, request) -> None:
        import subprocess
        import tempfile

        self.request = request
        self.proc = None
        unique = request[2]
        if not unique:
            return
        if any("\n" in ln for ln in unique):
            raise ValueError("protocol line contains a newline")
        self.dir = tempfile.mkdtemp(prefix="c07-driver-")
        with open(os.path.join(self.dir, "in"), "w") as fh:
            fh.write("\n".join(unique) + "\n")
        self.files = [open(os.path.join(self.dir, "in")), open(os.path.join(self.dir, "out"), "w"),
                      open(os.path.join(self.dir, "err"), "w")]
        self.proc = subprocess.Popen(["lake", "env", "lean", "--run", f"Driver/{PID}.lean"], cwd=common.LEAN_DIR,
                                     stdin=self.files[0], stdout=self.files[1], stderr=self.files[2])

    def result(self) -> dict[tuple[int, int], str]:
        import shutil

        index, lines, unique = self.request
        if self.proc is None:
            return {}
        try:
            rc = self.proc.wait(timeout=3600)
            for fh in self.files:
                fh.close()
            out = open(os.path.join(self.dir, "out")).read().splitlines()
            err = open(os.path.join(self.dir, "err")).read()
        finally:
            self.cancel()
        if rc != 0:
            raise RuntimeError("lean driver failed:\n" + err[-3000:])
        if len(out) != len(unique):
            raise RuntimeError(f"lean driver returned {len(out)} answers for {len(unique)} lines\n{err[-2000:]}")
        by_line = dict(zip(unique, out))
        return {ix: by_line[ln] for ix, ln in zip(index, lines)}

    def cancel(self) -> None:
        import shutil

        if self.proc is not None:
            if self.proc.poll() is None:
                self.proc.kill()
                self.proc.wait()
            for fh in self.files:
                fh.close()
            shutil.rmtree(self.dir, ignore_errors=True)
            self.proc = None


def check_cases(res: Result, cases: list[dict[str, Any]], use_lean: bool, in_scope_stream: bool = True, model=None) -> None:
    if use_lean and model is None:
        model = model_answers(model_request(cases))
    model = model if use_lean else {}
    for ci, case in enumerate(cases):
        base = case["system"]
        exps = case.get("exps")
        system = eff_system(case)
        exact = None if nonlinear(system) else exact_total(system)
        if exps and exact != scaled_exact(exact_total(base), exps):
            raise RuntimeError("harness oracles disagree (rescaled system vs rescaled derivatives)")
        if nonlinear(system):
            _self_check_nonlinear(case)
        observations = run_case(case)
        failures = case_failures(case, exact, observations)
        res.evaluations += len(case["steps"])
        _histogram(res, case, system)
        res.sample({"path": case["path"], "flavour": case.get("flavour"), "sizes": system["sizes"], "exps": exps,
                    "steps": case["steps"][:1]})
        real = [(k, key, msg) for k, key, msg in failures if not key.startswith("probe:")]
        for k, key, msg in failures:
            if key.startswith("probe:"):
                res.count(key)
        if not in_scope_stream:
            for k, key, msg in real:
                res.count("probe:" + key.split(":")[0])
            continue
        for k, key, msg in real:
            if any(v.kind == "oracle" and v.key == key for v in res.violations):
                res.count("further-failure:" + key)
                continue  # one (shrunk) replay per key
            small = shrink_case(case, key)
            fl = [(kk, m2) for _, kk, m2 in case_failures(small) if kk == key]
            res.violate(
                "oracle", key, (fl[0][1] if fl else msg),
                {"case": small, "failing_step": len(small["steps"]) - 1,
                 "bound": "2^-30 * max(scale of the block, |exact|), scale = 2^(e_f - e_x) (1 without rescaling)"},
            )
        if use_lean and (case.get("free") or case.get("default_sizes")):
            # `compute_sizes` (Driver `sz`): judged at the end of the run (check_sizes), one driver call
            for si, st in enumerate(case["steps"]):
                ln = sz_line(system, st, observations[si])
                if ln is not None:
                    _SZ_ITEMS.append((case, si, ln, dict(observations[si]["sizes"]), bool(real)))
        if use_lean:
            probe_steps = {k for k, key, _ in failures if key.startswith("probe:")}
            for si, st in enumerate(case["steps"]):
                if si in probe_steps:
                    continue  # SciPy break-down / inaccuracy of a Lanczos-type solver, skipped step: counted, not judged
                diff = _td_model_diff(system, st, observations[si], model[(ci, si)], exps)
                if diff is None:
                    res.traces_validated += 1
                    continue
                res.disagreements += 1
                if real:
                    continue  # the oracle already exhibits a failing input for this case
                found = search_failing_input(res, case)
                if not found:
                    res.violate(
                        "correspondence", "model-vs-impl:total-derivatives",
                        "total derivatives of the implementation differ from the Lean model: " + diff,
                        {"case": case, "step": si, "protocol_line": model_line(case, st), "model": model[(ci, si)],
                         "impl": {f"{f}:{x}": v for (f, x), v in observations[si].get("jac", {}).items()} or observations[si].get("exc"),
                         "correspondence": "Driver/C07.lean `td`"},
                    )


_SZ_ITEMS: list[tuple[Any, int, str, dict[str, int], bool]] = []


def sz_line(system, st, obs) -> str | None:
    """Protocol line `sz` of a step: the blocks the disciplines hold after the step (observed through
    `discipline.jac`: names and shapes, discipline order) and the lengths of the values of the design inputs
    that were passed; None when `JacobianAssembly.sizes` was not observed."""
    if not obs.get("sizes") or "jac" not in obs or "exc" in (obs.get("store") or {"exc": 1}):
        return None
    vs = [v for v in st["variables"] if v in obs["sizes"]]
    if not vs:
        return None
    blocks = []
    for (o, i), rows in obs["store"]["jac"].items():
        if not rows or not rows[0]:
            return None
        blocks.append(f"B={o}:{i}:" + ";".join(",".join("0" for _ in r) for r in rows))
    xs = ",".join(f"{x}:{system['sizes'][x]}" for x in design_inputs(system))
    return " ".join(["sz", "V=" + _names(vs), "X=" + (xs or "[]"), *blocks])


def check_sizes(res: Result) -> None:
    """Correspondence of `JacobianAssembly.sizes` with the model's `variableSize` (one driver call)."""
    items, _SZ_ITEMS[:] = list(_SZ_ITEMS), []
    if not items:
        return
    answers = common.run_lean_driver(PID, [it[2] for it in items])
    for (case, si, ln, seen, real), ans in zip(items, answers):
        st = case["steps"][si]
        vs = [v for v in st["variables"] if v in seen]
        got = ",".join(str(seen[v]) for v in vs)
        res.count("sizes:compared-with-the-model")
        if ans == got:
            res.traces_validated += 1
            continue
        res.disagreements += 1
        if real or any(v.kind == "correspondence" and v.key == "model-vs-impl:sizes" for v in res.violations):
            continue
        res.violate(
            "correspondence", "model-vs-impl:sizes",
            f"JacobianAssembly.sizes of {vs} = {got}, the Lean model (variableSize) answers {ans}",
            {"case": case, "step": si, "protocol_line": ln, "model": ans, "impl": got, "correspondence": "Driver/C07.lean `sz`"},
        )


def neighbours(case):
    """Neighbours of a case for the failing-input search."""
    for st_i in range(len(case["steps"])):
        for mode in MODES:
            for mt in MTYPES:
                c = copy.deepcopy(case)
                c["steps"][st_i].update(mode=mode, matrix_type=mt, lu=False)
                yield c
        c = copy.deepcopy(case)
        c["steps"][st_i].update(matrix_type="matrix", lu=True)
        yield c
        c = copy.deepcopy(case)
        c["steps"] = [c["steps"][st_i]]
        yield c
        c = copy.deepcopy(case)
        c["steps"][st_i]["functions"] = list(reversed(c["steps"][st_i]["functions"]))
        c["steps"][st_i]["variables"] = list(reversed(c["steps"][st_i]["variables"]))
        yield c
    if len(case["steps"]) > 1:
        c = copy.deepcopy(case)
        c["steps"] = list(reversed(c["steps"]))
        yield c
    for kind in ("dense", "csr_array", "csc_matrix", "coo_array", "operator"):
        c = copy.deepcopy(case)
        c["kinds"] = [kind] * len(c["kinds"])
        yield c
    for path in ("assembly", "MDAJacobi", "MDAGaussSeidel", "MDAChain"):
        if path != case["path"]:
            c = copy.deepcopy(case)
            c["path"] = path
            for st in c["steps"]:
                st.pop("path", None)
            if path == "assembly":
                c.pop("reuse", None)
            yield c
    if case.get("exps"):
        c = copy.deepcopy(case)
        c.pop("exps")
        yield c
    elif exps_valid(case["system"], {}):
        for k in (36, 45):
            for sign in (-1, 1):
                c = copy.deepcopy(case)
                c["exps"] = {x: sign * k for x in design_inputs(case["system"])}
                yield c
    if case["path"] != "assembly" and case.get("reuse", "fresh") == "fresh" and len(case["steps"]) == 1:
        # the same MDA linearized again with one more output
        st = case["steps"][0]
        more = [o for o in candidate_outputs(case["system"]) if o not in st["functions"]]
        for o in more[:2]:
            c = copy.deepcopy(case)
            c["reuse"] = "mda"
            c["steps"].append({**copy.deepcopy(st), "functions": [*st["functions"], o]})
            yield c


def search_failing_input(res: Result, case) -> bool:
    for nb in neighbours(case):
        if not _valid_case(nb):
            continue
        try:
            fl = [(k, key, msg) for k, key, msg in case_failures(nb) if not key.startswith("probe:")]
        except Exception as e:  # noqa: BLE001
            _reraise_machinery(e)
            continue
        if fl:
            k, key, msg = fl[0]
            small = shrink_case(nb, key)
            res.violate("oracle", key, msg, {"case": small, "failing_step": len(small["steps"]) - 1})
            return True
    return False


def check_asm(res: Result, items: list[tuple[dict, list[str], dict]], use_lean: bool) -> None:
    lines = []
    if use_lean:
        for system, kinds, a in items:
            lines += asm_lines(system, a)
        answers = common.run_lean_driver(PID, lines) if lines else []
    for n, (system, kinds, a) in enumerate(items):
        res.evaluations += 1
        res.count("asm:" + ("residual" if a["is_residual"] else "plain"))
        diag = a["is_residual"] and any(f in a["variables"] for f in a["functions"])
        if diag:
            res.count("asm:with-diagonal-block")
        res.nontrivial(json.dumps([system["sizes"], a["functions"], a["variables"], a["is_residual"]], sort_keys=True))
        obs = run_asm(system, kinds, a)
        for k in set(kinds):
            res.count(f"asm:kind={k}")
        bad = asm_oracle(system, a, obs)
        for key, msg in bad:
            res.violate("oracle", key, msg[:500], {"asm": a, "system": system, "kinds": kinds})
        if use_lean:
            diff = asm_model_diff(a, obs, answers[3 * n : 3 * n + 3])
            if diff is None:
                res.traces_validated += 1
            else:
                res.disagreements += 1
                if not bad:
                    res.violate(
                        "correspondence", "model-vs-impl:assemble",
                        "assemble_jacobian differs from the Lean model: " + diff[:400],
                        {"asm": a, "system": system, "kinds": kinds, "protocol_lines": asm_lines(system, a),
                         "model": answers[3 * n : 3 * n + 3], "correspondence": "Driver/C07.lean `asm/opv/opr`"},
                    )


def run(ctx) -> Result:
    from harness import c07_limits

    res = Result(PID)
    res.rule = (
        "random linear coupled systems (2-4 coupled disciplines + optional pre/post disciplines, sizes 1-3, strong/"
        "weak/self couplings, optional residual/state pair; partial Jacobians as dense arrays, SciPy CSR/CSC/COO arrays "
        "and matrices or operators), optionally rescaled by exact powers of two (2^-45..2^45 on design inputs, pure "
        "functions and on the block of coupled variables), random ordered input/output subsets, every (mode, "
        "matrix_type, use_lu_fact, linear_solver), through MDA*.linearize (fresh MDA, the same MDA linearized again "
        "with added outputs / at another point, several MDAs on the same discipline instances, simple and full memory "
        "caches) and successive JacobianAssembly.total_derivatives calls; round 3: the same systems with quadratic terms "
        "(point-dependent partial Jacobians, as operators / sparse / dense) linearized at 2-3 different explicit points "
        "by the same MDA / assembly / disciplines, and requests without connectivity condition (inputs no requested "
        "function depends on, functions depending on no requested input) with grammar defaults of other lengths than "
        "the values; every evaluated request is non-trivial (a coupled solve is involved, or a zero block of a given "
        "shape is expected); distinct by (sizes, request, mode, matrix_type, lu, exponents, point); plus exact "
        "assemble_jacobian requests (matrix and operator)"
    )
    res.assumptions = [
        "systems are linear with dyadic coefficients and a fixed-point map of max-norm <= 1/2 (well-conditioned residual Jacobian); "
        "rescaled systems keep one common exponent on all the variables of the residual system, so their residual Jacobian is the same matrix",
        "rounded stream: |impl - exact| <= 2^-30 * max(s, |exact|) per entry, s = 2^(e_f - e_x) the natural scale of the block "
        "(1 without rescaling) (iterative solvers, rtol 1e-12)",
        "round-1/2 streams: requests are connected (every requested function depends on a requested variable at the level of the "
        "discipline graph and conversely); round-3 'free' cases have no such condition (since fix c7c5cf7 the code returns zero blocks)",
        "non-linear cases: design inputs in the box |x| <= 1 (multiples of 1/4), coupling row sums of the tangent system <= 1/2 at "
        "every linearized point (well-conditioned residual Jacobian), no rescaling; the disciplines' own Jacobians are compared "
        "with the partial derivatives at the linearized points within the bound of the rounded stream (not observed for Newton-Raphson)",
        "BICG/BICGSTAB/CGS/TFQMR: a SciPy break-down (RuntimeError) is counted, not judged; an inaccurate result is a violation only if GMRES reproduces it",
        "CG is excluded (needs a symmetric positive definite matrix, the residual Jacobian is not)",
        f"work limit: a step may apply SciPy linear operators at most {WORK_LIMIT} times ({WORK_LIMIT_LOW} once two steps "
        "of the run with a GMRES-type solver have hit the limit); the count is deterministic (no wall clock). A step stopped at the limit is an oracle "
        "failure only if the exact observation of the disciplines' Jacobians shows that the operands of the assembly were "
        f"modified, otherwise it is skipped (probe:work-limit-unconfirmed); a step running longer than {CASE_WALL_S:.0f} s "
        "of wall clock is skipped too (counted, never judged)",
    ]
    use_lean = ctx.audit is not None or os.environ.get("C07_FORCE_LEAN") == "1"
    _SZ_ITEMS[:] = []
    rng = ctx.rng
    corpus = load_corpus()
    check_cases(res, [c for c in corpus if "steps" in c], use_lean)
    res.count("corpus", len(corpus))
    n_sys = 500 if ctx.thorough else 50

    cases, asm_items = [], []
    for _ in range(n_sys):
        system = gen_system(rng)
        if not in_scope(system) or exact_total(system) is None:
            res.count("generator-rejected")
            continue
        # harness self-check: the closed form of the property text equals the derivative of the solution
        outs, xs = candidate_outputs(system), design_inputs(system)
        cf = closed_form(system, outs, xs)
        ex = exact_total(system)
        if cf is None or any(cf[k] != ex[k] for k in cf):
            raise RuntimeError("harness oracles disagree (closed form vs derivative of the solution)")
        for flavour in ("plain", "plain", "history"):
            cases.append(gen_case(rng, system, flavour))
        cases.append(gen_case(rng, system, "sweep", "assembly"))
        if rng.chance(0.5):
            cases.append(gen_case(rng, system, "sweep", rng.pick(MDA_PATHS)))
        for flavour in ("nl", "free"):
            c3 = gen_case_r3(rng, system, flavour)
            if c3 is not None:
                cases.append(c3)
        for _ in range(2):
            asm_items.append((system, gen_kinds(rng, system), gen_asm(rng, system)))
    cases = [c for c in cases if c["steps"] and _valid_case(c)]
    batch = 40
    # the model answers of the next batch are computed (Lean driver, a sub-process reading and writing files)
    # while the implementation runs the current one
    starts = list(range(0, len(cases), batch))
    if use_lean:
        common.run_lean_driver(PID, ["mc F=[] V=[] R=[] D=[]"])  # builds the model when needed
    fut = AsyncModel(model_request(cases[:batch])) if use_lean and starts else None
    try:
        for n, i in enumerate(starts):
            if time.time() > ctx.deadline:
                res.notes.append(f"deadline reached after {i} cases")
                break
            model = fut.result() if fut is not None else None
            fut = None
            if use_lean and n + 1 < len(starts):
                fut = AsyncModel(model_request(cases[starts[n + 1] : starts[n + 1] + batch]))
            check_cases(res, cases[i : i + batch], use_lean, model=model)
            if len([v for v in res.violations if v.kind == "oracle"]) >= 4:
                res.notes.append(f"stopped after {i + batch} cases: 4 distinct oracle violations already have a replay")
                break
    finally:
        if fut is not None:
            fut.cancel()
    check_asm(res, asm_items, use_lean)
    if use_lean:
        check_sizes(res)
    res.extra["max_operator_applications_per_step"] = dict(c07_limits.STATE.max_by_tag)
    res.extra["operator_application_limit"] = WORK_LIMIT
    return res


def replay(path: str) -> int:
    data = json.loads(open(path).read())
    rp = data.get("replay", data)  # a replay file, or a corpus file ({"case": ...})
    if "case" in rp and "steps" in rp["case"]:
        case = rp["case"]
        obs = run_case(case)
        fl = case_failures(case, observations=obs)
        per_step = step_systems(case)
        if case.get("exps"):
            print("exponents of the rescaling:", case["exps"])
        for k, st in enumerate(case["steps"]):
            print(f"step {k}: {st}")
            print("  impl :", obs[k].get("jac", {k2: v for k2, v in obs[k].items() if k2 != "store"}))
            exact = per_step[k][1]
            shown = (lambda v: str(v) if v.denominator < 10**6 else repr(float(v)))
            print("  exact:", {f"{f}:{x}": [[shown(v) for v in r] for r in exact[(f, x)]] for f in st["functions"] for x in st["variables"]})
        try:
            print("  model:", [a[:400] for a in common.run_lean_driver(PID, [model_line(case, st) for st in case["steps"]])])
        except Exception as e:  # noqa: BLE001
            print("  model: (driver unavailable)", e)
        bad = [(k, key, msg) for k, key, msg in fl if not key.startswith("probe:")]
        for k, key, msg in bad:
            print("ORACLE FAILS:", k, key, msg)
        return 1 if bad else 0
    if "asm" in rp:
        obs = run_asm(rp["system"], rp["kinds"], rp["asm"])
        bad = asm_oracle(rp["system"], rp["asm"], obs)
        print("impl:", obs)
        for key, msg in bad:
            print("ORACLE FAILS:", key, msg)
        return 1 if bad else 0
    print(json.dumps(rp, indent=1)[:3000])
    return 1
