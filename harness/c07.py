"""C07 — coupled total derivatives satisfy the implicit-function equations.

Cases: random LINEAR coupled systems (2-4 coupled disciplines + optional weakly coupled
pre/post disciplines, variable sizes 1-3 chosen asymmetric on purpose, strong, weak and self
couplings, optionally one discipline with a residual/state pair) with exact dyadic partial
derivatives (harness/c07_disc.py), differentiated

* through ``MDA*.linearize`` (MDAJacobi, MDAGaussSeidel, MDAChain with and without chain
  linearization, MDANewtonRaphson on fully strongly coupled systems) and
* through successive ``JacobianAssembly.total_derivatives`` requests on one assembly,

for every (mode, matrix_type, use_lu_fact, linear_solver) combination and random ordered subsets
of inputs and outputs.

Oracle (independent of the model and of the code): the derivative of the *converged coupled
solution* computed in exact rational arithmetic from the specification of the system
(all discipline outputs and states are the unknowns of one affine system ``M u = N x + k``,
``du/dx = M^-1 N``), cross-checked against the closed form of the property text
``dF/dx = F_x - F_y R_y^-1 R_x`` (also over ``Fraction``).  POSITIVE assertion:
``|impl - exact| <= 2^-30 * max(1, |exact|)`` for every entry (rounded stream: the linear solvers
are iterative), shapes must match, no exception.

Correspondence with the Lean model (Driver/C07.lean):
* exact stream — ``JacobianAssembly.assemble_jacobian`` (sparse matrix, and linear operator
  applied to the canonical basis with ``matvec`` and ``rmatvec``) for random function/variable
  lists, with and without ``is_residual``: compared entry by entry, exactly;
* rounded stream — total derivatives (direct / adjoint / auto) against the model's exact result.
"""

from __future__ import annotations

import copy
import itertools
import json
import math
import os
from fractions import Fraction
from typing import Any

import numpy as np

from harness import common
from harness.common import F
from harness.common import Result
from harness.common import rat

PID = "C07"
BOUND = Fraction(1, 2**30)

TRUSTED_EXTRA = (
    "C07: SciPy's iterative solvers / SuperLU return a solution of the system they are given (assumed; the "
    "oracle checks the final derivatives against the exact closed form up to 2^-30, so a non-converged solve "
    "cannot pass)",
    "C07: matrix-free products (AssembledJacobianOperator, JacobianOperator algebra) are validated by the exact "
    "correspondence on the canonical basis, not proved",
    "C07: harness systems are linear, so the partial Jacobians do not depend on the MDA's converged point",
)

SOLVERS = ("DEFAULT", "LGMRES", "GMRES", "BICG", "BICGSTAB", "GCROT", "TFQMR", "CGS")
MODES = ("direct", "adjoint", "auto")
MTYPES = ("matrix", "linear_operator")

# --------------------------------------------------------------------------- exact linear algebra


def fzeros(r: int, c: int) -> list[list[Fraction]]:
    return [[Fraction(0)] * c for _ in range(r)]


def fmul(a, b):
    n, k, m = len(a), len(b), (len(b[0]) if b else 0)
    return [[sum((a[i][t] * b[t][j] for t in range(k)), Fraction(0)) for j in range(m)] for i in range(n)]


def fsolve(a, b):
    """Solve a x = b over Fraction by Gauss-Jordan; None when singular. a: n x n, b: n x m."""
    n = len(a)
    m = len(b[0]) if b and b[0] else 0
    aug = [list(a[i]) + list(b[i]) for i in range(n)]
    for col in range(n):
        piv = next((r for r in range(col, n) if aug[r][col] != 0), None)
        if piv is None:
            return None
        aug[col], aug[piv] = aug[piv], aug[col]
        p = aug[col][col]
        aug[col] = [v / p for v in aug[col]]
        for r in range(n):
            if r != col and aug[r][col] != 0:
                f = aug[r][col]
                aug[r] = [x - f * y for x, y in zip(aug[r], aug[col])]
    return [row[n : n + m] for row in aug]


# --------------------------------------------------------------------------- systems
# system = {"sizes": {var: n}, "discs": [spec, ...]} with spec as in harness/c07_disc.py


def producers(system) -> dict[str, int]:
    prod = {}
    for k, d in enumerate(system["discs"]):
        for o in [*d["outs"], *d.get("states", {}).values(), *d.get("states", {})]:
            prod[o] = k
    return prod


def disc_inputs(d) -> list[str]:
    return [*d["ins"], *d.get("states", {}).values()]


def design_inputs(system) -> list[str]:
    prod = producers(system)
    seen = []
    for d in system["discs"]:
        for i in d["ins"]:
            if i not in prod and i not in seen:
                seen.append(i)
    return seen


def all_states(system) -> dict[str, str]:
    res = {}
    for d in system["discs"]:
        res.update(d.get("states", {}))
    return res


def all_couplings(system) -> list[str]:
    """Outputs of a discipline that are inputs of a discipline (states excluded), sorted."""
    prod = producers(system)
    states = set(all_states(system).values())
    used = {i for d in system["discs"] for i in d["ins"]}
    return sorted(v for v in prod if v in used and v not in states)


def block(system, o: str, i: str):
    """Exact partial d o / d i of the producer of o (None when i is not one of its inputs or zero)."""
    prod = producers(system)
    d = system["discs"][prod[o]]
    inv = {w: r for r, w in d.get("states", {}).items()}
    if o in inv:
        r = inv[o]
        if i == o or i not in d["A"].get(r, {}):
            return None
        diag = [Fraction(d["A"][r][o][k][k]) for k in range(system["sizes"][o])]
        return [[-Fraction(v) / diag[k] for v in row] for k, row in enumerate(d["A"][r][i])]
    m = d["A"].get(o, {}).get(i)
    return None if m is None else [[Fraction(v) for v in row] for row in m]


def exact_total(system) -> dict[tuple[str, str], list[list[Fraction]]] | None:
    """Derivative of the converged coupled solution wrt the design inputs, exactly.

    Unknowns u: every discipline output and state; equations: the defining equation of each explicit
    output and each residual; M u = N x + k  =>  du/dx = M^-1 N.
    """
    sizes = system["sizes"]
    prod = producers(system)
    res_of = all_states(system)
    unknowns = [v for v in prod if v not in res_of]  # explicit outputs and states
    xs = design_inputs(system)
    uoff, off = {}, 0
    for v in unknowns:
        uoff[v] = off
        off += sizes[v]
    nu = off
    xoff, off = {}, 0
    for v in xs:
        xoff[v] = off
        off += sizes[v]
    nx = off
    m = fzeros(nu, nu)
    n = fzeros(nu, nx)
    row = 0
    state_res = {w: r for r, w in res_of.items()}
    for v in unknowns:
        d = system["discs"][prod[v]]
        eq = state_res.get(v, v)  # a state is defined by its residual equation
        blocks = d["A"].get(eq, {})
        for a in range(sizes[v]):
            if eq == v:
                m[row + a][uoff[v] + a] += 1  # v - (c + sum A in) = 0
            for i, mat in blocks.items():
                for b in range(sizes[i]):
                    coef = Fraction(mat[a][b])  # explicit: v - A u = A x + c;  residual: - A u = A x + c
                    if i in uoff:
                        m[row + a][uoff[i] + b] -= coef
                    else:
                        n[row + a][xoff[i] + b] += coef
        row += sizes[v]
    sol = fsolve(m, n)
    if sol is None:
        return None
    out = {}
    for v in unknowns:
        for x in xs:
            out[(v, x)] = [sol[uoff[v] + a][xoff[x] : xoff[x] + sizes[x]] for a in range(sizes[v])]
    for r in res_of:
        for x in xs:
            out[(r, x)] = fzeros(sizes[r], sizes[x])
    return out


def assemble_exact(system, functions, variables, is_residual: bool):
    """Property-text assembly over Fraction: block (i, j) at the prefix-sum offsets, -I on Yi-Yi."""
    sizes = system["sizes"]
    nr = sum(sizes[f] for f in functions)
    nc = sum(sizes[v] for v in variables)
    out = fzeros(nr, nc)
    r0 = 0
    for f in functions:
        c0 = 0
        for v in variables:
            b = block(system, f, v)
            for a in range(sizes[f]):
                for c in range(sizes[v]):
                    val = b[a][c] if b is not None else Fraction(0)
                    if is_residual and f == v and a == c:
                        val -= 1
                    out[r0 + a][c0 + c] = val
            c0 += sizes[v]
        r0 += sizes[f]
    return out


def closed_form(system, functions, variables):
    """dF/dx = F_x - F_y R_y^-1 R_x with all the couplings, the residuals and the states (property text)."""
    states = all_states(system)
    ys = all_couplings(system)
    rows = ys + list(states)
    cols = ys + list(states.values())
    r_y = assemble_exact(system, rows, cols, True)
    r_x = assemble_exact(system, rows, variables, True)
    x = fsolve(r_y, r_x) if rows else []
    if x is None:
        return None
    out = {}
    for f in functions:
        f_x = assemble_exact(system, [f], variables, False)
        f_y = assemble_exact(system, [f], cols, False)
        corr = fmul(f_y, x) if rows else fzeros(len(f_x), len(f_x[0]) if f_x else 0)
        tot = [[a - b for a, b in zip(ra, rb)] for ra, rb in zip(f_x, corr)]
        c0 = 0
        for v in variables:
            n = system["sizes"][v]
            out[(f, v)] = [row[c0 : c0 + n] for row in tot]
            c0 += n
    return out


# --------------------------------------------------------------------------- generation

_NAMES = [a + b for a in "abcdefgh" for b in "pqrs"]


def _dy(rng, lo=-4, hi=4, den=8) -> Fraction:
    return Fraction(rng.randint(lo, hi), den)


def _rand_block(rng, r, c, dense=0.8, lo=-4, hi=4, den=8):
    m = [[(_dy(rng, lo, hi, den) if rng.chance(dense) else Fraction(0)) for _ in range(c)] for _ in range(r)]
    if all(v == 0 for row in m for v in row):
        m[rng.randrange(r)][rng.randrange(c)] = Fraction(rng.pick([-1, 1]), den)
    return m


def gen_system(rng: common.Rng) -> dict[str, Any]:
    names = list(_NAMES)
    rng.shuffle(names)
    take = iter(names)
    sizes: dict[str, int] = {}

    def new(size=None):
        n = next(take)
        sizes[n] = size if size is not None else rng.pick([1, 1, 2, 2, 3])
        return n

    xs = [new() for _ in range(rng.pick([1, 2, 2, 3]))]
    n_c = rng.pick([2, 2, 3, 3, 4])
    p_edge = rng.pick([0.3, 0.6, 1.0])
    discs = []
    outs_of = []
    for k in range(n_c):
        outs = [new() for _ in range(rng.pick([1, 1, 2]))]
        outs_of.append(outs)
        discs.append({"name": f"D{k}", "ins": [], "outs": outs, "A": {}, "c": {}})
    # coupling edges j -> i (i takes some outputs of j), self loops allowed
    for i in range(n_c):
        for j in range(n_c):
            p = 0.2 if i == j else p_edge
            if rng.chance(p):
                for o in outs_of[j] if rng.chance(0.5) else [rng.pick(outs_of[j])]:
                    if o not in discs[i]["ins"]:
                        discs[i]["ins"].append(o)
    # optional weakly coupled pre-discipline (x -> p, p used by coupled ones)
    if rng.chance(0.35):
        pouts = [new()]
        discs.insert(rng.randrange(len(discs) + 1), {"name": "Pre", "ins": [], "outs": pouts, "A": {}, "c": {}})
        users = [d for d in discs if d["name"].startswith("D") and rng.chance(0.6)] or [discs[0] if discs[0]["name"] != "Pre" else discs[1]]
        for d in users:
            d["ins"].append(pouts[0])
    # optional post-discipline computing functions of couplings
    if rng.chance(0.7):
        fouts = [new() for _ in range(rng.pick([1, 2]))]
        cand = [o for outs in outs_of for o in outs]
        ins = [o for o in cand if rng.chance(0.6)] or [rng.pick(cand)]
        discs.insert(rng.randrange(len(discs) + 1), {"name": "Post", "ins": ins, "outs": fouts, "A": {}, "c": {}})
    # design inputs
    for d in discs:
        for x in xs:
            if rng.chance(0.55):
                d["ins"].append(x)
    for x in xs:
        if not any(x in d["ins"] for d in discs):
            rng.pick(discs)["ins"].append(x)
    for d in discs:
        if not d["ins"]:
            d["ins"].append(rng.pick(xs))
        rng.shuffle(d["ins"])
    # optional residual/state pair on one coupled discipline
    if rng.chance(0.3):
        d = rng.pick([d for d in discs if d["name"].startswith("D")])
        n = rng.pick([1, 2])
        w, r = new(n), new(n)
        d["states"] = {r: w}
    # coefficients
    for d in discs:
        st = d.get("states", {})
        for o in d["outs"]:
            d["A"][o] = {}
            for i in [*d["ins"], *st.values()]:
                if rng.chance(0.85) or len(d["ins"]) == 1:
                    d["A"][o][i] = _rand_block(rng, sizes[o], sizes[i])
            if not d["A"][o]:
                i = rng.pick(d["ins"])
                d["A"][o][i] = _rand_block(rng, sizes[o], sizes[i])
            d["c"][o] = [_dy(rng) for _ in range(sizes[o])]
        for r, w in st.items():
            n = sizes[w]
            diag = [[Fraction(0)] * n for _ in range(n)]
            for k in range(n):
                diag[k][k] = Fraction(rng.pick([-1, 1]) * rng.pick([1, 2, 4]))
            d["A"][r] = {w: diag}
            for i in d["ins"]:
                if rng.chance(0.8):
                    d["A"][r][i] = _rand_block(rng, n, sizes[i])
            d["c"][r] = [_dy(rng) for _ in range(n)]
    system = {"sizes": sizes, "discs": discs}
    _make_contractive(system)
    return _jsonable(system)


def _make_contractive(system) -> None:
    """Scale the coupling/state coefficients row-wise (by powers of two) until every defining
    equation has coupling row sum <= 1/2: the fixed-point map is then a contraction in the max norm
    (norm <= 1/2), so R_y is invertible with a condition number bounded by a small constant and every
    MDA algorithm converges."""
    sizes = system["sizes"]
    prod = producers(system)
    for d in system["discs"]:
        st = d.get("states", {})
        for o in d["outs"]:
            for a in range(sizes[o]):
                while True:
                    s = sum(abs(Fraction(m[a][b])) for i, m in d["A"][o].items() if i in prod for b in range(sizes[i]))
                    if s <= Fraction(1, 2):
                        break
                    for i, m in d["A"][o].items():
                        if i in prod:
                            m[a] = [Fraction(v) / 2 for v in m[a]]
        for r, w in st.items():
            for a in range(sizes[w]):
                dg = abs(Fraction(d["A"][r][w][a][a]))
                while True:
                    s = sum(abs(Fraction(m[a][b])) for i, m in d["A"][r].items() if i in prod and i != w for b in range(sizes[i]))
                    if s <= dg / 2:
                        break
                    for i, m in d["A"][r].items():
                        if i in prod and i != w:
                            m[a] = [Fraction(v) / 2 for v in m[a]]


def _jsonable(system):
    s = {"sizes": dict(system["sizes"]), "discs": []}
    for d in system["discs"]:
        e = {
            "name": d["name"],
            "ins": list(d["ins"]),
            "outs": list(d["outs"]),
            "A": {o: {i: [[rat(v) for v in row] for row in m] for i, m in bl.items()} for o, bl in d["A"].items()},
            "c": {o: [rat(v) for v in vec] for o, vec in d["c"].items()},
        }
        if d.get("states"):
            e["states"] = dict(d["states"])
        s["discs"].append(e)
    return s


def in_scope(system) -> bool:
    """Shadow validity check (also applied to shrunk/neighbour systems)."""
    try:
        sizes = system["sizes"]
        seen = set()
        for d in system["discs"]:
            st = d.get("states", {})
            for o in [*d["outs"], *st, *st.values()]:
                if o in seen:
                    return False
                seen.add(o)
            if not d["ins"] or not d["outs"]:
                return False
            for o, bl in d["A"].items():
                for i, m in bl.items():
                    if i not in disc_inputs(d):
                        return False
                    if len(m) != sizes[o] or any(len(row) != sizes[i] for row in m):
                        return False
        prod = producers(system)
        for d in system["discs"]:
            st = d.get("states", {})
            for o in d["outs"]:
                for a in range(sizes[o]):
                    s = sum(abs(Fraction(v)) for i, m in d["A"].get(o, {}).items() if i in prod for v in m[a])
                    if s > Fraction(1, 2):
                        return False
            for r, w in st.items():
                for a in range(sizes[w]):
                    row = d["A"][r][w][a]
                    if any(Fraction(v) != 0 for b, v in enumerate(row) if b != a):
                        return False
                    dg = abs(Fraction(row[a]))
                    if dg == 0 or dg.denominator != 1 or dg.numerator & (dg.numerator - 1):
                        return False
                    s = sum(abs(Fraction(v)) for i, m in d["A"][r].items() if i in prod and i != w for v in m[a])
                    if s > dg / 2:
                        return False
        return bool(design_inputs(system))
    except (KeyError, IndexError, ValueError, ZeroDivisionError):
        return False


def candidate_outputs(system) -> list[str]:
    res = set(all_states(system))
    return [v for v in producers(system) if v not in res]


def gen_request(rng, system) -> dict[str, list[str]]:
    outs = candidate_outputs(system)
    xs = design_inputs(system)
    nf = rng.pick([1, 1, 2, 3, len(outs)])
    nv = rng.pick([1, 1, 2, len(xs)])
    fs = rng.sample(outs, min(nf, len(outs)))
    vs = rng.sample(xs, min(nv, len(xs)))
    return {"functions": fs, "variables": vs}


def strongly_coupled_only(system) -> bool:
    """Every discipline lies on a cycle of the coupling graph with at least two disciplines."""
    prod = producers(system)
    n = len(system["discs"])
    adj = [[False] * n for _ in range(n)]
    for i, d in enumerate(system["discs"]):
        for v in d["ins"]:
            if v in prod:
                adj[prod[v]][i] = True
    reach = [row[:] for row in adj]
    for k in range(n):
        for a in range(n):
            for b in range(n):
                reach[a][b] = reach[a][b] or (reach[a][k] and reach[k][b])
    return n >= 2 and all(any(j != i and reach[i][j] and reach[j][i] for j in range(n)) for i in range(n))


def gen_config(rng, system, path=None) -> dict[str, Any]:
    path = path or rng.pick(["assembly", "assembly", "MDAJacobi", "MDAGaussSeidel", "MDAChain", "MDAChainLin", "MDANewtonRaphson"])
    if path == "MDANewtonRaphson" and not strongly_coupled_only(system):
        path = rng.pick(["MDAJacobi", "MDAGaussSeidel", "MDAChain"])
    if path == "MDAChainLin" and all_states(system):
        # the chain rule of MDOChain does not know the residual/state convention (C09's domain): out of scope
        path = "MDAChain"
    mt = rng.pick(MTYPES)
    lu = mt == "matrix" and rng.chance(0.3)
    return {
        "path": path,
        "mode": rng.pick(MODES),
        "matrix_type": mt,
        "lu": lu,
        "solver": rng.pick(SOLVERS),
        "kinds": [rng.pick(["dense", "dense", "sparse", "operator"]) for _ in system["discs"]],
    }


# --------------------------------------------------------------------------- implementation


def build_disciplines(system, kinds=None):
    from harness.c07_disc import LinDisc

    discs = []
    for k, spec in enumerate(system["discs"]):
        s = dict(spec)
        s["kind"] = (kinds or ["dense"] * len(system["discs"]))[k]
        discs.append(LinDisc(s, system["sizes"]))
    return discs


def _to_rows(m) -> list[list[float]]:
    if hasattr(m, "toarray"):
        m = m.toarray()
    elif hasattr(m, "matvec") and not isinstance(m, np.ndarray):
        # a (composed) JacobianOperator returned by the chain rule: apply it to the canonical basis
        nr, nc = m.shape
        m = np.column_stack([np.asarray(m.matvec(e), dtype=float).ravel() for e in np.eye(nc)]) if nc else np.zeros((nr, 0))
    a = np.asarray(m, dtype=float)
    if a.ndim != 2:
        raise ValueError(f"Jacobian block is not 2-D: shape {a.shape}")
    return a.tolist()


def run_mda(system, request, cfg) -> dict[str, Any]:
    """mda.linearize on a fresh MDA; returns {"jac": {(f, x): rows}} or {"exc": ...}."""
    from gemseo.mda.gauss_seidel import MDAGaussSeidel
    from gemseo.mda.jacobi import MDAJacobi
    from gemseo.mda.mda_chain import MDAChain
    from gemseo.mda.newton_raphson import MDANewtonRaphson

    discs = build_disciplines(system, cfg.get("kinds"))
    path = cfg["path"]
    kw = {"tolerance": 1e-14, "max_mda_iter": 200, "use_lu_fact": bool(cfg["lu"]), "linear_solver": cfg["solver"]}
    try:
        if path == "MDAJacobi":
            mda = MDAJacobi(discs, **kw)
        elif path == "MDAGaussSeidel":
            mda = MDAGaussSeidel(discs, **kw)
        elif path == "MDANewtonRaphson":
            mda = MDANewtonRaphson(discs, **kw)
        elif path == "MDAChain":
            mda = MDAChain(discs, chain_linearize=False, **kw)
        elif path == "MDAChainLin":
            mda = MDAChain(discs, chain_linearize=True, **kw)
        else:
            raise ValueError(path)
        mda.linearization_mode = cfg["mode"]
        mda.matrix_type = cfg["matrix_type"]
        if path.startswith("MDAChain"):
            for sub in mda.inner_mdas:
                sub.linearization_mode = cfg["mode"]
                sub.matrix_type = cfg["matrix_type"]
        mda.add_differentiated_inputs(request["variables"])
        mda.add_differentiated_outputs(request["functions"])
        jac = mda.linearize()
        return {"jac": _collect(jac, request)}
    except Exception as e:  # noqa: BLE001
        return {"exc": common.exc_class(e), "msg": repr(e)[:300]}


def _collect(jac, request):
    out = {}
    for f in request["functions"]:
        for x in request["variables"]:
            out[(f, x)] = _to_rows(jac[f][x])
    return out


class AssemblySession:
    """One JacobianAssembly used for several successive total_derivatives requests."""

    def __init__(self, system, kinds=None):
        from gemseo.core.coupling_structure import CouplingStructure
        from gemseo.core.derivatives.jacobian_assembly import JacobianAssembly

        self.system = system
        self.discs = build_disciplines(system, kinds)
        self.cs = CouplingStructure(self.discs)
        self.assembly = JacobianAssembly(self.cs)
        self.states = all_states(system)
        self.in_data = {}
        for d in self.discs:
            for n in d.io.input_grammar:
                self.in_data.setdefault(n, np.zeros(system["sizes"][n]))
        # as an MDA does before linearizing: every discipline has been executed at the point
        for d in self.discs:
            d.execute(self.in_data)

    def couplings(self) -> list[str]:
        res = self.states
        return sorted(set(self.cs.all_couplings) - set(res) - set(res.values()))

    def total(self, request, cfg) -> dict[str, Any]:
        try:
            jac = self.assembly.total_derivatives(
                self.in_data,
                list(request["functions"]),
                list(request["variables"]),
                self.couplings(),
                linear_solver=cfg["solver"],
                mode=cfg["mode"],
                matrix_type=cfg["matrix_type"],
                use_lu_fact=bool(cfg["lu"]),
                residual_variables=dict(self.states),
                rtol=1e-12,
            )
            return {"jac": _collect(jac, request)}
        except Exception as e:  # noqa: BLE001
            return {"exc": common.exc_class(e), "msg": repr(e)[:300]}

    def assemble(self, functions, variables, is_residual: bool) -> dict[str, Any]:
        """assemble_jacobian as a matrix and as an operator (matvec / rmatvec on the canonical basis)."""
        from gemseo.core.derivatives.jacobian_assembly import JacobianAssembly

        try:
            for d in self.discs:
                d.linearize(self.in_data, compute_all_jacobians=True)
            a = self.assembly
            a.compute_sizes(functions, variables, [], {})
            mat = a.assemble_jacobian(functions, variables, is_residual=is_residual)
            dense = np.asarray(mat.toarray(), dtype=float)
            op = a.assemble_jacobian(
                functions, variables, is_residual=is_residual, jacobian_type=JacobianAssembly.JacobianType.LINEAR_OPERATOR
            )
            nr, nc = op.shape
            fwd = np.column_stack([op.matvec(e) for e in np.eye(nc)]) if nc else np.zeros((nr, 0))
            bwd = np.column_stack([op.rmatvec(e) for e in np.eye(nr)]).T if nr else np.zeros((0, nc))
            return {"matrix": dense.tolist(), "matvec": fwd.tolist(), "rmatvec": bwd.tolist()}
        except Exception as e:  # noqa: BLE001
            return {"exc": common.exc_class(e), "msg": repr(e)[:300]}


# --------------------------------------------------------------------------- oracle


def close(v: float, e: Fraction) -> bool:
    """POSITIVE assertion: finite and within the stated bound."""
    if not (isinstance(v, (int, float)) and math.isfinite(v)):
        return False
    return abs(F(v) - e) <= BOUND * max(Fraction(1), abs(e))


def resolved_mode(system, request, cfg) -> str:
    if cfg["mode"] != "auto":
        return cfg["mode"]
    nv = sum(system["sizes"][v] for v in request["variables"])
    nf = sum(system["sizes"][f] for f in request["functions"])
    return "direct" if nv <= nf else "adjoint"


def oracle(system, request, cfg, obs, exact=None) -> list[tuple[str, str]]:
    """(key, message) of every clause of the property the observation violates."""
    exact = exact or exact_total(system)
    tag = f"{resolved_mode(system, request, cfg)}:{cfg['matrix_type']}{':lu' if cfg['lu'] else ''}"
    if all_states(system):
        tag += ":states"
    if "exc" in obs:
        return [(f"raises:{obs['exc']}:{tag}", f"linearization raised {obs.get('msg')}")]
    bad = []
    sizes = system["sizes"]
    for f in request["functions"]:
        for x in request["variables"]:
            got = obs["jac"].get((f, x))
            want = exact[(f, x)]
            if got is None or len(got) != sizes[f] or any(len(r) != sizes[x] for r in got):
                bad.append((f"shape:{tag}", f"d{f}/d{x}: block of shape {(sizes[f], sizes[x])} expected, got {got!r}"))
                continue
            for a in range(sizes[f]):
                for b in range(sizes[x]):
                    if not close(got[a][b], want[a][b]):
                        bad.append((
                            f"mismatch:{tag}",
                            f"d{f}[{a}]/d{x}[{b}] = {got[a][b]!r}, exact value {want[a][b]} ({float(want[a][b])!r})",
                        ))
                        break
                else:
                    continue
                break
    # one message per key
    seen, out = set(), []
    for k, m in bad:
        if k not in seen:
            seen.add(k)
            out.append((k, m))
    return out


# --------------------------------------------------------------------------- scope of a request

LANCZOS = ("BICG", "BICGSTAB", "CGS", "TFQMR")  # may break down (SciPy): see notes/C07.md


def _disc_reach(system) -> list[list[bool]]:
    """reach[a][b]: discipline b depends (reflexively, transitively) on an output of discipline a."""
    prod = producers(system)
    n = len(system["discs"])
    reach = [[a == b for b in range(n)] for a in range(n)]
    for i, d in enumerate(system["discs"]):
        for v in d["ins"]:
            if v in prod:
                reach[prod[v]][i] = True
    for k in range(n):
        for a in range(n):
            for b in range(n):
                reach[a][b] = reach[a][b] or (reach[a][k] and reach[k][b])
    return reach


def connected(system, request) -> bool:
    """Every requested function is computed by a discipline that depends (at the level of the
    discipline graph) on a requested variable, and every requested variable feeds a discipline on
    which a requested function depends.  Requests with a structurally independent function or
    variable make `JacobianAssembly` raise on purpose ("Failed to determine the size of input
    variable", tested by the test-suite): they are outside the in-scope stream (probe only)."""
    prod = producers(system)
    reach = _disc_reach(system)
    users = {x: [k for k, d in enumerate(system["discs"]) if x in d["ins"]] for x in request["variables"]}
    fprod = {f: prod[f] for f in request["functions"]}
    for f, pf in fprod.items():
        if not any(reach[u][pf] for x in request["variables"] for u in users[x]):
            return False
    for x in request["variables"]:
        if not any(reach[u][pf] for u in users[x] for pf in fprod.values()):
            return False
    return True


def needs_couplings(system, request) -> bool:
    """Some coupling variable lies on a dependency path of the request (else the code has an empty
    residual system)."""
    prod = producers(system)
    reach = _disc_reach(system)
    cpl = set(all_couplings(system))
    src = {k for k, d in enumerate(system["discs"]) if set(d["ins"]) & set(request["variables"])}
    dst = {prod[f] for f in request["functions"]}
    for k, d in enumerate(system["discs"]):
        on_path = any(reach[s][k] for s in src) and any(reach[k][t] for t in dst)
        if not on_path:
            continue
        names = set(d["ins"]) | set(d["outs"])
        if names & cpl:
            return True
    return False


# --------------------------------------------------------------------------- cases


def gen_case(rng, system=None) -> dict[str, Any]:
    system = system or gen_system(rng)
    cfg0 = gen_config(rng, system)
    steps = []
    n_steps = rng.pick([2, 2, 3]) if cfg0["path"] == "assembly" else 1
    for _ in range(n_steps):
        for _try in range(20):
            req = gen_request(rng, system)
            if connected(system, req):
                break
        else:
            continue
        c = gen_config(rng, system, cfg0["path"])
        steps.append({**req, "mode": c["mode"], "matrix_type": c["matrix_type"], "lu": c["lu"], "solver": c["solver"]})
    return {"system": system, "path": cfg0["path"], "kinds": cfg0["kinds"], "steps": steps}


def step_cfg(case, step) -> dict[str, Any]:
    return {
        "path": case["path"],
        "kinds": case["kinds"],
        "mode": step["mode"],
        "matrix_type": step["matrix_type"],
        "lu": step["lu"],
        "solver": step["solver"],
    }


def run_case(case) -> list[dict[str, Any]]:
    """Observations of the real code, one per step."""
    system = case["system"]
    obs = []
    if case["path"] == "assembly":
        sess = AssemblySession(system, case["kinds"])
        for st in case["steps"]:
            obs.append(sess.total(st, step_cfg(case, st)))
    else:
        for st in case["steps"]:
            obs.append(run_mda(system, st, step_cfg(case, st)))
    return obs


def case_failures(case, exact=None) -> list[tuple[int, str, str]]:
    """(step index, key, message) for every property clause the real code violates on the case."""
    system = case["system"]
    exact = exact or exact_total(system)
    out = []
    observations = run_case(case)
    for k, (st, ob) in enumerate(zip(case["steps"], observations)):
        cfg = step_cfg(case, st)
        bad = oracle(system, st, cfg, ob, exact)
        if bad and st["solver"] in LANCZOS:
            if any(key.startswith("raises:E:runtime") for key, _ in bad):
                out.append((k, "probe:solver-breakdown", bad[0][1]))
                continue
            # accuracy of a Lanczos-type solver: only a violation when GMRES shows the same failure
            alt = copy.deepcopy(case)
            for s2 in alt["steps"]:
                s2["solver"] = "GMRES"
            ob2 = run_case(alt)[k]
            bad2 = oracle(system, alt["steps"][k], step_cfg(alt, alt["steps"][k]), ob2, exact)
            if not bad2:
                out.append((k, "probe:solver-accuracy", bad[0][1]))
                continue
            bad = bad2
        for key, msg in bad:
            out.append((k, key, msg))
    return out


# --------------------------------------------------------------------------- shrinking


def _drop_disc(system, k):
    """Remove discipline k and every reference to its outputs."""
    s = copy.deepcopy(system)
    d = s["discs"].pop(k)
    gone = set(d["outs"]) | set(d.get("states", {})) | set(d.get("states", {}).values())
    for e in s["discs"]:
        e["ins"] = [i for i in e["ins"] if i not in gone]
        for o in e["A"]:
            e["A"][o] = {i: m for i, m in e["A"][o].items() if i not in gone}
    used = {v for e in s["discs"] for v in [*e["ins"], *e["outs"], *e.get("states", {}), *e.get("states", {}).values()]}
    s["sizes"] = {v: n for v, n in s["sizes"].items() if v in used}
    return s


def _drop_output(system, k, o):
    s = copy.deepcopy(system)
    d = s["discs"][k]
    if len(d["outs"]) <= 1 or o not in d["outs"]:
        return None
    d["outs"].remove(o)
    d["A"].pop(o, None)
    d["c"].pop(o, None)
    for e in s["discs"]:
        e["ins"] = [i for i in e["ins"] if i != o]
        for oo in e["A"]:
            e["A"][oo].pop(o, None)
    s["sizes"].pop(o, None)
    return s


def _shrink_var(system, v):
    """Drop the last component of variable v (rows / columns of every block); a state and its
    residual shrink together."""
    s = copy.deepcopy(system)
    group = {v}
    for r, w in all_states(s).items():
        if v in (r, w):
            group |= {r, w}
    if s["sizes"][v] <= 1:
        return None
    for g in group:
        s["sizes"][g] -= 1
    for d in s["discs"]:
        for o, bl in d["A"].items():
            for i in list(bl):
                m = bl[i]
                if o in group:
                    m = m[:-1]
                if i in group:
                    m = [row[:-1] for row in m]
                bl[i] = m
        for o in list(d["c"]):
            if o in group:
                d["c"][o] = d["c"][o][:-1]
    return s


def _valid_case(case) -> bool:
    system = case["system"]
    if not in_scope(system) or exact_total(system) is None:
        return False
    prod = producers(system)
    xs = set(design_inputs(system))
    res = set(all_states(system))
    for st in case["steps"]:
        if not st["functions"] or not st["variables"]:
            return False
        if any(f not in prod or f in res for f in st["functions"]) or any(x not in xs for x in st["variables"]):
            return False
        if not connected(system, st):
            return False
    if case["path"] == "MDANewtonRaphson" and not strongly_coupled_only(system):
        return False
    if case["path"] == "MDAChainLin" and all_states(system):
        return False
    return len(case["kinds"]) == len(system["discs"]) and bool(case["steps"])


def shrink_case(case, key, budget=60) -> dict[str, Any]:
    """Greedy reduction keeping `key` among the failures (every candidate is re-validated as in-scope)."""

    calls = [0]

    def fails(c) -> bool:
        if calls[0] >= budget or not _valid_case(c):
            return False
        calls[0] += 1
        try:
            return any(k == key for _, k, _ in case_failures(c))
        except Exception:  # noqa: BLE001
            return False

    cur = copy.deepcopy(case)
    # 1. steps: keep a prefix ending at the failing step, then try the failing step alone
    fl = [k for k, kk, _ in case_failures(cur) if kk == key]
    if fl:
        cur["steps"] = cur["steps"][: fl[0] + 1]
        alone = {**cur, "steps": [cur["steps"][-1]]}
        if len(cur["steps"]) > 1 and fails(alone):
            cur = alone
    # 2. single function / variable in the last step
    last = cur["steps"][-1]
    for fld in ("functions", "variables"):
        for name in list(last[fld]):
            if len(last[fld]) > 1:
                c = copy.deepcopy(cur)
                c["steps"][-1][fld] = [n for n in last[fld] if n != name]
                if fails(c):
                    cur = c
                    last = cur["steps"][-1]
    # 3. dense kinds, default solver
    for mod in (lambda c: c.update(kinds=["dense"] * len(c["kinds"])), lambda c: [s.update(solver="DEFAULT") for s in c["steps"]]):
        c = copy.deepcopy(cur)
        mod(c)
        if c != cur and fails(c):
            cur = c
    # 4. drop disciplines / outputs, shrink variable sizes
    progress = True
    while progress and calls[0] < budget:
        progress = False
        for k in range(len(cur["system"]["discs"])):
            c = copy.deepcopy(cur)
            c["system"] = _drop_disc(cur["system"], k)
            c["kinds"] = cur["kinds"][:k] + cur["kinds"][k + 1 :]
            if fails(c):
                cur, progress = c, True
                break
        if progress:
            continue
        for k, d in enumerate(cur["system"]["discs"]):
            for o in list(d["outs"]):
                s2 = _drop_output(cur["system"], k, o)
                if s2 is None:
                    continue
                c = copy.deepcopy(cur)
                c["system"] = s2
                if fails(c):
                    cur, progress = c, True
                    break
            if progress:
                break
        if progress:
            continue
        for v in list(cur["system"]["sizes"]):
            s2 = _shrink_var(cur["system"], v)
            if s2 is None:
                continue
            c = copy.deepcopy(cur)
            c["system"] = s2
            if fails(c):
                cur, progress = c, True
                break
    return cur


# --------------------------------------------------------------------------- protocol lines (Lean model)


def _names(l) -> str:
    return ",".join(l) if l else "[]"


def _rows(m) -> str:
    return ";".join(",".join(rat(v) for v in row) for row in m) if m else "[]"


def _sizes_field(system) -> str:
    return "S=" + ",".join(f"{n}:{k}" for n, k in system["sizes"].items())


def _blocks_fields(system) -> list[str]:
    out = []
    for d in system["discs"]:
        st = d.get("states", {})
        for o in [*d["outs"], *st.values(), *st]:
            for i in disc_inputs(d):
                b = block(system, o, i)
                if b is not None:
                    out.append(f"B={o}:{i}:{_rows(b)}")
    return out


def _discs_field(system) -> str:
    parts = []
    for d in system["discs"]:
        st = d.get("states", {})
        parts.append(f"{d['name']}:{_names(disc_inputs(d))}:{_names([*d['outs'], *st.values(), *st])}")
    return "D=" + "|".join(parts)


def _res_field(system) -> str:
    st = all_states(system)
    return "R=" + (",".join(f"{r}:{w}" for r, w in st.items()) if st else "[]")


def td_line(system, step, mode=None) -> str:
    return " ".join([
        "td",
        mode or step["mode"],
        "F=" + _names(step["functions"]),
        "V=" + _names(step["variables"]),
        "Y=auto",
        _res_field(system),
        _sizes_field(system),
        _discs_field(system),
        *_blocks_fields(system),
    ])


def asm_lines(system, a) -> list[str]:
    common_f = ["F=" + _names(a["functions"]), "V=" + _names(a["variables"]), _sizes_field(system)]
    flag = "1" if a["is_residual"] else "0"
    bl = _blocks_fields(system)
    return [
        " ".join(["asm", flag, *common_f, *bl]),
        " ".join(["opv", flag, *common_f, "X=" + ",".join(a["x"]), *bl]),
        " ".join(["opr", flag, *common_f, "X=" + ",".join(a["xt"]), *bl]),
    ]


def parse_td(ans: str) -> dict[tuple[str, str], list[list[Fraction]]] | None:
    if ans.startswith("E:") or ans.startswith("bad"):
        return None
    out = {}
    for tok in ans.split(" "):
        key, rows = tok.split("=")
        f, x = key.split(":")
        out[(f, x)] = [] if rows == "[]" else [[Fraction(v) for v in r.split(",")] for r in rows.split(";")]
    return out


def parse_mat(ans: str):
    if ans == "[]":
        return []
    return [[Fraction(v) for v in r.split(",")] for r in ans.split(";")]


# --------------------------------------------------------------------------- assembly stream (exact)


def gen_asm(rng, system) -> dict[str, Any]:
    prod = producers(system)
    used = []
    for d in system["discs"]:
        for i in disc_inputs(d):
            if i not in used:
                used.append(i)
    fs = rng.sample(list(prod), min(len(prod), rng.pick([1, 2, 3, 4])))
    pool = used + [f for f in fs if f not in used]
    vs = rng.sample(pool, min(len(pool), rng.pick([1, 2, 3, 4])))
    if rng.chance(0.5) and fs and fs[0] not in vs and fs[0] in pool:
        vs[rng.randrange(len(vs))] = fs[0]  # make a residual diagonal block likely
    nr = sum(system["sizes"][f] for f in fs)
    nc = sum(system["sizes"][v] for v in vs)
    return {
        "functions": fs,
        "variables": vs,
        "is_residual": rng.chance(0.6),
        "x": [rat(rng.dyadic(-2, 2, 2)) for _ in range(nc)],
        "xt": [rat(rng.dyadic(-2, 2, 2)) for _ in range(nr)],
    }


def run_asm(system, kinds, a) -> dict[str, Any]:
    sess = AssemblySession(system, kinds)
    obs = sess.assemble(a["functions"], a["variables"], a["is_residual"])
    if "exc" in obs:
        return obs
    from gemseo.core.derivatives.jacobian_assembly import JacobianAssembly

    try:
        op = sess.assembly.assemble_jacobian(
            a["functions"], a["variables"], is_residual=a["is_residual"],
            jacobian_type=JacobianAssembly.JacobianType.LINEAR_OPERATOR,
        )
        obs["opv"] = np.asarray(op.matvec(np.array([float(Fraction(v)) for v in a["x"]]))).ravel().tolist()
        obs["opr"] = np.asarray(op.rmatvec(np.array([float(Fraction(v)) for v in a["xt"]]))).ravel().tolist()
        mt = sess.assembly.assemble_jacobian(a["functions"], a["variables"], is_residual=a["is_residual"])
        obs["matT"] = np.asarray(mt.T.toarray(), dtype=float).tolist()
    except Exception as e:  # noqa: BLE001
        return {"exc": common.exc_class(e), "msg": repr(e)[:300]}
    return obs


def _exact_eq(got, want) -> bool:
    try:
        if len(got) != len(want):
            return False
        for rg, rw in zip(got, want):
            if len(rg) != len(rw):
                return False
            for g, w in zip(rg, rw):
                if not (math.isfinite(g) and F(g) == w):
                    return False
        return True
    except (TypeError, ValueError):
        return False


def asm_oracle(system, a, obs) -> list[tuple[str, str]]:
    """Block placement of the property text: exact comparison with `assemble_exact`."""
    tag = "residual" if a["is_residual"] else "plain"
    if "exc" in obs:
        return [(f"asm-raises:{obs['exc']}:{tag}", f"assemble_jacobian raised {obs.get('msg')}")]
    want = assemble_exact(system, a["functions"], a["variables"], a["is_residual"])
    nr, nc = len(want), (len(want[0]) if want else 0)
    bad = []
    if not _exact_eq(obs["matrix"], want):
        bad.append((f"asm-matrix:{tag}", f"assembled matrix {obs['matrix']} != exact {[[str(v) for v in r] for r in want]}"))
    if not _exact_eq(obs["matvec"], want):
        bad.append((f"asm-operator-matvec:{tag}", f"operator (matvec on the basis) {obs['matvec']} != exact {[[str(v) for v in r] for r in want]}"))
    if not _exact_eq(obs["rmatvec"], want):
        bad.append((f"asm-operator-rmatvec:{tag}", f"operator (rmatvec on the basis) {obs['rmatvec']} != exact {[[str(v) for v in r] for r in want]}"))
    wt = [[want[i][j] for i in range(nr)] for j in range(nc)]
    if nr and nc and not _exact_eq(obs["matT"], wt):
        bad.append((f"asm-transpose:{tag}", "transpose of the assembled matrix is not the exact transpose"))
    return bad


def asm_model_diff(a, obs, answers) -> str | None:
    """Exact comparison of the observation with the three model answers (asm, opv, opr)."""
    if "exc" in obs:
        return f"implementation raised {obs['exc']}, model answered {answers[0][:80]}"
    m = parse_mat(answers[0])
    if not _exact_eq(obs["matrix"], m) and not (not m and not obs["matrix"]):
        return f"asm: impl {obs['matrix']} model {answers[0]}"
    if not _exact_eq(obs["matvec"], m) or not _exact_eq(obs["rmatvec"], m):
        return f"operator on the basis differs from the model matrix {answers[0]}"
    for key, ans in (("opv", answers[1]), ("opr", answers[2])):
        want = [] if ans == "[]" else [Fraction(v) for v in ans.split(",")]
        got = obs[key]
        if len(got) != len(want) or any(not (math.isfinite(g) and F(g) == w) for g, w in zip(got, want)):
            return f"{key}: impl {got} model {ans}"
    return None


# --------------------------------------------------------------------------- run


def load_corpus() -> list[dict[str, Any]]:
    d = common.CORPUS_DIR / PID
    out = []
    if d.is_dir():
        for p in sorted(d.glob("*.json")):
            out.append(json.loads(p.read_text())["case"])
    return out


def _td_model_diff(system, step, obs, model_ans) -> str | None:
    m = parse_td(model_ans)
    if m is None:
        return None if "exc" in obs else f"model answered {model_ans[:60]} but the implementation returned derivatives"
    if "exc" in obs:
        return f"implementation raised {obs['exc']} ({obs.get('msg', '')[:120]}), model returned derivatives"
    for f in step["functions"]:
        for x in step["variables"]:
            got, want = obs["jac"].get((f, x)), m.get((f, x))
            if want is None or got is None or len(got) != len(want) or any(len(a) != len(b) for a, b in zip(got, want)):
                return f"d{f}/d{x}: shapes differ (impl {got}, model {want})"
            for ra, rb in zip(got, want):
                for a, b in zip(ra, rb):
                    if not close(a, b):
                        return f"d{f}/d{x}: impl {a!r} model {b}"
    return None


def check_cases(res: Result, cases: list[dict[str, Any]], use_lean: bool, in_scope_stream: bool = True) -> None:
    lines, index = [], []
    if use_lean:
        for ci, case in enumerate(cases):
            for si, st in enumerate(case["steps"]):
                index.append((ci, si))
                lines.append(td_line(case["system"], st))
        answers = common.run_lean_driver(PID, lines) if lines else []
    model = dict(zip(index, answers)) if use_lean else {}
    for ci, case in enumerate(cases):
        system = case["system"]
        exact = exact_total(system)
        observations = None
        failures = case_failures(case, exact)
        observations = run_case(case) if use_lean else None
        res.evaluations += len(case["steps"])
        res.count(f"path={case['path']}")
        res.count(f"n_disc={len(system['discs'])}")
        if all_states(system):
            res.count("with-states")
        for st in case["steps"]:
            cfg = step_cfg(case, st)
            res.count(f"mode={st['mode']}->{resolved_mode(system, st, cfg)}")
            res.count(f"matrix_type={st['matrix_type']}{'+lu' if st['lu'] else ''}")
            res.count(f"solver={st['solver']}")
            nf = sum(system["sizes"][f] for f in st["functions"])
            nv = sum(system["sizes"][v] for v in st["variables"])
            res.count("shape=" + ("square" if nf == nv else "rect"))
            res.nontrivial(json.dumps([system["sizes"], st["functions"], st["variables"], st["mode"], st["matrix_type"], st["lu"]], sort_keys=True))
        res.sample({"path": case["path"], "sizes": system["sizes"], "steps": case["steps"][:1]})
        real = [(k, key, msg) for k, key, msg in failures if not key.startswith("probe:")]
        for k, key, msg in failures:
            if key.startswith("probe:"):
                res.count(key)
        if not in_scope_stream:
            for k, key, msg in real:
                res.count("probe:" + key.split(":")[0])
            continue
        for k, key, msg in real:
            small = shrink_case(case, key)
            fl = [(kk, m2) for _, kk, m2 in case_failures(small) if kk == key]
            res.violate(
                "oracle", key, (fl[0][1] if fl else msg),
                {"case": small, "failing_step": len(small["steps"]) - 1, "bound": "2^-30 * max(1,|exact|)"},
            )
        if use_lean:
            probe_steps = {k for k, key, _ in failures if key.startswith("probe:")}
            for si, st in enumerate(case["steps"]):
                if si in probe_steps:
                    continue  # SciPy break-down / inaccuracy of a Lanczos-type solver: counted, not judged
                diff = _td_model_diff(system, st, observations[si], model[(ci, si)])
                if diff is None:
                    res.traces_validated += 1
                    continue
                res.disagreements += 1
                if real:
                    continue  # the oracle already exhibits a failing input for this case
                found = search_failing_input(res, case)
                if not found:
                    res.violate(
                        "correspondence", "model-vs-impl:total-derivatives",
                        "total derivatives of the implementation differ from the Lean model: " + diff,
                        {"case": case, "step": si, "protocol_line": td_line(system, st), "model": model[(ci, si)],
                         "impl": {f"{f}:{x}": v for (f, x), v in observations[si].get("jac", {}).items()} or observations[si],
                         "correspondence": "Driver/C07.lean `td`"},
                    )


def neighbours(case):
    """Neighbours of a case for the failing-input search."""
    for st_i in range(len(case["steps"])):
        for mode in MODES:
            for mt in MTYPES:
                c = copy.deepcopy(case)
                c["steps"][st_i].update(mode=mode, matrix_type=mt, lu=False)
                yield c
        c = copy.deepcopy(case)
        c["steps"][st_i].update(matrix_type="matrix", lu=True)
        yield c
        c = copy.deepcopy(case)
        c["steps"] = [c["steps"][st_i]]
        yield c
        c = copy.deepcopy(case)
        c["steps"][st_i]["functions"] = list(reversed(c["steps"][st_i]["functions"]))
        c["steps"][st_i]["variables"] = list(reversed(c["steps"][st_i]["variables"]))
        yield c
    if len(case["steps"]) > 1:
        c = copy.deepcopy(case)
        c["steps"] = list(reversed(c["steps"]))
        yield c
    for kind in ("dense", "sparse", "operator"):
        c = copy.deepcopy(case)
        c["kinds"] = [kind] * len(c["kinds"])
        yield c
    for path in ("assembly", "MDAJacobi", "MDAGaussSeidel", "MDAChain"):
        if path != case["path"]:
            c = copy.deepcopy(case)
            c["path"] = path
            yield c


def search_failing_input(res: Result, case) -> bool:
    for nb in neighbours(case):
        if not _valid_case(nb):
            continue
        try:
            fl = [(k, key, msg) for k, key, msg in case_failures(nb) if not key.startswith("probe:")]
        except Exception:  # noqa: BLE001
            continue
        if fl:
            k, key, msg = fl[0]
            small = shrink_case(nb, key)
            res.violate("oracle", key, msg, {"case": small, "failing_step": len(small["steps"]) - 1})
            return True
    return False


def check_asm(res: Result, items: list[tuple[dict, list[str], dict]], use_lean: bool) -> None:
    lines = []
    if use_lean:
        for system, kinds, a in items:
            lines += asm_lines(system, a)
        answers = common.run_lean_driver(PID, lines) if lines else []
    for n, (system, kinds, a) in enumerate(items):
        res.evaluations += 1
        res.count("asm:" + ("residual" if a["is_residual"] else "plain"))
        diag = a["is_residual"] and any(f in a["variables"] for f in a["functions"])
        if diag:
            res.count("asm:with-diagonal-block")
        res.nontrivial(json.dumps([system["sizes"], a["functions"], a["variables"], a["is_residual"]], sort_keys=True))
        obs = run_asm(system, kinds, a)
        bad = asm_oracle(system, a, obs)
        for key, msg in bad:
            res.violate("oracle", key, msg[:500], {"asm": a, "system": system, "kinds": kinds})
        if use_lean:
            diff = asm_model_diff(a, obs, answers[3 * n : 3 * n + 3])
            if diff is None:
                res.traces_validated += 1
            else:
                res.disagreements += 1
                if not bad:
                    res.violate(
                        "correspondence", "model-vs-impl:assemble",
                        "assemble_jacobian differs from the Lean model: " + diff[:400],
                        {"asm": a, "system": system, "kinds": kinds, "protocol_lines": asm_lines(system, a),
                         "model": answers[3 * n : 3 * n + 3], "correspondence": "Driver/C07.lean `asm/opv/opr`"},
                    )


def run(ctx) -> Result:
    res = Result(PID)
    res.rule = (
        "random linear coupled systems (2-4 coupled disciplines + optional pre/post disciplines, sizes 1-3, strong/"
        "weak/self couplings, optional residual/state pair), random ordered input/output subsets, every (mode, "
        "matrix_type, use_lu_fact, linear_solver), through MDA*.linearize and successive JacobianAssembly."
        "total_derivatives calls; every evaluated request is non-trivial (a coupled solve is involved); distinct by "
        "(sizes, request, mode, matrix_type, lu); plus exact assemble_jacobian requests (matrix and operator)"
    )
    res.assumptions = [
        "systems are linear with dyadic coefficients and a fixed-point map of max-norm <= 1/2 (well-conditioned residual Jacobian)",
        "rounded stream: |impl - exact| <= 2^-30 * max(1, |exact|) per entry (iterative solvers, rtol 1e-12)",
        "requests are connected: every requested function depends on a requested variable at the level of the discipline graph and conversely (the code raises on purpose otherwise)",
        "BICG/BICGSTAB/CGS/TFQMR: a SciPy break-down (RuntimeError) is counted, not judged; an inaccurate result is a violation only if GMRES reproduces it",
        "CG is excluded (needs a symmetric positive definite matrix, the residual Jacobian is not)",
    ]
    use_lean = ctx.audit is not None or os.environ.get("C07_FORCE_LEAN") == "1"
    rng = ctx.rng
    corpus = load_corpus()
    check_cases(res, [c for c in corpus if "steps" in c], use_lean)
    res.count("corpus", len(corpus))
    n_sys = 600 if ctx.thorough else 70
    import time

    cases, asm_items = [], []
    for _ in range(n_sys):
        system = gen_system(rng)
        if not in_scope(system) or exact_total(system) is None:
            res.count("generator-rejected")
            continue
        # harness self-check: the closed form of the property text equals the derivative of the solution
        outs, xs = candidate_outputs(system), design_inputs(system)
        cf = closed_form(system, outs, xs)
        ex = exact_total(system)
        if cf is None or any(cf[k] != ex[k] for k in cf):
            raise RuntimeError("harness oracles disagree (closed form vs derivative of the solution)")
        for _ in range(3):
            cases.append(gen_case(rng, system))
        for _ in range(2):
            asm_items.append((system, gen_config(rng, system)["kinds"], gen_asm(rng, system)))
    cases = [c for c in cases if c["steps"]]
    batch = 40
    for i in range(0, len(cases), batch):
        if time.time() > ctx.deadline:
            res.notes.append(f"deadline reached after {i} cases")
            break
        check_cases(res, cases[i : i + batch], use_lean)
    check_asm(res, asm_items, use_lean)
    return res


def replay(path: str) -> int:
    data = json.loads(open(path).read())
    rp = data["replay"]
    if "case" in rp and "steps" in rp["case"]:
        case = rp["case"]
        fl = case_failures(case)
        obs = run_case(case)
        exact = exact_total(case["system"])
        for k, st in enumerate(case["steps"]):
            print(f"step {k}: {st}")
            print("  impl :", obs[k].get("jac", obs[k]))
            print("  exact:", {f"{f}:{x}": [[str(v) for v in r] for r in exact[(f, x)]] for f in st["functions"] for x in st["variables"]})
        try:
            print("  model:", common.run_lean_driver(PID, [td_line(case["system"], st) for st in case["steps"]]))
        except Exception as e:  # noqa: BLE001
            print("  model: (driver unavailable)", e)
        bad = [(k, key, msg) for k, key, msg in fl if not key.startswith("probe:")]
        for k, key, msg in bad:
            print("ORACLE FAILS:", k, key, msg)
        return 1 if bad else 0
    if "asm" in rp:
        obs = run_asm(rp["system"], rp["kinds"], rp["asm"])
        bad = asm_oracle(rp["system"], rp["asm"], obs)
        print("impl:", obs)
        for key, msg in bad:
            print("ORACLE FAILS:", key, msg)
        return 1 if bad else 0
    print(json.dumps(rp, indent=1)[:3000])
    return 1
