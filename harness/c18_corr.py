"""C18 — correspondence between the real code and the Lean model (Driver/C18.lean).

The protocol lines are built from *public* observations of the fitted objects (coefficients, offsets,
PCA means/components, regression coefficients, SciPy Rbf nodes/centres/epsilon) and from the inputs;
the Lean driver recomputes transforms, inverses, Jacobians, predictions and kernel derivatives with the
model, and the answers are compared with what the real code returned:
  exactly representable paths through `Fraction` within 2^-40 (relative to the magnitudes involved),
  Float paths (kernels, RBF networks, PCA parameters) within 2^-30.
"""

from __future__ import annotations

import struct
import subprocess
from fractions import Fraction
from typing import Any
from typing import Callable

import numpy as np

from harness import c18_lib as L
from harness import common
from harness.common import F
from harness.common import rat

PID = "C18"
TWO40 = Fraction(1, 2**40)
TWO30 = Fraction(1, 2**30)


def bits(x: float) -> str:
    return str(struct.unpack("<Q", struct.pack("<d", float(x)))[0])


def unbits(s: str) -> float:
    return struct.unpack("<d", struct.pack("<Q", int(s)))[0]


def rvec(v) -> str:
    v = list(np.asarray(v, dtype=float).ravel())
    return ",".join(rat(float(t)) for t in v) if v else "[]"


def rmat(m) -> str:
    m = np.atleast_2d(np.asarray(m, dtype=float))
    if m.size == 0:
        return "[]"
    return ";".join(rvec(r) for r in m)


def bvec(v) -> str:
    v = list(np.asarray(v, dtype=float).ravel())
    return ",".join(bits(t) for t in v) if v else "[]"


def bmat(m) -> str:
    m = np.atleast_2d(np.asarray(m, dtype=float))
    return ";".join(bvec(r) for r in m)


def parse_answer(ans: str) -> dict[str, str]:
    out = {}
    for tok in ans.split(" "):
        if "=" in tok:
            k, v = tok.split("=", 1)
            out[k] = v
    return out


def pvec(s: str) -> list[Fraction]:
    return [] if s == "[]" else [Fraction(t) for t in s.split(",")]


def pmat(s: str) -> list[list[Fraction]]:
    return [] if s == "[]" else [pvec(r) for r in s.split(";")]


def pbvec(s: str) -> list[float]:
    return [] if s == "[]" else [unbits(t) for t in s.split(",")]


def pbmat(s: str) -> list[list[float]]:
    return [] if s == "[]" else [pbvec(r) for r in s.split(";")]


def frac_close(model_vals, impl_vals, bound: Fraction, floor: Fraction = Fraction(1)) -> bool:
    """Positive assertion on two flat sequences: same length, impl finite, |m - i| <= bound*max(floor, max|m|)."""
    mv = [Fraction(v) if not isinstance(v, float) else F(v) for v in model_vals]
    iv = list(np.asarray(impl_vals, dtype=float).ravel())
    if len(mv) != len(iv):
        return False
    if not all(np.isfinite(iv)):
        return False
    scale = max([floor, *[abs(v) for v in mv]])
    return all(abs(m - F(i)) <= bound * scale for m, i in zip(mv, iv))


def flat(m) -> list:
    return [v for row in m for v in row]


def ensure_gen_built() -> str | None:
    """Build the generated kernel module (the driver imports it); returns an error text or None."""
    with common.lake_lock():
        r = subprocess.run(
            ["lake", "build", "GemseoVerif.Model.C18", "GemseoVerif.Gen.C18Kernels"],
            cwd=common.LEAN_DIR,
            capture_output=True,
            text=True,
        )
    if r.returncode != 0:
        return (r.stdout + r.stderr)[-2000:]
    return None


def run_driver_parallel(lines: list[str], procs: int, timeout: int = 3600) -> list[str]:
    """The driver of C18 is stateless (one independent request per line) and interpreted: long batches are cut into
    `procs` contiguous chunks answered by as many driver processes; the answers keep the order of the lines.

    No thread and no pipe: the model is built once under the shared lock (as `common.run_lean_driver` does), then each
    driver process reads its chunk from a file and writes its answers to a file; a driver that does not finish is
    killed and reported as an error of the machinery (exit 2), never as a verdict.
    """
    if procs <= 1 or len(lines) < 200:
        return common.run_lean_driver(PID, lines)
    import shutil
    import tempfile

    for ln in lines:
        if "\n" in ln:
            raise ValueError("protocol line contains a newline")
    with common.lake_lock():
        b = common._run(["lake", "build", f"GemseoVerif.Model.{PID}"], common.LEAN_DIR)
    if b.returncode != 0:
        raise RuntimeError("model build failed:\n" + (b.stdout + b.stderr)[-3000:])
    size = (len(lines) + procs - 1) // procs
    chunks = [lines[i : i + size] for i in range(0, len(lines), size)]
    tmp = tempfile.mkdtemp(prefix="c18-driver-")
    running = []
    try:
        for i, chunk in enumerate(chunks):
            with open(f"{tmp}/in{i}", "w") as fh:
                fh.write("\n".join(chunk) + "\n")
            fin, fout, ferr = open(f"{tmp}/in{i}"), open(f"{tmp}/out{i}", "w"), open(f"{tmp}/err{i}", "w")
            proc = subprocess.Popen(
                ["lake", "env", "lean", "--run", f"Driver/{PID}.lean"], cwd=common.LEAN_DIR, stdin=fin, stdout=fout, stderr=ferr, close_fds=True
            )
            running.append((proc, fin, fout, ferr))
        answers: list[str] = []
        for i, (proc, fin, fout, ferr) in enumerate(running):
            try:
                rc = proc.wait(timeout=timeout)
            finally:
                for fh in (fin, fout, ferr):
                    fh.close()
            out = open(f"{tmp}/out{i}").read().splitlines()
            if rc != 0 or len(out) != len(chunks[i]):
                raise RuntimeError(f"lean driver failed (exit {rc}, {len(out)} answers for {len(chunks[i])} lines):\n" + open(f"{tmp}/err{i}").read()[-2000:])
            answers.extend(out)
        return answers
    finally:
        for proc, *_ in running:
            if proc.poll() is None:
                proc.kill()
                proc.wait()
        shutil.rmtree(tmp, ignore_errors=True)


class Corr:
    """Collects protocol lines with the observations of the real code, then runs the driver and compares."""

    def __init__(self, procs: int = 1) -> None:
        self.items: list[tuple[str, Callable[[str], str | None], dict[str, Any]]] = []
        self.procs = procs  # driver processes per flush (every protocol line of C18 is stateless)

    def add(self, line: str, compare: Callable[[str], str | None] | tuple, context: dict[str, Any]) -> None:
        """`compare` is a callable or a picklable *spec* `(kind, *args)` (see `make_compare`), so that the lines
        collected by worker processes can be sent back to the main process."""
        self.items.append((line, compare, context))

    def extend(self, items) -> None:
        self.items.extend(items)

    def flush(self, res: common.Result, on_mismatch: Callable[[dict[str, Any], str, str, str], bool]) -> None:
        """`on_mismatch(context, line, answer, why)` runs the failing-input search; True if it reported an oracle failure."""
        if not self.items:
            return
        lines = [it[0] for it in self.items]
        answers = run_driver_parallel(lines, self.procs)
        for (line, compare, ctx), ans in zip(self.items, answers):
            res.evaluations += 1
            res.count("driver:" + line.split(" ", 1)[0])
            if isinstance(compare, tuple):
                compare = make_compare(compare)
            why = compare(ans)
            if why is None:
                res.traces_validated += 1
                continue
            if why == "skip":
                res.count("driver-skipped:" + ans.split(" ")[0][:20])
                continue
            res.disagreements += 1
            found = False
            try:
                found = on_mismatch(ctx, line, ans, why)
            except Exception as e:  # noqa: BLE001
                res.notes.append(f"failing-input search crashed: {e!r}")
            if not found:
                res.violate(
                    "correspondence",
                    "model-vs-impl:" + ctx.get("what", line.split(" ", 1)[0]),
                    f"implementation and Lean model disagree ({why}); no property-violating input found by the search",
                    {"protocol_line": line, "model_answer": ans, "why": why, "context": ctx, "correspondence": "Driver/C18.lean"},
                )
        self.items = []


# --------------------------------------------------------------------------- transformer lines


def fitted_step(t) -> str | None:
    """Protocol token of a fitted transformer of the model language (None if outside)."""
    name = type(t).__name__
    if name in ("Scaler", "MinMaxScaler", "StandardScaler"):
        return f"A:{rvec(t.coefficient)}:{rvec(t.offset)}"
    if name == "PCA":
        if t.data_is_scaled:
            return None
        return f"L:{rvec(t.algo.mean_)}:{rmat(t.algo.components_)}"
    return None


def fitted_pipe(t) -> str | None:
    if t is None:
        return "E"
    if type(t).__name__ == "Pipeline":
        if not t.transformers:
            return "E"
        toks = []
        for s in t.transformers:
            if type(s).__name__ == "Pipeline":
                inner = fitted_pipe(s)
                if inner is None:
                    return None
                if inner != "E":
                    toks.append(inner)
                continue
            tok = fitted_step(s)
            if tok is None:
                return None
            toks.append(tok)
        return "+".join(toks) if toks else "E"
    return fitted_step(t)


def unfitted_pipe(spec, fitted) -> str | None:
    """Spec of a pipeline that the *model* fits itself (scalers) — PCA parameters come from the fitted object.

    Returns None when the spec is outside the model language or a scaler follows a PCA (its fit would then
    depend on rounding noise of the PCA outputs, e.g. an exactly constant feature).
    """
    steps = spec[1] if spec[0] == "Pipeline" else [spec]
    fsteps = fitted.transformers if spec[0] == "Pipeline" else [fitted]
    toks = []
    seen_linear = False
    for s, f in zip(steps, fsteps):
        if s[0] == "Pipeline":
            return None
        if s[0] == "Scaler":
            c, o = s[1].get("coefficient", "1"), s[1].get("offset", "0")
            c = ",".join(c) if isinstance(c, list) else c
            o = ",".join(o) if isinstance(o, list) else o
            toks.append(f"C:{c}:{o}")
        elif s[0] == "MinMaxScaler":
            if seen_linear:
                return None
            toks.append("M")
        elif s[0] == "StandardScaler":
            if seen_linear:
                return None
            toks.append("S")
        elif s[0] == "PCA":
            tok = fitted_step(f)
            if tok is None:
                return None
            seen_linear = True
            toks.append(tok)
        else:
            return None
    return "+".join(toks) if toks else "E"


def tr_compare(z, xb, J, Ji, bound: Fraction):
    def cmp(ans: str) -> str | None:
        if ans in ("irrational",):
            return "skip"
        a = parse_answer(ans)
        if not all(k in a for k in ("z", "xb", "J", "Ji")):
            return f"model answered {ans!r}"
        if not frac_close(pvec(a["z"]), z, bound):
            return f"transform: model {a['z']} vs code {np.asarray(z).tolist()}"
        if xb is not None and not frac_close(pvec(a["xb"]), xb, bound):
            return f"inverse_transform(transform(x)): model {a['xb']} vs code {np.asarray(xb).tolist()}"
        if J is not None and not frac_close(flat(pmat(a["J"])), np.asarray(J).ravel(), bound):
            return f"compute_jacobian: model {a['J']} vs code {np.asarray(J).tolist()}"
        if Ji is not None and not frac_close(flat(pmat(a["Ji"])), np.asarray(Ji).ravel(), bound):
            return f"compute_jacobian_inverse: model {a['Ji']} vs code {np.asarray(Ji).tolist()}"
        return None

    return cmp


# --------------------------------------------------------------------------- regressor lines


def poly_powers(k: int, degree: int) -> np.ndarray:
    """The monomial table of scikit-learn (graded lexicographic order, no bias): independent of the model object."""
    from sklearn.preprocessing import PolynomialFeatures

    return PolynomialFeatures(degree=degree, include_bias=False).fit(np.zeros((1, k))).powers_


def reg_compare(p, J, bound: Fraction):
    def cmp(ans: str) -> str | None:
        a = parse_answer(ans)
        if "p" not in a or "J" not in a:
            return f"model answered {ans!r}"
        if not frac_close(pvec(a["p"]), p, bound):
            return f"predict: model {[float(v) for v in pvec(a['p'])]} vs code {np.asarray(p).tolist()}"
        if J is not None and not frac_close(flat(pmat(a["J"])), np.asarray(J).ravel(), bound):
            return f"predict_jacobian: model {[[float(v) for v in r] for r in pmat(a['J'])]} vs code {np.asarray(J).tolist()}"
        return None

    return cmp


def rbf_compare(p, J, bound: Fraction, scale: Fraction):
    def cmp(ans: str) -> str | None:
        a = parse_answer(ans)
        if "p" not in a or "J" not in a:
            return f"model answered {ans!r}"
        mp, mj = pbvec(a["p"]), flat(pbmat(a["J"]))
        if not all(np.isfinite(mp)) or not all(np.isfinite(mj)):
            return "skip"
        if not frac_close(mp, p, bound, scale):
            return f"predict: model {mp} vs code {np.asarray(p).tolist()}"
        if J is not None and not frac_close(mj, np.asarray(J).ravel(), bound, scale):
            return f"predict_jacobian: model {mj} vs code {np.asarray(J).tolist()}"
        return None

    return cmp


def split_compare(Jd, out_names, in_names, sizes):
    def cmp(ans: str) -> str | None:
        blocks = {}
        for tok in ans.split("|"):
            if "=" not in tok:
                return f"model answered {ans!r}"
            k, v = tok.split("=", 1)
            blocks[k] = pmat(v)
        for oi, o in enumerate(out_names):
            for ii, i in enumerate(in_names):
                got = np.asarray(Jd[o][i], dtype=float).reshape(sizes[o], sizes[i])
                want = blocks.get(f"{oi},{ii}")
                if want is None or [F(v) for v in got.ravel()] != flat(want):
                    return f"block d{o}/d{i}: model {want} vs code {got.tolist()}"
        return None

    return cmp


# --------------------------------------------------------------------------- surrogate discipline with name lists


def sur_compare(ys, blocks, bound: Fraction):
    """`ys`: the outputs of the discipline in requested order; `blocks[(n, m)]`: its Jacobian blocks (or None)."""

    def cmp(ans: str) -> str | None:
        toks = ans.split("|")
        if not toks or not toks[0].startswith("y="):
            return f"model answered {ans!r}"
        want = pvec(toks[0][2:])
        got = [v for y in ys for v in np.asarray(y, dtype=float).ravel()]
        if not frac_close(want, got, bound):
            return f"execute: model {[float(v) for v in want]} vs discipline {got}"
        if blocks is not None:
            mb = {}
            for tok in toks[1:]:
                if "=" not in tok:
                    return f"model answered {ans!r}"
                k, v = tok.split("=", 1)
                mb[k] = pmat(v)
            for (n, m), blk in blocks.items():
                w = mb.get(f"{n},{m}")
                g = np.atleast_2d(np.asarray(blk, dtype=float))
                if w is None or len(w) != g.shape[0] or not frac_close(flat(w), g.ravel(), bound):
                    return f"linearize block ({n},{m}): model {w} vs discipline {g.tolist()}"
        return None

    return cmp


# --------------------------------------------------------------------------- sessions (one object, several trainings)


def sess_compare(expected, bound: Fraction):
    """`expected`: one entry per operation: None after a training, (p, J or None) after a query."""

    def cmp(ans: str) -> str | None:
        toks = ans.split("|")
        if len(toks) != len(expected):
            return f"model answered {ans[:200]!r}"
        n_learn = 0
        for k, (tok, exp) in enumerate(zip(toks, expected)):
            if exp is None:
                n_learn += 1
                if tok != "trained":
                    return f"operation {k}: model answered {tok[:100]!r} after a training"
                continue
            p, J = exp
            parts = dict(t.split("=", 1) for t in tok.split("~") if "=" in t)
            if "p" not in parts or "J" not in parts:
                return f"operation {k}: model answered {tok[:100]!r}"
            if not frac_close(pvec(parts["p"]), p, bound):
                return f"predict after training #{n_learn}: model {[float(v) for v in pvec(parts['p'])]} vs code {np.asarray(p).tolist()}"
            if J is not None and not frac_close(flat(pmat(parts["J"])), np.asarray(J).ravel(), bound):
                return f"predict_jacobian after training #{n_learn}: model {[[float(v) for v in r] for r in pmat(parts['J'])]} vs code {np.asarray(J).tolist()}"
        return None

    return cmp


def moe_compare(expected, bound: Fraction):
    """`expected`: one entry per operation: None after an assignment of `hard`, (p, J or None) after a query
    (None: `predict_jacobian` raised NotImplementedError)."""

    def cmp(ans: str) -> str | None:
        toks = ans.split("|")
        if len(toks) != len(expected):
            return f"model answered {ans[:200]!r}"
        for k, (tok, exp) in enumerate(zip(toks, expected)):
            if exp is None:
                if tok != "set":
                    return f"operation {k}: model answered {tok[:100]!r} after an assignment"
                continue
            p, J = exp
            parts = dict(t.split("=", 1) for t in tok.split("~") if "=" in t)
            if "p" not in parts or "J" not in parts:
                return f"operation {k}: model answered {tok[:100]!r}"
            if not frac_close(pvec(parts["p"]), p, bound):
                return f"operation {k}: predict: model {[float(v) for v in pvec(parts['p'])]} vs code {np.asarray(p).tolist()}"
            if (parts["J"] == "_") != (J is None):
                return f"operation {k}: the model {'offers no' if parts['J'] == '_' else 'offers a'} Jacobian with the value of `hard` in force, the code {'raised NotImplementedError' if J is None else 'returned one'}"
            if J is not None and not frac_close(flat(pmat(parts["J"])), np.asarray(J).ravel(), bound):
                return f"operation {k}: predict_jacobian: model {[[float(v) for v in r] for r in pmat(parts['J'])]} vs code {np.asarray(J).tolist()}"
        return None

    return cmp


def make_compare(spec: tuple):
    kind, *args = spec
    return {
        "reg": reg_compare,
        "rbf": rbf_compare,
        "split": split_compare,
        "tr": tr_compare,
        "sur": sur_compare,
        "sess": sess_compare,
        "moe": moe_compare,
    }[kind](*args)
