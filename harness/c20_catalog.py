"""Catalogue of the C20 check: how to instantiate every class the property quantifies over.

`discipline_recipes()` returns {recipe name: (class name, builder)}; a builder takes a scratch
directory and returns a fresh object.  Classes of the discipline/MDA factories that need no
constructor argument are found *dynamically* (a class added to a factory is picked up without editing
this file); the others have an explicit recipe here; the ones that need an external tool are listed in
`EXTERNAL` and only counted.
"""

from __future__ import annotations

import contextlib
from pathlib import Path
from typing import Any
from typing import Callable

import numpy as np

from harness import c20_disc as H

EXTERNAL = {
    "DiscFromExe": "needs an external executable",
    "XLSDiscipline": "needs Excel/xlwings",
    "LSF": "needs the LSF job scheduler",
    "SLURM": "needs the SLURM job scheduler",
    "JobSchedulerDisciplineWrapper": "needs a job scheduler",
}

GRAMMARS = ("JSONGrammar", "SimpleGrammar", "PydanticGrammar")
CACHES = ("none", "SimpleCache", "MemoryFullCache", "HDF5Cache")
MOMENTS = ("fresh", "executed", "linearized")
SERIALIZERS = ("pickle", "gemseo")


@contextlib.contextmanager
def default_grammar(grammar: str):
    """Instantiate with another default grammar type (what DisciplineFactory's grammar_type option is meant to do)."""
    from gemseo.core.discipline.base_discipline import BaseDiscipline

    old = BaseDiscipline.__dict__["default_grammar_type"]
    BaseDiscipline.default_grammar_type = BaseDiscipline.GrammarType(grammar)
    try:
        yield
    finally:
        BaseDiscipline.default_grammar_type = old


# --------------------------------------------------------------------------- building blocks


def _sellar():
    from gemseo.problems.mdo.sellar.sellar_1 import Sellar1
    from gemseo.problems.mdo.sellar.sellar_2 import Sellar2
    from gemseo.problems.mdo.sellar.sellar_system import SellarSystem

    return [Sellar1(), Sellar2(), SellarSystem()]


def _affine_chain():
    return [
        H.AffineDisc("A1", {"x": 2, "z": 1}, {"y1": 2}, seed=1),
        H.AffineDisc("A2", {"y1": 2, "z": 1}, {"y2": 1}, seed=2),
    ]


def _affine_coupled():
    """A contractive linear 2-discipline system (coupling blocks scaled by 1/8)."""
    return [
        H.AffineDisc("C1", {"x": 1, "u2": 1}, {"u1": 1}, seed=3, quadratic=False, scale=0.125),
        H.AffineDisc("C2", {"x": 1, "u1": 1}, {"u2": 1}, seed=4, quadratic=False, scale=0.125),
    ]


def _sellar_design_space():
    from gemseo.problems.mdo.sellar.sellar_design_space import SellarDesignSpace

    return SellarDesignSpace()


def _mdo_scenario(algo_ready: bool = True):
    from gemseo.scenarios.mdo_scenario import MDOScenario

    sc = MDOScenario(_sellar(), "obj", _sellar_design_space(), formulation_name="MDF")
    sc.add_constraint("c_1", constraint_type="ineq")
    sc.add_constraint("c_2", constraint_type="ineq")
    sc.set_algorithm(algo_name="SLSQP", max_iter=5)
    return sc


def _sub_scenario():
    from gemseo.algos.design_space import DesignSpace
    from gemseo.scenarios.mdo_scenario import MDOScenario

    ds = DesignSpace()
    ds.add_variable("x", 2, lower_bound=-2.0, upper_bound=2.0, value=np.array([0.5, 0.5]))
    sc = MDOScenario(_affine_chain(), "y2", ds, formulation_name="DisciplinaryOpt")
    sc.set_algorithm(algo_name="SLSQP", max_iter=4)
    return sc


def _io_dataset():
    from gemseo.datasets.io_dataset import IODataset

    ds = IODataset()
    x = np.array([[0.0, 0.0], [1.0, 0.0], [0.0, 1.0], [1.0, 1.0], [0.5, 0.25], [0.25, 0.75]])
    y = np.column_stack([1.0 + 2.0 * x[:, 0] - x[:, 1], x[:, 0] + x[:, 1]])
    ds.add_variable("x", x, group_name=ds.INPUT_GROUP)
    ds.add_variable("y", y, group_name=ds.OUTPUT_GROUP)
    return ds


def _scalable_dataset():
    from gemseo.datasets.io_dataset import IODataset

    ds = IODataset()
    t = np.linspace(0.0, 1.0, 9)
    x = np.column_stack([t, (3.0 * t) % 1.0])
    ds.add_variable("x", x[:, :1], group_name=ds.INPUT_GROUP)
    ds.add_variable("z", x[:, 1:], group_name=ds.INPUT_GROUP)
    ds.add_variable("y", (x[:, :1] ** 2 + x[:, 1:]), group_name=ds.OUTPUT_GROUP)
    return ds


# --------------------------------------------------------------------------- explicit recipes


def _explicit() -> dict[str, tuple[str, Callable[[Path], Any]]]:
    def analytic(tmp):
        from gemseo.disciplines.analytic import AnalyticDiscipline

        return AnalyticDiscipline({"y": "2*x+z**2", "w": "x*z-1"})

    def analytic4(tmp):
        # expressions that are not symmetric in their (more than two) symbols: the positional arguments of the
        # lambdified functions follow the iteration order of a set of symbols
        from gemseo.disciplines.analytic import AnalyticDiscipline

        d = AnalyticDiscipline({"y": "a - 2*b + c/d", "z": "exp(a)*d - b**2/c", "w": "3*a*c - 5*d"})
        d.io.input_grammar.defaults = {"a": np.array([1.0]), "b": np.array([2.0]), "c": np.array([3.0]), "d": np.array([4.0])}
        return d

    def affine(tmp):
        # a user-defined discipline with integer coefficients: finite differences with a dyadic step are exact, and
        # it counts the runs made *in the calling process* (a parallel approximation runs in other processes)
        return H.AffineDisc("Aff", {"x": 2, "z": 1}, {"y": 2}, seed=11)

    def array_based(tmp):
        from gemseo.disciplines.array_based_function import ArrayBasedFunctionDiscipline

        return ArrayBasedFunctionDiscipline(H.array_func, {"a": 1, "b": 2}, {"c": 1, "d": 1}, H.array_jac)

    def auto_py(tmp):
        from gemseo.disciplines.auto_py import AutoPyDiscipline

        return AutoPyDiscipline(H.py_func, H.py_jac)

    def concatenater(tmp):
        from gemseo.disciplines.concatenater import Concatenater

        d = Concatenater(["a", "b"], "c", {"a": 2.0, "b": -1.0})
        d.io.input_grammar.defaults = {"a": np.array([1.0, 2.0]), "b": np.array([3.0])}
        return d

    def constraint_aggregation(tmp):
        from gemseo.disciplines.constraint_aggregation import ConstraintAggregation

        d = ConstraintAggregation(["g"], "lower_bound_KS")
        d.io.input_grammar.defaults = {"g": np.array([0.5, -1.0, 0.25])}
        return d

    def filtering(tmp):
        from gemseo.disciplines.wrappers.filtering_discipline import FilteringDiscipline

        return FilteringDiscipline(H.AffineDisc("F", {"x": 2, "z": 1}, {"y1": 2, "y2": 1}, seed=5), input_names=["x"], output_names=["y1"])

    def linear_combination(tmp):
        from gemseo.disciplines.linear_combination import LinearCombination

        return LinearCombination(["a", "b"], "c", {"a": 2.0, "b": -0.5}, offset=1.0, input_size=2)

    def linear_discipline(tmp):
        from gemseo.problems.mdo.scalable.linear.linear_discipline import LinearDiscipline

        np.random.seed(7)
        return LinearDiscipline("L", ["a", "b"], ["c", "d"], inputs_size=2, outputs_size=2)

    def additive_chain(tmp):
        from gemseo.core.chains.additive_chain import MDOAdditiveChain

        ds = [
            H.AffineDisc("P1", {"x": 2}, {"s": 2}, seed=6),
            H.AffineDisc("P2", {"x": 2}, {"s": 2}, seed=7),
        ]
        return MDOAdditiveChain(ds, ["s"])

    def chain(tmp):
        from gemseo.core.chains.chain import MDOChain

        return MDOChain(_affine_chain())

    def init_chain(tmp):
        from gemseo.core.chains.initialization_chain import MDOInitializationChain

        return MDOInitializationChain(_affine_chain(), available_data_names=["x", "z"])

    def parallel_chain(tmp):
        from gemseo.core.chains.parallel_chain import MDOParallelChain

        ds = [
            H.AffineDisc("P1", {"x": 2}, {"s1": 2}, seed=6),
            H.AffineDisc("P2", {"x": 2, "z": 1}, {"s2": 1}, seed=7),
        ]
        return MDOParallelChain(ds)

    def warm_chain(tmp):
        from gemseo.core.chains.warm_started_chain import MDOWarmStartedChain

        return MDOWarmStartedChain(_affine_chain(), ["y1"])

    def scenario_adapter(tmp):
        from gemseo.disciplines.scenario_adapters.mdo_scenario_adapter import MDOScenarioAdapter

        d = MDOScenarioAdapter(_sub_scenario(), ["z"], ["y2", "x"])
        return d

    def objective_adapter(tmp):
        from gemseo.disciplines.scenario_adapters.mdo_objective_scenario_adapter import MDOObjectiveScenarioAdapter

        return MDOObjectiveScenarioAdapter(_sub_scenario(), ["z"], ["y2"])

    def material(tmp):
        from gemseo.problems.topology_optimization.material_model_interpolation_disc import MaterialModelInterpolation

        return MaterialModelInterpolation(1.0, 3.0, 4, 3, [0], [1])

    def ode(tmp):
        from gemseo.disciplines.ode.ode_discipline import ODEDiscipline

        return ODEDiscipline(H.RhsDisc(), np.linspace(0.0, 1.0, 5), state_names=["s"], rtol=1e-9, atol=1e-9)

    def oscillator(tmp):
        from gemseo.problems.ode.oscillator_discipline import OscillatorDiscipline

        return OscillatorDiscipline(2.0, np.linspace(0.0, 1.0, 5))

    def remapping(tmp):
        from gemseo.disciplines.remapping import RemappingDiscipline

        return RemappingDiscipline(
            H.AffineDisc("R", {"x": 2, "z": 1}, {"y1": 2}, seed=8),
            {"new_x": "x", "new_z": "z"},
            {"new_y": "y1"},
        )

    def scalable_parametric(tmp):
        from gemseo.problems.mdo.scalable.parametric.disciplines.scalable_discipline import ScalableDiscipline

        return ScalableDiscipline(
            1,
            np.array([1.0, 2.0]),
            np.array([[1.0], [2.0]]),
            np.array([[1.0, 0.0], [0.0, 1.0]]),
            {"y_2": np.array([[0.5], [0.25]])},
            x_0=np.array([0.5]),
            x_1=np.array([0.5, 0.5]),
            y_2=np.array([0.5]),
        )

    def main_parametric(tmp):
        from gemseo.problems.mdo.scalable.parametric.disciplines.main_discipline import MainDiscipline

        return MainDiscipline(
            np.array([1.0, 2.0]),
            x_0=np.array([0.5]),
            y_1=np.array([0.5, 0.25]),
        )

    def scalable_data_driven(tmp):
        from gemseo.problems.mdo.scalable.data_driven.discipline import ScalableDiscipline

        np.random.seed(3)
        return ScalableDiscipline("ScalableDiagonalModel", _scalable_dataset())

    def splitter(tmp):
        from gemseo.disciplines.splitter import Splitter

        d = Splitter("a", {"b": [0, 1], "c": 2})
        d.io.input_grammar.defaults = {"a": np.array([1.0, 2.0, 3.0])}
        return d

    def surrogate(tmp):
        from gemseo.disciplines.surrogate import SurrogateDiscipline

        return SurrogateDiscipline("LinearRegressor", _io_dataset())

    def taylor(tmp):
        from gemseo.disciplines.taylor import TaylorDiscipline

        return TaylorDiscipline(H.AffineDisc("T", {"x": 2, "z": 1}, {"y1": 2}, seed=9))

    def mda(cls_name, coupled="sellar", **kw):
        def build(tmp):
            from gemseo.mda.factory import MDAFactory

            if coupled == "sellar":
                ds = _sellar()
            elif coupled == "sellar-strong":
                ds = _sellar()[:2]
            else:
                ds = _affine_coupled()
            return MDAFactory().create(cls_name, ds, **kw)

        return build

    def mda_sequential(tmp):
        from gemseo.mda.gauss_seidel import MDAGaussSeidel
        from gemseo.mda.jacobi import MDAJacobi
        from gemseo.mda.sequential_mda import MDASequential

        ds = _sellar()[:2]
        return MDASequential(ds, [MDAJacobi(ds, max_mda_iter=2), MDAGaussSeidel(ds)])

    def density_filter(tmp):
        from gemseo.problems.topology_optimization.density_filter_disc import DensityFilter

        return DensityFilter(n_x=5, n_y=4)

    def fea(tmp):
        from gemseo.problems.topology_optimization.fea_disc import FiniteElementAnalysis

        return FiniteElementAnalysis(n_x=5, n_y=4, f_node=12, fixed_nodes=[0, 1, 2, 3, 4], fixed_dir=[0, 1, 0, 1, 0])

    def volume_fraction(tmp):
        from gemseo.problems.topology_optimization.volume_fraction_disc import VolumeFraction

        return VolumeFraction(n_x=5, n_y=4)

    rec: dict[str, tuple[str, Callable[[Path], Any]]] = {
        "AnalyticDiscipline": ("AnalyticDiscipline", analytic),
        "AnalyticDiscipline[4-symbols]": ("AnalyticDiscipline", analytic4),
        "AffineDisc": ("AffineDisc", affine),
        "ArrayBasedFunctionDiscipline": ("ArrayBasedFunctionDiscipline", array_based),
        "AutoPyDiscipline": ("AutoPyDiscipline", auto_py),
        "Concatenater": ("Concatenater", concatenater),
        "ConstraintAggregation": ("ConstraintAggregation", constraint_aggregation),
        "FilteringDiscipline": ("FilteringDiscipline", filtering),
        "LinearCombination": ("LinearCombination", linear_combination),
        "LinearDiscipline": ("LinearDiscipline", linear_discipline),
        "MDOAdditiveChain": ("MDOAdditiveChain", additive_chain),
        "MDOChain": ("MDOChain", chain),
        "MDOInitializationChain": ("MDOInitializationChain", init_chain),
        "MDOParallelChain": ("MDOParallelChain", parallel_chain),
        "MDOWarmStartedChain": ("MDOWarmStartedChain", warm_chain),
        "MDOScenarioAdapter": ("MDOScenarioAdapter", scenario_adapter),
        "MDOObjectiveScenarioAdapter": ("MDOObjectiveScenarioAdapter", objective_adapter),
        "MaterialModelInterpolation": ("MaterialModelInterpolation", material),
        "ODEDiscipline": ("ODEDiscipline", ode),
        "OscillatorDiscipline": ("OscillatorDiscipline", oscillator),
        "RemappingDiscipline": ("RemappingDiscipline", remapping),
        "ScalableDiscipline": ("ScalableDiscipline", scalable_parametric),
        "MainDiscipline": ("MainDiscipline", main_parametric),
        "ScalableDiscipline[data_driven]": ("ScalableDiscipline", scalable_data_driven),
        "Splitter": ("Splitter", splitter),
        "SurrogateDiscipline": ("SurrogateDiscipline", surrogate),
        "TaylorDiscipline": ("TaylorDiscipline", taylor),
    }
    for name in ("MDAJacobi", "MDAGaussSeidel", "MDAQuasiNewton", "MDAChain"):
        rec[name] = (name, mda(name))
    rec["MDANewtonRaphson"] = ("MDANewtonRaphson", mda("MDANewtonRaphson", "sellar-strong"))
    rec["MDAGSNewton"] = ("MDAGSNewton", mda("MDAGSNewton", "sellar-strong"))
    rec["MDASequential"] = ("MDASequential", mda_sequential)
    rec["MDANewtonRaphson[affine]"] = ("MDANewtonRaphson", mda("MDANewtonRaphson", "affine"))
    rec["DensityFilter"] = ("DensityFilter", density_filter)
    rec["FiniteElementAnalysis"] = ("FiniteElementAnalysis", fea)
    rec["VolumeFraction"] = ("VolumeFraction", volume_fraction)
    rec["MDAJacobi[affine]"] = ("MDAJacobi", mda("MDAJacobi", "affine"))
    rec["MDAGaussSeidel[affine]"] = ("MDAGaussSeidel", mda("MDAGaussSeidel", "affine"))
    rec["MDAChain[affine]"] = ("MDAChain", mda("MDAChain", "affine"))
    return rec


# --------------------------------------------------------------------------- constructor options (variants)
#
# "all configurations": a class of the factories is also instantiated with every constructor option that has a
# default value set to a NON-default value, one option at a time (`Sellar1[n=2]`,
# `SobieskiMission[dtype=complex128]`, ...).  The values are derived from the signature, so that an option added to
# a class is picked up without editing this file.  What a `__setstate__` hook / an `_init_shared_memory_attrs_*`
# re-creates from the configuration (and not from the pickled state) only shows for a non-default configuration.


def option_values(param) -> list[tuple[str, Any]]:
    """Non-default values of a constructor option, derived from its default: (label, value)."""
    import enum

    d = param.default
    if isinstance(d, enum.Enum):
        return [(str(getattr(m, "value", m.name)), m) for m in type(d) if m != d]
    if isinstance(d, bool):
        if "float" in str(param.annotation):  # (`enable_delay: bool | float`: True would sleep one second per run)
            return [("1/1024", 2.0**-10)]
        return [(str(not d), not d)]
    if isinstance(d, int):
        return [(str(d + 1), d + 1)]
    if isinstance(d, float):
        return [(repr(d * 0.5 + 0.375), d * 0.5 + 0.375)]
    return []


def class_variants(cls) -> list[tuple[str, dict[str, Any]]]:
    """(label, keyword arguments) for every option of `cls.__init__` that has a default of a known kind."""
    import inspect

    try:
        sig = inspect.signature(cls.__init__)
    except (TypeError, ValueError):
        return []
    out = []
    for pname, p in sig.parameters.items():
        if pname == "self" or p.default is inspect.Parameter.empty or p.kind in (p.VAR_KEYWORD, p.VAR_POSITIONAL):
            continue
        for label, value in option_values(p):
            out.append((f"{pname}={label}", {pname: value}))
    return out


def _explicit_variants() -> dict[str, tuple[str, Callable[[Path], Any]]]:
    """Non-default settings of classes whose recipes are explicit (cheap ones)."""

    def mda_with(cls_name, coupled, **kw):
        def build(tmp):
            from gemseo.mda.factory import MDAFactory

            ds = _sellar()[:2] if coupled == "sellar-strong" else _sellar() if coupled == "sellar" else _affine_coupled()
            return MDAFactory().create(cls_name, ds, **kw)

        return build

    def analytic_named(tmp):
        from gemseo.disciplines.analytic import AnalyticDiscipline

        return AnalyticDiscipline({"y": "2*x+z**2", "w": "x*z-1"}, name="named")

    return {
        "MDAJacobi[affine,tolerance=1/1024,max_mda_iter=7]": ("MDAJacobi", mda_with("MDAJacobi", "affine", tolerance=2.0**-10, max_mda_iter=7)),
        "MDAGaussSeidel[affine,over_relaxation_factor=7/8]": ("MDAGaussSeidel", mda_with("MDAGaussSeidel", "affine", over_relaxation_factor=0.875)),
        "MDAChain[affine,inner_mda_name=MDAGaussSeidel]": ("MDAChain", mda_with("MDAChain", "affine", inner_mda_name="MDAGaussSeidel")),
        "AnalyticDiscipline[name=named]": ("AnalyticDiscipline", analytic_named),
    }


def is_variant(recipe: str) -> bool:
    """A recipe with a non-default constructor option (`Class[option=value]`)."""
    return "=" in recipe


_RECIPES: dict[str, tuple[str, Callable[[Path], Any]]] | None = None


def discipline_recipes() -> tuple[dict[str, tuple[str, Callable[[Path], Any]]], dict[str, str]]:
    """All recipes + the classes skipped (name -> reason)."""
    global _RECIPES
    from gemseo.disciplines.factory import DisciplineFactory
    from gemseo.mda.factory import MDAFactory

    skipped: dict[str, str] = {}
    if _RECIPES is None:
        rec = _explicit()
        dfac, mfac = DisciplineFactory(), MDAFactory()
        names = list(dfac.class_names) + [n for n in mfac.class_names if n not in dfac.class_names]
        for name in names:
            if name in EXTERNAL:
                continue
            if name in rec:
                continue
            fac = dfac if name in dfac.class_names else mfac

            def build(tmp, _fac=fac, _name=name):
                return _fac.create(_name)

            rec[name] = (name, build)
            # the same class with each constructor option at a non-default value
            try:
                variants = class_variants(fac.get_class(name))
            except Exception:  # noqa: BLE001
                variants = []
            for label, kw in variants:

                def build_variant(tmp, _fac=fac, _name=name, _kw=kw):
                    return _fac.create(_name, **_kw)

                rec[f"{name}[{label}]"] = (name, build_variant)
        for vname, v in _explicit_variants().items():
            rec.setdefault(vname, v)
        _RECIPES = rec
    skipped.update(EXTERNAL)
    return _RECIPES, skipped
