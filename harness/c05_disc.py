"""Harness disciplines of the C05 check (must live in a real module: GEMSEO inherits docstrings from source).

`PolyDisc` is a discipline whose body is the polynomial family used on the C05 protocol line:

    out_i = sum_j A[out][i][j] * x_j + b[out][i] + q[out][i] * sum_j x_j**2

where x is the concatenation of all the inputs in grammar order.  Its Jacobian is

    d out_i / d x_j = A[out][i][j] + 2 * q[out][i] * x_j

Everything is integer/dyadic, so every float intermediate is exact on the exact stream.

Body styles with side effects on the input arrays (what real disciplines with a state do):
`spec["wr"] = {input: [k, syntax]}`: after computing the outputs from the values it was called with,
the body adds `k` **in place** to the array it was given for `input` (`arr += k`, `arr[:] = arr + k` or
`np.add(arr, k, out=arr)`); `spec["alias"] = {output: [input, "same" | "view"]}`: the body returns the
(updated) input array itself, or a full view of it, as `output` (the polynomial of such an output is
`x_input + k`, so the value of the returned array is the value of the polynomial).
`spec["dorder"]`: the order in which the default values are defined (`defaults.update({name: value})` one
after the other; a mapping: the order has no meaning, it is not on the protocol line of the model).
The body counts its runs and linearizations and logs (snapshots of) the inputs it saw: this is the
run-counter instrumentation of the oracle; it lives in the harness, not in /repo.
"""

from __future__ import annotations

from fractions import Fraction
from typing import Any

import numpy as np
from scipy.sparse import coo_array
from scipy.sparse import csc_array
from scipy.sparse import csr_array

_SPARSE = {"csr": csr_array, "csc": csc_array, "coo": coo_array}

from gemseo.core.discipline.discipline import Discipline


def _snapshot(data, names) -> tuple:
    """An immutable exact copy of the input values (name, shape, dtype kind, values)."""
    out = []
    for n in names:
        v = np.asarray(data[n])
        out.append((n, tuple(v.shape), tuple(Fraction(x) for x in v.ravel().tolist())))
    return tuple(out)


class PolyDisc(Discipline):
    """A polynomial discipline with run counters."""

    def __init__(self, spec: dict[str, Any], name: str = "PolyDisc") -> None:
        super().__init__(name)
        self.spec = spec
        self.in_names = [i[0] for i in spec["inputs"]]
        self.in_sizes = {i[0]: i[1] for i in spec["inputs"]}
        self.out_names = [o[0] for o in spec["outputs"]]
        self.out_sizes = {o[0]: o[1] for o in spec["outputs"]}
        # [output, input] (CSR) or [output, input, format]
        self.sparse_blocks = {(p[0], p[1]): (p[2] if len(p) > 2 else "csr") for p in spec.get("sparse", [])}
        self.run_sets_jac = bool(spec.get("run_sets_jac", False))
        self.io.input_grammar.update_from_names(self.in_names)
        self.io.output_grammar.update_from_names(self.out_names)
        defaults = {}
        for n, _size, dflt in spec["inputs"]:
            if dflt is not None:
                defaults[n] = np.array([float(Fraction(t)) for t in dflt])
        order = spec.get("dorder")
        if order:
            # the default values are defined one after the other in an order of the author's choice (input
            # data are a mapping: the order in which its items were defined has no meaning)
            self.io.input_grammar.defaults = {}
            for n in [*[m for m in order if m in defaults], *[m for m in defaults if m not in order]]:
                self.io.input_grammar.defaults.update({n: defaults[n]})
        else:
            self.io.input_grammar.defaults = defaults
        self.A ={o: np.array(spec["A"][o], dtype=float).reshape(self.out_sizes[o], -1) for o in self.out_names}
        self.b = {o: np.array([float(Fraction(c)) for c in spec["b"][o]], dtype=float) for o in self.out_names}
        self.q = {o: np.array(spec["q"][o], dtype=float) for o in self.out_names}
        self.writes = [(n, float(Fraction(k)), syn) for n, (k, syn) in (spec.get("wr") or {}).items()]
        self.alias = {o: (n, style) for o, (n, style) in (spec.get("alias") or {}).items()}
        self.n_run = 0
        self.n_jac = 0
        self.run_log: list[tuple] = []
        self.jac_log: list[tuple] = []

    # ------------------------------------------------------------------ body
    def _concat(self, data) -> np.ndarray:
        return np.concatenate([np.asarray(data[n], dtype=float).ravel() for n in self.in_names])

    def _run(self, input_data):
        self.n_run += 1
        self.run_log.append(_snapshot(input_data, self.in_names))
        x = self._concat(input_data)
        s2 = float(np.dot(x, x))
        # (the inputs of a "symmetric" body may be shorter than declared: the rows of A are constant)
        out = {o: self.A[o][:, : len(x)] @ x + self.b[o] + self.q[o] * s2 for o in self.out_names}
        if self.run_sets_jac:
            self._fill_jac(input_data)
            self._has_jacobian = True
        # side effects on the input arrays (after everything was computed from the call-time values)
        for n, k, syntax in self.writes:
            arr = input_data[n]
            if syntax == "iadd":
                arr += k
            elif syntax == "slice":
                arr[:] = arr + k
            else:
                np.add(arr, k, out=arr)
        for o, (n, style) in self.alias.items():
            arr = input_data[n]
            out[o] = arr if style == "same" else arr[:]
        return out

    def _fill_jac(self, data) -> None:
        self.jac_log.append(_snapshot(data, self.in_names))
        x = self._concat(data)
        jac: dict[str, dict[str, Any]] = {}
        for o in self.out_names:
            full = self.A[o][:, : len(x)] + 2.0 * np.outer(self.q[o], x)
            jac[o] = {}
            k = 0
            for n in self.in_names:
                size = np.asarray(data[n]).size
                block = np.array(full[:, k : k + size])
                k += size
                fmt = self.sparse_blocks.get((o, n))
                jac[o][n] = _SPARSE[fmt](block) if fmt else block
        self.jac = jac

    def _compute_jacobian(self, input_names=(), output_names=()) -> None:
        self.n_jac += 1
        self._fill_jac(self.io.data)
