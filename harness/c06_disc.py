"""Harness disciplines of the C06 check (real module file: GEMSEO's docstring inheritance needs the source).

`CplDisc` computes, for each of its outputs ``o`` (a vector of size ``m_o``)::

    o = const_o + sum_{input i}  M_{o,i} @ phi(i)

where ``phi`` is applied component-wise and is one of

* ``"lin"``: phi(t) = t                (affine discipline; with dyadic data every operation is exact or
                                        correctly rounded, and the exact solution is a rational solve),
* ``"rat"``: phi(t) = t / (1 + t*t)    (|phi'| <= 1: a non-linear contraction when the row sums are < 1),
* ``"sin"``: phi(t) = sin(t)           (|phi'| <= 1).

A discipline may have one of its outputs among its inputs (self-coupled discipline).
The analytic Jacobian is provided (Newton-type MDAs linearize the disciplines).
"""

from __future__ import annotations

from typing import TYPE_CHECKING

from numpy import array
from numpy import atleast_1d
from numpy import cos
from numpy import sin
from numpy import zeros

from gemseo.core.discipline.discipline import Discipline

if TYPE_CHECKING:
    from collections.abc import Mapping

    from gemseo.typing import StrKeyMapping


def phi(kind: str, t):
    """The component-wise non-linearity."""
    if kind == "lin":
        return t
    if kind == "rat":
        return t / (1.0 + t * t)
    if kind == "sin":
        return sin(t)
    raise ValueError(kind)


def dphi(kind: str, t):
    """The derivative of the component-wise non-linearity."""
    if kind == "lin":
        return 1.0 + 0.0 * t
    if kind == "rat":
        return (1.0 - t * t) / (1.0 + t * t) ** 2
    if kind == "sin":
        return cos(t)
    raise ValueError(kind)


class CplDisc(Discipline):
    """A coupled discipline ``o = const + sum_i M_oi @ phi(i)``."""

    def __init__(
        self,
        name: str,
        in_sizes: Mapping[str, int],
        outs: Mapping[str, tuple[list[float], Mapping[str, list[list[float]]]]],
        kind: str = "lin",
        defaults: Mapping[str, list[float]] | None = None,
    ) -> None:
        """
        Args:
            in_sizes: The sizes of the inputs.
            outs: For each output name, the constant vector and the matrices of the inputs.
            kind: The non-linearity.
            defaults: The default values of the inputs (zero when missing).
        """  # noqa: D205 D212 D415
        super().__init__(name=name)
        self.kind = kind
        self.in_sizes = dict(in_sizes)
        self.io.input_grammar.update_from_names(list(in_sizes))
        self.io.output_grammar.update_from_names(list(outs))
        defaults = defaults or {}
        self.io.input_grammar.defaults.update({
            k: array([float(v) for v in defaults.get(k, [0.0] * n)]) for k, n in in_sizes.items()
        })
        self.outs = {
            o: (
                array([float(c) for c in const]),
                {i: array([[float(a) for a in row] for row in mat]) for i, mat in mats.items()},
            )
            for o, (const, mats) in outs.items()
        }
        self.n_runs = 0

    def _run(self, input_data: StrKeyMapping) -> StrKeyMapping | None:
        self.n_runs += 1
        out = {}
        for o, (const, mats) in self.outs.items():
            v = const.copy()
            for i, mat in mats.items():
                v = v + mat @ phi(self.kind, atleast_1d(input_data[i]).astype(float))
            out[o] = v
        return out

    def _compute_jacobian(self, input_names=(), output_names=()) -> None:
        self._init_jacobian(input_names, output_names)
        data = self.io.data
        for o, (const, mats) in self.outs.items():
            if o not in self.jac:
                continue
            for i in self.jac[o]:
                if i in mats:
                    d = dphi(self.kind, atleast_1d(data[i]).astype(float))
                    self.jac[o][i] = mats[i] * d[None, :]
                else:
                    self.jac[o][i] = zeros((const.size, self.in_sizes[i]))
