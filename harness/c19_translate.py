"""C19 — translator: GEMSEO's parameter mappings to the SciPy / OpenTURNS parametrisations.

Regenerates `lean/GemseoVerif/Gen/C19Params.lean` from the *current* sources of
`/repo/src/gemseo/uncertainty/distributions/{scipy,openturns}/*.py` with `ast`: for every family
class, the name of the interfaced distribution, every entry of the `parameters` dict (SciPy) or
tuple (OpenTURNS) passed to `super().__init__` as a real-valued Lean function of the constructor
arguments, the defaults of these arguments, and whether the OpenTURNS options are forwarded
unchanged.  The theorems of Props/C19.lean are stated about these generated definitions, so a
changed mapping breaks a proof obligation.

Grammar accepted (anything else is refused: the definition is then missing and the obligation that
mentions it fails): names of constructor arguments or of previously assigned locals, numeric
constants, `+ - * /`, `** 0.5` (square root), `** n` (natural n), `float(e)`, `exp(e)`, `log(e)`,
an `if <bool argument>: a, b = ... else: a, b = ...` block, a call to a pure helper of
`_log_normal_utils.py` made of assignments and a returned tuple (inlined), and
`"s1" if <bool argument> else "s2"` for the interfaced name.
"""

from __future__ import annotations

import ast
from fractions import Fraction
from pathlib import Path

from harness import common

OPTIONS = ("transformation", "lower_bound", "upper_bound", "threshold")
GEN = common.LEAN_DIR / "GemseoVerif" / "Gen" / "C19Params.lean"


class Refused(Exception):
    pass


def num(c) -> str:
    f = Fraction(str(c)) if isinstance(c, float) else Fraction(c)
    if f.denominator == 1:
        return f"({f.numerator} : ℝ)" if f >= 0 else f"(-{-f.numerator} : ℝ)"
    return f"(({f.numerator} : ℝ) / {f.denominator})"


class Tr:
    """Symbolic evaluation of the body of `__init__` up to the `super().__init__` call."""

    def __init__(self, args: list[str], bools: set[str], helpers: dict[str, ast.FunctionDef]):
        self.args, self.bools, self.helpers = args, bools, helpers

    def expr(self, e: ast.AST, env: dict[str, str]) -> str:
        if isinstance(e, ast.Name):
            if e.id in env:
                return env[e.id]
            if e.id in self.args and e.id not in self.bools:
                return e.id
            raise Refused(f"unknown name {e.id}")
        if isinstance(e, ast.Constant) and isinstance(e.value, (int, float)) and not isinstance(e.value, bool):
            return num(e.value)
        if isinstance(e, ast.UnaryOp) and isinstance(e.op, ast.USub):
            return f"(-{self.expr(e.operand, env)})"
        if isinstance(e, ast.BinOp):
            if isinstance(e.op, ast.Pow):
                base = self.expr(e.left, env)
                if isinstance(e.right, ast.Constant) and e.right.value == 0.5:
                    return f"Real.sqrt ({base})"
                if isinstance(e.right, ast.Constant) and isinstance(e.right.value, int) and e.right.value >= 0:
                    return f"(({base}) ^ {e.right.value})"
                raise Refused("general power")
            op = {ast.Add: "+", ast.Sub: "-", ast.Mult: "*", ast.Div: "/"}.get(type(e.op))
            if op is None:
                raise Refused(f"operator {type(e.op).__name__}")
            return f"({self.expr(e.left, env)} {op} {self.expr(e.right, env)})"
        if isinstance(e, ast.Call) and isinstance(e.func, ast.Name) and not e.keywords:
            f = e.func.id
            if f == "float" and len(e.args) == 1:
                return self.expr(e.args[0], env)
            if f in ("exp", "log") and len(e.args) == 1:
                return f"Real.{f} ({self.expr(e.args[0], env)})"
        raise Refused(ast.dump(e)[:80])

    def values(self, e: ast.AST, env: dict[str, str], n: int) -> list[str]:
        """An expression producing `n` values: a tuple, or a call to an inlined helper."""
        if isinstance(e, ast.Tuple):
            if len(e.elts) != n:
                raise Refused("tuple arity")
            return [self.expr(x, env) for x in e.elts]
        if isinstance(e, ast.Call) and isinstance(e.func, ast.Name) and e.func.id in self.helpers and not e.keywords:
            fn = self.helpers[e.func.id]
            params = [a.arg for a in fn.args.args]
            if len(params) != len(e.args):
                raise Refused("helper arity")
            local = {p: self.expr(a, env) for p, a in zip(params, e.args)}
            sub = Tr(params, set(), {})
            for st in fn.body:
                if isinstance(st, ast.Expr) and isinstance(st.value, ast.Constant):
                    continue
                if isinstance(st, ast.Assign) and len(st.targets) == 1 and isinstance(st.targets[0], ast.Name):
                    local[st.targets[0].id] = sub.expr(st.value, local)
                    continue
                if isinstance(st, ast.Return) and isinstance(st.value, ast.Tuple) and len(st.value.elts) == n:
                    return [sub.expr(x, local) for x in st.value.elts]
                raise Refused("helper statement " + type(st).__name__)
            raise Refused("helper without return")
        if n == 1:
            return [self.expr(e, env)]
        raise Refused("multi-value expression")

    def assign(self, st: ast.Assign, env: dict[str, str]) -> dict[str, str]:
        if len(st.targets) != 1:
            raise Refused("chained assignment")
        t = st.targets[0]
        names = [x.id for x in t.elts] if isinstance(t, ast.Tuple) else [t.id]
        vals = self.values(st.value, env, len(names))
        return dict(zip(names, vals))

    def body(self, stmts: list[ast.stmt]) -> tuple[dict[str, str], ast.Call]:
        env: dict[str, str] = {}
        for st in stmts:
            if isinstance(st, ast.Expr) and isinstance(st.value, ast.Constant):
                continue  # docstring
            if isinstance(st, ast.Assign):
                env.update(self.assign(st, env))
                continue
            if isinstance(st, ast.If) and isinstance(st.test, ast.Name) and st.test.id in self.bools:
                a, b = dict(env), dict(env)
                for s in st.body:
                    if not isinstance(s, ast.Assign):
                        raise Refused("if body")
                    a.update(self.assign(s, a))
                for s in st.orelse:
                    if not isinstance(s, ast.Assign):
                        raise Refused("else body")
                    b.update(self.assign(s, b))
                for k in set(a) | set(b):
                    if a.get(k) != b.get(k):
                        if k not in a or k not in b:
                            raise Refused("one-sided assignment")
                        env[k] = f"(if {st.test.id} = true then {a[k]} else {b[k]})"
                    else:
                        env[k] = a[k]
                continue
            if isinstance(st, ast.Expr) and isinstance(st.value, ast.Call):
                c = st.value
                f = c.func
                if (
                    isinstance(f, ast.Attribute)
                    and f.attr == "__init__"
                    and isinstance(f.value, ast.Call)
                    and isinstance(f.value.func, ast.Name)
                    and f.value.func.id == "super"
                ):
                    return env, c
            raise Refused("statement " + type(st).__name__)
        raise Refused("no super().__init__ call")


def string_expr(e: ast.AST, bools: set[str]) -> str:
    if isinstance(e, ast.Constant) and isinstance(e.value, str):
        return f'"{e.value}"'
    if isinstance(e, ast.IfExp) and isinstance(e.test, ast.Name) and e.test.id in bools:
        return f"(if {e.test.id} = true then {string_expr(e.body, bools)} else {string_expr(e.orelse, bools)})"
    raise Refused("interfaced name")


def translate_class(cls: ast.ClassDef, helpers) -> list[str]:
    name = cls.name.removesuffix("Distribution")
    out = [f"/-! #### {cls.name} -/", f"namespace {name}"]
    init = next((n for n in cls.body if isinstance(n, ast.FunctionDef) and n.name == "__init__"), None)
    if init is None:
        return [*out, "-- refused: no __init__", f"end {name}", ""]
    a = init.args
    params = [x.arg for x in a.args[1:]]
    defaults = dict(zip(params[len(params) - len(a.defaults) :], a.defaults))
    own = [p for p in params if p not in OPTIONS]
    bools = {p for p in own if isinstance(defaults.get(p), ast.Constant) and isinstance(defaults[p].value, bool)}
    binder = " ".join(f"({p} : {'Bool' if p in bools else 'ℝ'})" for p in own)
    out.append(f"def arguments : List String := [{', '.join(chr(34) + p + chr(34) for p in own)}]")
    for p in own:
        d = defaults.get(p)
        if isinstance(d, ast.Constant) and isinstance(d.value, bool):
            out.append(f"def default_{p} : Bool := {'true' if d.value else 'false'}")
        elif isinstance(d, ast.Constant) and isinstance(d.value, (int, float)):
            out.append(f"noncomputable def default_{p} : ℝ := {num(d.value)}")
        else:
            out.append(f"-- refused: default of {p}")
    try:
        env, call = Tr(own, bools, helpers).body(init.body)
        kws = {k.arg: k.value for k in call.keywords}
        tr = Tr(own, bools, helpers)
        out.append(f"def interfaced {binder} : String := {string_expr(kws['interfaced_distribution'], bools)}")
        prm = kws["parameters"]
        if isinstance(prm, ast.Dict):
            keys = []
            for k, v in zip(prm.keys, prm.values):
                if not (isinstance(k, ast.Constant) and isinstance(k.value, str)):
                    raise Refused("parameter key")
                keys.append(k.value)
                try:
                    out.append(f"noncomputable def {k.value} {binder} : ℝ := {tr.expr(v, env)}")
                except Refused as r:
                    out.append(f"-- refused: parameter {k.value}: {r}")
            out.append(f"def keys : List String := [{', '.join(chr(34) + k + chr(34) for k in keys)}]")
        elif isinstance(prm, ast.Tuple):
            for i, v in enumerate(prm.elts):
                try:
                    out.append(f"noncomputable def arg{i} {binder} : ℝ := {tr.expr(v, env)}")
                except Refused as r:
                    out.append(f"-- refused: positional parameter {i}: {r}")
            out.append(f"def arity : Nat := {len(prm.elts)}")
        else:
            raise Refused("parameters is neither a dict nor a tuple")
        opts = [p for p in params if p in OPTIONS]
        if opts:
            fwd = all(isinstance(kws.get(o), ast.Name) and kws[o].id == o for o in opts)
            out.append(f"def optionsForwarded : Bool := {'true' if fwd and len(opts) == len(OPTIONS) else 'false'}")
    except (Refused, KeyError) as r:
        out.append(f"-- refused: {r}")
    out += [f"end {name}", ""]
    return out


def generate(repo: Path | None = None) -> str:
    if repo is None:
        # the sources of the gemseo package actually imported by the harness (a scratch worktree when
        # PYTHONPATH points to one), so that translator and correspondence look at the same code
        import gemseo

        base = Path(gemseo.__file__).resolve().parent / "uncertainty" / "distributions"
    else:
        base = Path(repo) / "src" / "gemseo" / "uncertainty" / "distributions"
    helpers = {}
    util = base / "_log_normal_utils.py"
    if util.exists():
        for n in ast.parse(util.read_text()).body:
            if isinstance(n, ast.FunctionDef):
                helpers[n.name] = n
    lines = [
        "/-",
        "GENERATED by harness/c19_translate.py from the sources of gemseo.uncertainty.distributions —",
        "do not edit; regenerated at every `./check C19`.  GEMSEO's mappings from its documented",
        "constructor arguments to the SciPy (keyword) and OpenTURNS (positional) parametrisations.",
        "-/",
        "import Mathlib.Analysis.SpecialFunctions.Log.Basic",
        "import Mathlib.Analysis.SpecialFunctions.Sqrt",
        "",
        "namespace GV.C19.Gen",
        "",
    ]
    for sub in ("scipy", "openturns"):
        for f in sorted((base / sub).glob("*.py")):
            if f.name in ("__init__.py", "distribution.py", "joint.py", "factory.py", "fitting.py"):
                continue
            tree = ast.parse(f.read_text())
            for n in tree.body:
                if isinstance(n, ast.ClassDef) and n.name.endswith("Distribution"):
                    lines += translate_class(n, helpers)
    lines += ["end GV.C19.Gen", ""]
    return "\n".join(lines)


def write() -> bool:
    """Regenerate the file; return whether its content changed."""
    GEN.parent.mkdir(parents=True, exist_ok=True)
    new = generate()
    old = GEN.read_text() if GEN.exists() else None
    if new != old:
        GEN.write_text(new)
        return True
    return False
